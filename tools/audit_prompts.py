#!/usr/bin/env python3
"""Writes the prompts for an audit round (development aid, not a registered check).

  audit_prompts.py <round>     round in {3, 4}; creates /tmp/audit/prompt_CNN.txt for every property

Audit rounds ask fresh sub-agents to FIND defects in the unchanged tree (sections 10.8-10.10 of DESIGN.md);
rounds 1 and 2 used the text kept in audit_prompt_example.txt. The sub-agents get ONLY the rendered prompt
(property text from properties.jsonl) and their own scratch worktree /tmp/audit/CNN; nothing from /verif.
  for i in 01 .. 20: git -C /repo worktree add -q --detach /tmp/audit/C$i HEAD; mkdir -p /tmp/auditout/C$i
"""
import json
import os
import sys

HEAD = """You are auditing a Go library for GENUINE defects (not planting bugs).

The library is cloudwego/gopkg (Thrift binary codec and skip decoders, TTHeader frame encode/decode,
zero-copy buffered IO "bufiox", a read-only string map). You have your OWN scratch git worktree of it at

    {wt}

Work ONLY inside that directory and in your output directory {out}. Do not read or write /repo or /verif.
The machine is offline. For every shell command first run:
    export GOFLAGS=-mod=mod GOPROXY=off GOSUMDB=off GOTOOLCHAIN=local
The existing test suite is run with:   cd {wt} && go test -vet=off -count=1 ./...
NEVER use `git stash`. Do NOT modify any non-test library file (you may add new _test.go files; remove them
at the end and restore go.sum with `git -C {wt} checkout -- go.sum` if it changed).

WORKING STYLE (important): keep every message you write short. Never paste whole source files. Read files
with tools in pieces, write files with tools, never more than ~150 lines per tool call.

THE PROPERTY the library is supposed to satisfy (id {id}: {title}):

  Statement: {statement}

  Quantified over: {qtext}

  Relevant source files: {files}

{method}

For each candidate defect write a demonstration test (a new file named audit_demo_<n>_test.go in the
right package directory) that FAILS on the unchanged tree because the property is violated, and make sure
by reading the property text again that the behaviour really contradicts the STATEMENT (not merely your
expectation). Rank your findings by confidence. If after a serious search you find nothing, say so - a
false report is worse than none.

Save into {out}/ : one sub-directory per finding (F1, F2, ...) with the demo test file and a README.md of
5-15 lines (what fails, which sentence of the statement it contradicts, the exact command and output).
Finally remove your demo files from the worktree. Reply with a SHORT summary (at most 25 lines).
"""

METHODS = {
    3: """YOUR TASK: find inputs, call histories or argument shapes for which the UNCHANGED library violates this
property, by reading the statement LITERALLY, clause by clause. Two earlier audits concentrated on
single-shot use and on hostile bytes; what they and the maintainers missed, and what was found since, lay
elsewhere: the SECOND use of an object (a second Flush of a bytes-backed writer dropped what the first had
published), an object's OUTPUTS fed back into the same object (a map reloaded from strings it had returned),
a FAILING call that had already changed state before it noticed the problem, and a size that was compared
AFTER being truncated to 32 bits. All of those are repaired now. Proceed like this:
  1. Split the statement into its individual clauses (each sentence, and each part joined by "and", ";"
     or ","), and write them down in {out}/clauses.md, one per line.
  2. For each clause list every exported function, method, constructor and option it applies to
     (`go doc -all <package>`; do not skip the rarely used ones) in the same file.
  3. For each (clause, entry point) pair ask: does it hold on the 1st, 2nd and 100th use of the same
     object? after a failed call on that object? after Release/Recycle/Flush/Reset/Close and reuse? when the
     arguments are values this object (or its sibling) returned earlier? when two entry points that are each
     fine are used alternately on one object? for the zero, the smallest and the largest legal argument?
     Write small randomised tests for the pairs that look weakest and run them.
Already judged, do not report again: very large positive declared sizes make allocating entry points
request that much memory; 32-bit platforms; strings of 2 GiB and more; nil *ApplicationException;
ReadMessageBegin reporting a negative name length as INVALID_DATA; PrependError dropping a wrapped cause or
ignoring accessors not spelled `TypeId() int32`; PrependError with an empty prefix on a foreign exception
with empty text; unbounded recursion in ConvertUnknownFields; element IDs in unknown-field containers;
slices returned next to a non-nil error; the unsynchronised SetSpanCache switch; zero-value (not
constructed) string maps; strings handed out before a reload changing afterwards; requests above MaxInt/2.""",
    4: """YOUR TASK: this library recently received a series of small repairs - run
    git -C {wt} log --oneline --grep '^fix:'        (and `git -C {wt} show <commit>` for each one)
to see them. Repairs are where new defects come from. For the property above, check each repair that touches the
relevant code (and the helper packages it uses):
  1. Is it COMPLETE? Look for the sibling code path that has the same flaw and was not repaired (another entry
     point, the other reader/writer/decoder variant, the other map type, the failure path next to the repaired
     success path).
  2. Did it introduce something NEW? State that is now changed before a call can still fail; an early return
     that skips a reset; a comparison that is now too strict or too lax; aliasing between a result and internal
     storage; behaviour on the 2nd use of the object.
  3. Does the repaired code still satisfy EVERY clause of the statement (read it literally, clause by clause),
     including for the zero, the smallest and the largest legal argument?
Write small randomised tests for whatever looks weak and run them. Already judged, do not report: very large
positive declared sizes; 32-bit platforms; strings of 2 GiB and more; nil *ApplicationException;
PrependError dropping a wrapped cause / other spellings of TypeId / empty prefix on a foreign exception with
empty text; unbounded recursion in ConvertUnknownFields; element IDs in unknown-field containers; slices returned
next to a non-nil error; the unsynchronised SetSpanCache switch; zero-value (not constructed) string maps;
strings handed out before a reload changing afterwards; requests above MaxInt/2; 100 consecutive empty reads;
IsTTHeader on fewer than 8 bytes; a negative maxdepth for SkipDecoderTpl.Skip; a MAP at Extra's id with other
key/value types; MarshalFastMsg refusing the empty method name; BytesSkipDecoder reporting io.EOF.""",
}


def main():
    rnd = int(sys.argv[1]) if len(sys.argv) > 1 else 3
    root = os.path.dirname(os.path.dirname(os.path.abspath(__file__)))
    props = [json.loads(l) for l in open(os.path.join(root, "properties.jsonl"))]
    os.makedirs("/tmp/audit", exist_ok=True)
    for p in props:
        pid = p["id"]
        out = "/tmp/auditout/" + pid
        txt = HEAD.format(wt="/tmp/audit/" + pid, out=out, id=pid, title=p["title"], statement=p["statement"],
                          qtext=p["quantifier"]["text"], files=", ".join(p["anchors"]["files"]),
                          method=METHODS[rnd].format(out=out, wt="/tmp/audit/" + pid))
        open("/tmp/audit/prompt_%s.txt" % pid, "w").write(txt)
    print("wrote %d prompts for audit round %d" % (len(props), rnd))


if __name__ == "__main__":
    main()
