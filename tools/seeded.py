#!/usr/bin/env python3
"""Seeded-change harness (development aid, not a registered check).

  seeded.py import <srcdir> <PROP> <label>   verify a sub-agent's change (patch.diff + seed_demo_test.go) in a scratch
                                             worktree and, if it holds up, store it as /verif/seeded/<PROP>_<label>/
  seeded.py run [name-substring ...]         apply each stored change to /repo, run the quick checks listed in its
                                             meta.json (default: the property's own check), undo, and report
  seeded.py prun <N> [name-substring ...]    the same on N scratch copies in parallel: each worker has its own worktree of
                                             /repo (HEAD) under /tmp/seedpar/<k>/repo and its own copy of /verif under
                                             /tmp/seedpar/<k>/verif whose harness/go.mod replace directive points at that
                                             worktree; /repo itself is not touched. Used for regression re-runs only.
"""
import glob
import json
import os
import re
import shutil
import subprocess
import sys
import time

REPO = "/repo"
ROOT = os.path.dirname(os.path.dirname(os.path.abspath(__file__)))
SEEDED = os.path.join(ROOT, "seeded")
SCRATCH = "/tmp/seedverify"


def sh(cmd, cwd=None, timeout=3600):
    env = dict(os.environ, GOFLAGS="-mod=mod", GOPROXY="off", GOSUMDB="off", GOTOOLCHAIN="local",
               VERIF_EVIDENCE_DIR=os.path.join(ROOT, ".work", "evidence-scratch"))
    p = subprocess.run(cmd, shell=True, cwd=cwd, env=env, stdout=subprocess.PIPE, stderr=subprocess.STDOUT, text=True, errors="replace", timeout=timeout)
    return p.returncode, p.stdout


def pkg_dirs(wt):
    out = []
    for d, _, files in os.walk(wt):
        if ".git" in d:
            continue
        if any(f.endswith(".go") for f in files):
            out.append(os.path.relpath(d, wt))
    return sorted(out)


def find_demo_dir(wt, demo_src, patch):
    m = re.search(r"^package\s+(\w+)", demo_src, re.M)
    pkg = m.group(1) if m else ""
    base = pkg[:-5] if pkg.endswith("_test") else pkg
    touched = [os.path.dirname(x) for x in re.findall(r"^\+\+\+ b/(\S+)", patch, re.M)]
    cands = []
    for d in touched + pkg_dirs(wt):
        if d in cands:
            continue
        names = set()
        for f in glob.glob(os.path.join(wt, d, "*.go")):
            mm = re.search(r"^package\s+(\w+)", open(f).read(), re.M)
            if mm:
                names.add(mm.group(1))
        if base in names or pkg in names:
            cands.append(d)
    return cands


def cmd_import(src, prop, label):
    patch_file = os.path.join(src, "patch.diff")
    demos = sorted(glob.glob(os.path.join(src, "*_test.go")))
    if not os.path.exists(patch_file) or not demos:
        print("missing patch.diff or demo in", src)
        return 2
    patch = open(patch_file).read()
    demo_src = open(demos[0]).read()
    shutil.rmtree(SCRATCH, ignore_errors=True)
    sh("git worktree prune", cwd=REPO)
    rc, out = sh("git worktree add -q --detach %s HEAD" % SCRATCH, cwd=REPO)
    if rc != 0:
        print(out)
        return 2
    log = []
    try:
        # 1. demo passes on the unchanged tree (this also finds the package directory)
        demo_dir = None
        for d in find_demo_dir(SCRATCH, demo_src, patch):
            dst = os.path.join(SCRATCH, d, "seed_demo_test.go")
            shutil.copy(demos[0], dst)
            rc, out = sh("go test -vet=off -count=1 -race=false ./%s 2>&1 | tail -20" % d, cwd=SCRATCH)
            if rc == 0 and "FAIL" not in out and "ok" in out:
                demo_dir = d
                log.append("demo passes on the unchanged tree in %s" % d)
                break
            os.remove(dst)
        if demo_dir is None:
            print("REJECT: demo does not pass on the unchanged tree in any package directory")
            return 1
        os.remove(os.path.join(SCRATCH, demo_dir, "seed_demo_test.go"))
        # 2. the change applies, builds and passes the existing suite
        rc, out = sh("git apply %s" % patch_file, cwd=SCRATCH)
        if rc != 0:
            print("REJECT: patch does not apply:", out)
            return 1
        rc, out = sh("go build ./... && go test -vet=off -count=1 ./... 2>&1 | tail -20", cwd=SCRATCH)
        if rc != 0 or "FAIL" in out:
            print("REJECT: existing suite fails with the change:\n", out[-800:])
            return 1
        log.append("existing suite passes with the change")
        # 3. demo fails with the change
        shutil.copy(demos[0], os.path.join(SCRATCH, demo_dir, "seed_demo_test.go"))
        race = "-race" if "race" in open(os.path.join(src, "README.md")).read().lower() and prop in ("C14", "C03") else ""
        rc, out = sh("go test -vet=off -count=1 %s -run 'Seed|seed|Demo' ./%s 2>&1 | tail -30" % (race, demo_dir), cwd=SCRATCH, timeout=900)
        if "FAIL" not in out and "DATA RACE" not in out and "panic" not in out:
            # some demos are flaky by nature (schedules): try a few more times
            failed = False
            for _ in range(5):
                rc, out = sh("go test -vet=off -count=3 %s ./%s 2>&1 | tail -30" % (race, demo_dir), cwd=SCRATCH, timeout=900)
                if "FAIL" in out or "DATA RACE" in out:
                    failed = True
                    break
            if not failed:
                print("REJECT: demo does not fail with the change:\n", out[-800:])
                return 1
        log.append("demo fails with the change")
    finally:
        sh("git worktree remove --force %s" % SCRATCH, cwd=REPO)
        shutil.rmtree(SCRATCH, ignore_errors=True)
    dst = os.path.join(SEEDED, "%s_%s" % (prop, label))
    shutil.rmtree(dst, ignore_errors=True)
    os.makedirs(dst)
    shutil.copy(patch_file, os.path.join(dst, "patch.diff"))
    shutil.copy(demos[0], os.path.join(dst, "seed_demo_test.go"))
    readme = os.path.join(src, "README.md")
    desc = open(readme).read() if os.path.exists(readme) else ""
    meta = {
        "breaks_property": prop,
        "source": "independent sub-agent given only the property text and a scratch worktree",
        "demo_package_dir": demo_dir,
        "needs_to_manifest": desc[:1500],
        "verified": log,
        "verified_cmds": [
            "git worktree add --detach /tmp/seedverify HEAD; go test ./%s (demo on unchanged tree: pass)" % demo_dir,
            "git apply patch.diff; go build ./... && go test -vet=off -count=1 ./... (pass)",
            "go test -run 'Seed|seed|Demo' ./%s with the change (fail)" % demo_dir,
        ],
        "checks": [prop],
    }
    json.dump(meta, open(os.path.join(dst, "meta.json"), "w"), indent=1)
    print("ACCEPT ->", dst, "|", "; ".join(log))
    return 0


def cmd_run(filt):
    rc, out = sh("git status --short", cwd=REPO)
    if out.strip():
        print("refusing to run: /repo working tree is not clean:\n" + out)
        return 2
    results = {}
    for d in sorted(glob.glob(os.path.join(SEEDED, "*"))):
        name = os.path.basename(d)
        if filt and not any(f in name for f in filt):
            continue
        meta = json.load(open(os.path.join(d, "meta.json")))
        if meta.get("status") in ("superseded", "not_detected"):
            print("%-24s %s (see meta.json)" % (name, meta["status"]))
            continue
        try:
            rc, out = sh("git apply %s" % os.path.join(d, "patch.diff"), cwd=REPO)
            if rc != 0:
                print("%-24s patch does not apply: %s" % (name, out[:200]))
                continue
            res = {}
            for p in meta.get("checks", [meta["breaks_property"]]):
                t0 = time.time()
                tier = meta.get("tier", "quick")
                rc, out = sh("python3 verif.py run %s %s" % (p, tier), cwd=ROOT, timeout=7200)
                res[p] = {"rc": rc, "s": round(time.time() - t0, 1)}
            caught = [p for p, v in res.items() if v["rc"] == 1]
            print("%-24s %-8s %s" % (name, "CAUGHT" if caught else "MISSED", " ".join("%s:rc%d(%.0fs)" % (k, v["rc"], v["s"]) for k, v in res.items())), flush=True)
            results[name] = res
            meta["last_run"] = {"caught_by": caught, "tier": meta.get("tier", "quick"), "results": res}
            json.dump(meta, open(os.path.join(d, "meta.json"), "w"), indent=1)
        finally:
            sh("git checkout -- . && git clean -fdq", cwd=REPO)
    missed = [n for n, r in results.items() if not any(v["rc"] == 1 for v in r.values())]
    print("done: %d seeded changes, missed: %s" % (len(results), missed))
    return 0


def cmd_prun(n, filt):
    import threading
    names = []
    for d in sorted(glob.glob(os.path.join(SEEDED, "*"))):
        name = os.path.basename(d)
        if filt and not any(f in name for f in filt):
            continue
        meta = json.load(open(os.path.join(d, "meta.json")))
        if meta.get("status") in ("superseded", "not_detected"):
            print("%-24s %s (see meta.json)" % (name, meta["status"]))
            continue
        names.append(name)
    base = "/tmp/seedpar"
    shutil.rmtree(base, ignore_errors=True)
    sh("git worktree prune", cwd=REPO)
    lock = threading.Lock()
    queue = list(names)
    results = {}

    def worker(k):
        wt = os.path.join(base, str(k), "repo")
        vc = os.path.join(base, str(k), "verif")
        os.makedirs(os.path.dirname(wt), exist_ok=True)
        rc, out = sh("git worktree add -q --detach %s HEAD" % wt, cwd=REPO)
        if rc != 0:
            print("worker %d: cannot create worktree: %s" % (k, out[:200]))
            return
        sh("rsync -a --exclude .git --exclude .work --exclude replays --exclude seeded --exclude evidence %s/ %s/" % (ROOT, vc))
        gm = os.path.join(vc, "harness", "go.mod")
        gmtxt = open(gm).read().replace("=> /repo", "=> " + wt)
        open(gm, "w").write(gmtxt)
        env_ev = os.path.join(vc, ".work", "evidence-scratch")
        while True:
            with lock:
                if not queue:
                    break
                name = queue.pop(0)
            d = os.path.join(SEEDED, name)
            meta = json.load(open(os.path.join(d, "meta.json")))
            rc, out = sh("git apply %s" % os.path.join(d, "patch.diff"), cwd=wt)
            if rc != 0:
                with lock:
                    print("%-24s patch does not apply: %s" % (name, out[:200]), flush=True)
                continue
            res = {}
            try:
                for p in meta.get("checks", [meta["breaks_property"]]):
                    t0 = time.time()
                    tier = meta.get("tier", "quick")
                    env = dict(os.environ, GOFLAGS="-mod=mod", GOPROXY="off", GOSUMDB="off", GOTOOLCHAIN="local", VERIF_EVIDENCE_DIR=env_ev)
                    pr = subprocess.run("python3 verif.py run %s %s" % (p, tier), shell=True, cwd=vc, env=env, stdout=subprocess.PIPE, stderr=subprocess.STDOUT, text=True, errors="replace", timeout=7200)
                    res[p] = {"rc": pr.returncode, "s": round(time.time() - t0, 1)}
                    if pr.returncode not in (0, 1):
                        with lock:
                            print("%-24s %s exit %d: %s" % (name, p, pr.returncode, pr.stdout[-400:].replace("\n", " | ")), flush=True)
                    if pr.returncode == 1:
                        break  # reported; the remaining checks are not needed for a regression run
            finally:
                sh("git checkout -- . && git clean -fdq", cwd=wt)
            caught = [p for p, v in res.items() if v["rc"] == 1]
            with lock:
                print("%-24s %-8s %s" % (name, "CAUGHT" if caught else "MISSED", " ".join("%s:rc%d(%.0fs)" % (a, b["rc"], b["s"]) for a, b in res.items())), flush=True)
                results[name] = res
                meta["last_prun"] = {"caught_by": caught, "tier": meta.get("tier", "quick"), "results": res, "mode": "scratch copy"}
                json.dump(meta, open(os.path.join(d, "meta.json"), "w"), indent=1)
        sh("git worktree remove --force %s" % wt, cwd=REPO)

    ts = [threading.Thread(target=worker, args=(k,)) for k in range(n)]
    for t in ts:
        t.start()
    for t in ts:
        t.join()
    sh("git worktree prune", cwd=REPO)
    shutil.rmtree(base, ignore_errors=True)
    missed = [x for x, r in results.items() if not any(v["rc"] == 1 for v in r.values())]
    print("done: %d seeded changes, missed: %s" % (len(results), sorted(missed)))
    return 0


if __name__ == "__main__":
    if len(sys.argv) >= 3 and sys.argv[1] == "prun":
        sys.exit(cmd_prun(int(sys.argv[2]), sys.argv[3:]))
    if len(sys.argv) >= 5 and sys.argv[1] == "import":
        sys.exit(cmd_import(sys.argv[2], sys.argv[3], sys.argv[4]))
    if len(sys.argv) >= 2 and sys.argv[1] == "run":
        sys.exit(cmd_run(sys.argv[2:]))
    print(__doc__)
    sys.exit(2)
