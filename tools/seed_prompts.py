#!/usr/bin/env python3
"""Writes the prompts for a round of seeded changes (development aid, not a registered check).

  seed_prompts.py <round>      round in {4, 5, 6, 7, 8, 9, 10, 11}; creates /tmp/seeds/prompt_CNN.txt for every property

The sub-agents get ONLY the rendered prompt (property text from properties.jsonl) and their own scratch
worktree /tmp/seeds/CNN; nothing from /verif. Create the worktrees first:
  for i in 01 .. 20: git -C /repo worktree add -q --detach /tmp/seeds/C$i HEAD; mkdir -p /tmp/seedout/C$i
"""
import json
import os
import sys

HEAD = """You are helping to evaluate a test suite by planting realistic bugs ("seeded changes") in a Go library.

The library is cloudwego/gopkg (Thrift binary codec and skip decoders, TTHeader frame encode/decode,
zero-copy buffered IO "bufiox", a read-only string map). You have your OWN scratch git worktree of it at

    {wt}

Work ONLY inside that directory and in your output directory {out}. Do not read or write /repo or /verif
(they are off limits; everything you need is in your worktree). The machine is offline. For every shell
command first run:   export GOFLAGS=-mod=mod GOPROXY=off GOSUMDB=off GOTOOLCHAIN=local
The existing test suite is run with:   cd {wt} && go test -vet=off -count=1 ./...
(it takes a few seconds and currently passes; a rare "address already in use" failure in the ttheader
package is a transient port collision - just re-run).
NEVER use `git stash` (the stash is shared with other people's worktrees); to go back to a clean tree use
`git -C {wt} checkout -- . && git -C {wt} clean -fdq`.

WORKING STYLE (important): keep every message you write short (a few sentences). Never paste whole
source files or long diffs into your replies. Read files with tools in pieces, write files with tools.

THE PROPERTY the library is supposed to satisfy (id {id}: {title}):

  Statement: {statement}

  Quantified over: {qtext}

  Relevant source files: {files}

YOUR TASK: produce THREE different, independent changes (call them {a}, {b} and {c}) to the library source
(non-test .go files anywhere in the worktree, including packages the listed files depend on) such that
each change, on its own,
  1. still compiles,
  2. still passes the ENTIRE existing test suite (command above) unchanged - do not edit existing tests,
  3. BREAKS the property above for some inputs / histories / schedules, and
  4. is VERY HARD TO FIND. {testers}
{kinds}
     Do NOT produce changes that ordinary use would expose at once. Keep them realistic: things a
     maintainer could plausibly write and a reviewer could miss. Do not rely on hash collisions or on
     probabilities below one in a million per operation.
For each change also write a DEMONSTRATION: a new Go test file that FAILS with the change applied and
PASSES on the unchanged worktree (for schedule-dependent bugs it may use `go test -race` and loops; if so
include the word "race" in the README).

Procedure for each change L (a letter) in {{{a}, {b}, {c}}}:
  - start from a clean worktree (git -C {wt} checkout -- . && git -C {wt} clean -fdq),
  - make the change, write the demo test into the worktree as a new file named seed_demo_test.go in the
    appropriate package directory,
  - verify: existing suite passes WITH the change (with your demo file absent, or confirm your demo is the
    only failing test), demo FAILS with the change, demo PASSES after reverting the change,
  - save into {out}/L/ (i.e. {out}/{a}/, {out}/{b}/, {out}/{c}/) :
        patch.diff   = `git -C {wt} diff` of ONLY the library change (not the demo), applicable with
                       `git apply` at the repo root,
        seed_demo_test.go = the demo,
        README.md    = 5-15 lines: what the change is, why it breaks the property, what exactly is needed
                       to make it manifest, which package directory the demo belongs in, the exact
                       commands you ran and their outcome.
  - finally restore the worktree to clean state.
Keep patches small. Do not add build tags. Do not change exported API signatures.
When done, reply with a SHORT summary of {a}, {b} and {c} (files touched, trigger condition), at most 25 lines.
"""

ROUNDS = {
    4: dict(a="S", b="T", c="U",
            testers="""Assume the testers are excellent: large randomized and bounded-exhaustive
     tests against independent reference models, boundary values from 0 to several MiB, object reuse,
     pooled objects, retained results checked later, fault injection (short reads, transient errors,
     failing sinks), and the race detector. Your bug must survive all of that. Think about what is
     STILL not covered and put the bug there.""",
            kinds="""     S must live in an ERROR or CLEANUP path: what the code does during or after a failure, a rejected
       input, a partial operation, or when a resource is given back - something that only shows in the
       NEXT successful operation or in another object.
     T must be an OPTIMISATION that is almost right: a cache, a fast path, a batch, a reuse of memory,
       a skipped initialisation - wrong only for a rare but legal shape of input or history.
     U is free but must have a different root cause than S and T, preferably in a different file or
       package (the property may depend on helper packages: bufiox, unsafex, internal/*)."""),
    5: dict(a="V", b="W", c="K",
            testers="""Assume the testers are excellent and have already survived four rounds of
     planted bugs: large randomized and bounded-exhaustive tests against independent reference models;
     boundary values from 0 to 64 MiB and declared sizes up to 2^32; long histories (hundreds of
     reloads / reuses of one object); object reuse after failures, pooled objects, results retained and
     re-checked much later (also after the creating object was dropped and the GC ran); a co-tenant that
     shares the buffer pools; fault injection (short, empty and transient reads, sinks failing with any
     error type, data delivered together with errors); inputs placed on the heap, in guard-page arenas
     and on goroutine stacks; first use in fresh processes; uncomparable / unusual dynamic types; and the
     race detector. Your bug must survive all of that. Think hard about what is STILL not covered.""",
            kinds="""     V must be an INTERACTION bug: two features, two objects or two code paths that are each correct on
       their own and only misbehave in combination (for example two API entry points used alternately on
       one object, a configuration switch combined with a particular call, two instances of different
       types sharing a helper, a value produced by one function fed to another).
     W must be a wrong piece of ARITHMETIC or LAYOUT reasoning that is NOT simply "very large input":
       a residue, an alignment, a width, a sign, an off-by-one that needs a particular combination of two
       or more sizes or counts (each individually ordinary) to show.
     K is free: the change YOU would bet on as the least likely to be found, with a root cause different
       from V and W, preferably in a different file or package (bufiox, unsafex, internal/*, container/*)."""),
    6: dict(a="L", b="M", c="N",
            testers="""Assume the testers are excellent and have already survived five rounds of
     planted bugs: large randomized and bounded-exhaustive tests against independent reference models;
     boundary values from 0 to 64 MiB and declared sizes up to 2^32; histories of hundreds of
     operations, reloads and reuses of one object; two live objects interleaved; object reuse after
     failures, pooled objects, results retained and re-checked much later (also after the creating object
     was dropped and the GC ran); a co-tenant that shares the buffer pools; fault injection (short reads,
     up to 99 consecutive empty reads, transient errors, sinks failing with any error type, data delivered
     together with errors, live sources such as a bytes.Buffer still being written); inputs placed on the
     heap, in guard-page arenas and on goroutine stacks; first use in fresh processes; value and error
     types of unusual shape (uncomparable, embedding library types, containing pointers, odd sizes);
     re-entrant callbacks; and the race detector. Your bug must survive all of that. Think hard about
     what is STILL not covered.""",
            kinds="""     L must sit in the LEAST USED part of the API surface that the property still speaks about: an exported
       function, method, option or constructor variant that ordinary callers and typical tests rarely
       touch (look through ALL exported identifiers of the relevant packages and pick one that the
       obvious tests would skip), or a rarely taken branch selected by an unusual but legal argument.
     M must be a TIME BOMB: correct for the first uses and wrong only after an accumulation - a counter,
       statistic, cache, pool or adaptive size that needs at least a thousand operations (or a specific
       long history) on one object or in one process before the behaviour changes.
     N is free: the change YOU would bet on as the least likely to be found, with a root cause different
       from L and M, preferably in a different file or package (bufiox, unsafex, internal/*, container/*)."""),
    7: dict(a="F", b="G", c="H",
            testers="""Assume the testers are excellent and have already survived six rounds of
     planted bugs (randomized and bounded-exhaustive tests against independent reference models; sizes
     from 0 to 64 MiB and declared sizes up to 2^32; histories of hundreds of operations on one object,
     two live objects interleaved; reuse after failures, pooled objects, results retained and re-checked
     much later; a co-tenant of the buffer pools; fault injection of every kind on sources and sinks;
     inputs on the heap, in guard-page arenas and on goroutine stacks; fresh processes; unusual value and
     error types; re-entrant callbacks; long runs of many thousand operations per process; the race
     detector). What has repeatedly slipped through in the past is a CLAUSE of the statement that the
     testers read more narrowly than it is written (only the first Flush, only the first load, only one
     of the entry points a clause applies to, only the success path of a call that can also fail, only
     one of two equivalent ways to obtain an argument). Your bug must survive all of the above.""",
            kinds="""     First split the statement into its clauses (each sentence and each part joined by "and", ";", ",")
     and, for each clause, list the exported entry points it applies to (`go doc -all <pkg>`).
     F must break exactly ONE clause, the one you judge most likely to be tested narrowly, and only through
       the entry point, the repetition (2nd, 3rd, n-th use) or the argument provenance (an argument that is
       an earlier RESULT of the same object or of its sibling) that a tester would most likely skip.
     G must break a clause only in the state an object is in AFTER a call that failed or was rejected
       (a different failure than the ones you think are commonly injected: look for the rarest error
       return in the relevant code), leaving first-time behaviour and the failing call itself correct.
     H is free: the change YOU would bet on as the least likely to be found, with a root cause different
       from F and G, preferably in a different file or package (bufiox, unsafex, internal/*, container/*).
     Name the clause each change breaks in its README."""),
    8: dict(a="C", b="D", c="E",
            testers="""Assume the testers are excellent and have already survived seven rounds of
     planted bugs (randomized and bounded-exhaustive tests against independent reference models; sizes
     from 0 to 64 MiB and declared sizes up to 2^32; histories of hundreds of operations on one object,
     two live objects interleaved; reuse after failures, pooled objects, results retained and re-checked
     much later; a co-tenant of the buffer pools; fault injection of every kind on sources and sinks;
     inputs on the heap, in guard-page arenas and on goroutine stacks; fresh processes; unusual value and
     error types; re-entrant callbacks; long runs of many thousand operations per process; the race
     detector). What has repeatedly slipped through in the past is a CLAUSE of the statement that the
     testers read more narrowly than it is written (only the first Flush, only the first load, only one
     of the entry points a clause applies to, only the success path of a call that can also fail, only
     one of two equivalent ways to obtain an argument). In the last round the testers closed these gaps:
     Release/Flush/Close called with unusual arguments, strings handed out by earlier loads fed back in,
     sources that go silent, messages following a rejected message, the same name or value arriving twice
     in a row on one reader, errors with unusual method sets, readers whose error changes between calls,
     wrapped objects whose Read/Write fail partially. Look for what is STILL read narrowly. Your bug must
     survive all of the above.""",
            kinds="""     First split the statement into its clauses (each sentence and each part joined by "and", ";", ",")
     and, for each clause, list the exported entry points it applies to (`go doc -all <pkg>`).
     C must break exactly ONE clause, the one you judge most likely to be tested narrowly, and only through
       the entry point, the repetition (2nd, 3rd, n-th use) or the argument provenance (an argument that is
       an earlier RESULT of the same object or of its sibling) that a tester would most likely skip.
     D must break a clause only in the state an object is in AFTER a call that failed or was rejected
       (a different failure than the ones you think are commonly injected: look for the rarest error
       return in the relevant code), leaving first-time behaviour and the failing call itself correct.
     E is free: the change YOU would bet on as the least likely to be found, with a root cause different
       from C and D, preferably in a different file or package (bufiox, unsafex, internal/*, container/*).
     Name the clause each change breaks in its README."""),
    9: dict(a="I", b="J", c="O",
            testers="""Assume the testers are excellent and have already survived eight rounds of
     planted bugs (randomized and bounded-exhaustive tests against independent reference models; sizes
     from 0 to 64 MiB and declared sizes up to 2^32; histories of hundreds of operations on one object,
     two live objects interleaved; reuse after failures, pooled objects, results retained and re-checked
     much later; a co-tenant of the buffer pools; fault injection of every kind on sources and sinks;
     inputs on the heap, in guard-page arenas and on goroutine stacks; fresh processes; unusual value and
     error types; re-entrant callbacks; long runs of many thousand operations per process; the race
     detector). What has repeatedly slipped through in the past is a CLAUSE of the statement that the
     testers read more narrowly than it is written (only the first Flush, only the first load, only one
     of the entry points a clause applies to, only the success path of a call that can also fail, only
     one of two equivalent ways to obtain an argument). In the last round the testers closed these gaps:
     Release/Flush/Close called with unusual arguments, strings handed out by earlier loads fed back in,
     sources that go silent, messages following a rejected message, the same name or value arriving twice
     in a row on one reader, errors with unusual method sets, readers whose error changes between calls,
     wrapped objects whose Read/Write fail partially; and in the round before this one: calls that do
     nothing (empty writes) after a failure, dozens of buffer growths between two flushes, loads that
     repeat a key, probes cut out of returned strings, a different message right after rejected ones,
     headers both truncated and malformed through every reading entry point, exceptions printed before
     they are compared, holder structs of unusual shape, errors with their own formatting, wrapped
     objects with other length-like methods, results written through. Memory of the caller that ends
     up in the shared buffer pool, and slices kept across calls by the generic skipper, are found at
     once - do not use those. Look for what is STILL read narrowly. Your bug must
     survive all of the above.""",
            kinds="""     First split the statement into its clauses (each sentence and each part joined by "and", ";", ",")
     and, for each clause, list the exported entry points it applies to (`go doc -all <pkg>`).
     I must break exactly ONE clause, the one you judge most likely to be tested narrowly, and only through
       the entry point, the repetition (2nd, 3rd, n-th use) or the argument provenance (an argument that is
       an earlier RESULT of the same object or of its sibling) that a tester would most likely skip.
     J must break a clause only in the state an object is in AFTER a call that failed or was rejected
       (a different failure than the ones you think are commonly injected: look for the rarest error
       return in the relevant code), leaving first-time behaviour and the failing call itself correct.
     O is free: the change YOU would bet on as the least likely to be found, with a root cause different
       from I and J, preferably in a different file or package (bufiox, unsafex, internal/*, container/*).
     Name the clause each change breaks in its README."""),
    10: dict(a="A2", b="B2", c="C2",
            testers="""Assume the testers are excellent and have already survived nine rounds of
     planted bugs (randomized and bounded-exhaustive tests against independent reference models; sizes
     from 0 to 64 MiB and declared sizes up to 2^32; histories of hundreds of operations on one object,
     two live objects interleaved; reuse after failures, pooled objects, results retained and re-checked
     much later; a co-tenant of the buffer pools; fault injection of every kind on sources and sinks;
     inputs on the heap, in guard-page arenas and on goroutine stacks; fresh processes; unusual value and
     error types; re-entrant callbacks; long runs of many thousand operations per process; the race
     detector). What has repeatedly slipped through in the past is a CLAUSE of the statement that the
     testers read more narrowly than it is written (only the first Flush, only the first load, only one
     of the entry points a clause applies to, only the success path of a call that can also fail, only
     one of two equivalent ways to obtain an argument). In the last round the testers closed these gaps:
     Release/Flush/Close called with unusual arguments, strings handed out by earlier loads fed back in,
     sources that go silent, messages following a rejected message, the same name or value arriving twice
     in a row on one reader, errors with unusual method sets, readers whose error changes between calls,
     wrapped objects whose Read/Write fail partially; and in the round before this one: calls that do
     nothing (empty writes) after a failure, dozens of buffer growths between two flushes, loads that
     repeat a key, probes cut out of returned strings, a different message right after rejected ones,
     headers both truncated and malformed through every reading entry point, exceptions printed before
     they are compared, holder structs of unusual shape, errors with their own formatting, wrapped
     objects with other length-like methods, results written through. Memory of the caller that ends
     up in the shared buffer pool, and slices kept across calls by the generic skipper, are found at
     once - do not use those. In the last round these were closed as well: writers that keep payloads
     by reference until Flush, readers that ignore negative counts, histories that only peek, a decoder
     released right after a rejected call, the absent/empty/filled states of optional maps across two
     reads into one receiver, Release after a source went silent, error texts read again after the
     reader was released, exact consumed length behind a 128 MiB string, counters after a failed Flush,
     results compared across the allocator switch on failing inputs too, appending to decoded trees,
     callbacks handed values the library could process itself, a panic inside the caller's Error().
     Look for what is STILL read narrowly. Your bug must
     survive all of the above.""",
            kinds="""     First split the statement into its clauses (each sentence and each part joined by "and", ";", ",")
     and, for each clause, list the exported entry points it applies to (`go doc -all <pkg>`).
     A2 must break exactly ONE clause, the one you judge most likely to be tested narrowly, and only through
       the entry point, the repetition (2nd, 3rd, n-th use) or the argument provenance (an argument that is
       an earlier RESULT of the same object or of its sibling) that a tester would most likely skip.
     B2 must break a clause only in the state an object is in AFTER a call that failed or was rejected
       (a different failure than the ones you think are commonly injected: look for the rarest error
       return in the relevant code), leaving first-time behaviour and the failing call itself correct.
     C2 is free: the change YOU would bet on as the least likely to be found, with a root cause different
       from A2 and B2, preferably in a different file or package (bufiox, unsafex, internal/*, container/*).
     Name the clause each change breaks in its README."""),
    11: dict(a="D2", b="E2", c=None,
            testers="""Assume the testers are excellent and have already survived ten rounds of
     planted bugs (randomized and bounded-exhaustive tests against independent reference models; sizes
     from 0 to 64 MiB and declared sizes up to 2^32; histories of hundreds of operations on one object,
     two live objects interleaved; reuse after failures and after every kind of rejected call, pooled
     objects, results retained and re-checked much later; a co-tenant of the buffer pools; fault
     injection of every kind on sources and sinks; inputs on the heap, in guard-page arenas and on
     goroutine stacks; fresh processes; unusual value and error types; re-entrant callbacks; long runs of
     many thousand operations per process; every exported entry point a clause applies to, also for the
     2nd and n-th use of an object and with earlier results fed back in; the race detector). Your bug
     must survive all of the above. Think hard about what is STILL not covered.""",
            kinds="""     D2 must consist of TWO COOPERATING SITES: two small edits in different functions (preferably different
       files or packages) that each look fine - and ARE harmless - on their own (applying either edit
       alone does not break the property), but together break it for a particular multi-step sequence of
       operations, a particular interleaving, or a fault at a particular point. State in the README why
       each edit alone is harmless.
     E2 is free: the change YOU would bet on as the least likely to be found, with a root cause different
       from D2, preferably in a different file or package (bufiox, unsafex, internal/*, container/*), and
       needing an unusual but legal input or a specific sequence of at least three operations to manifest.
     Name the clause of the statement each change breaks in its README."""),
}


def main():
    rnd = int(sys.argv[1]) if len(sys.argv) > 1 else 5
    r = ROUNDS[rnd]
    root = os.path.dirname(os.path.dirname(os.path.abspath(__file__)))
    props = [json.loads(l) for l in open(os.path.join(root, "properties.jsonl"))]
    os.makedirs("/tmp/seeds", exist_ok=True)
    for p in props:
        pid = p["id"]
        head = HEAD
        if r.get("c") is None:
            head = (HEAD.replace("produce THREE different, independent changes (call them {a}, {b} and {c})",
                                 "produce TWO different, independent changes (call them {a} and {b})")
                        .replace("in {{{a}, {b}, {c}}}", "in {{{a}, {b}}}")
                        .replace("(i.e. {out}/{a}/, {out}/{b}/, {out}/{c}/)", "(i.e. {out}/{a}/, {out}/{b}/)")
                        .replace("SHORT summary of {a}, {b} and {c}", "SHORT summary of {a} and {b}"))
        txt = head.format(wt="/tmp/seeds/" + pid, out="/tmp/seedout/" + pid, id=pid, title=p["title"], statement=p["statement"],
                          qtext=p["quantifier"]["text"], files=", ".join(p["anchors"]["files"]), **r)
        open("/tmp/seeds/prompt_%s.txt" % pid, "w").write(txt)
    print("wrote %d prompts for round %d (labels %s/%s/%s)" % (len(props), rnd, r["a"], r["b"], r["c"]))


if __name__ == "__main__":
    main()
