#!/usr/bin/env python3
"""Sensitivity harness (development aid, not a registered check).

Applies hand-written single-site mutants to /repo's working tree one at a time, verifies that the mutant
still builds and passes the repository's own test suite, runs the quick tier of the properties that are
expected to catch it, and restores the tree (git checkout). Results go to stdout and
/verif/.work/mutants.json.  usage: mutants.py [name-substring ...]
"""
import json
import os
import subprocess
import sys
import time

REPO = "/repo"
ROOT = os.path.dirname(os.path.dirname(os.path.abspath(__file__)))

T = "protocol/thrift/"
# (name, file, old, new, [properties expected to catch it])
MUTANTS = [
    # ---- C01
    ("c01_appendi64_swap", T + "binary.go", "byte(v>>24), byte(v>>16), byte(v>>8), byte(v))\n}\n\n// Length", "byte(v>>24), byte(v>>8), byte(v>>16), byte(v))\n}\n\n// Length", ["C01"]),
    ("c01_readi16_nosign", T + "binary.go", "return int16(binary.BigEndian.Uint16(buf)), 2, nil", "return int16(binary.BigEndian.Uint16(buf) & 0x7fff), 2, nil", ["C01"]),
    ("c01_bufwriter_listsize_int16", T + "bufferwriter.go", "buf[0] = byte(et)\n\tbinary.BigEndian.PutUint32(buf[1:], uint32(size))\n\treturn nil\n}\n\nfunc (w *BufferWriter) WriteSetBegin", "buf[0] = byte(et)\n\tbinary.BigEndian.PutUint32(buf[1:], uint32(int32(int16(size))))\n\treturn nil\n}\n\nfunc (w *BufferWriter) WriteSetBegin", ["C01"]),
    ("c01_appendfield_idhi", T + "binary.go", "return append(buf, byte(typeID), byte(uint16(id>>8)), byte(id))", "return append(buf, byte(typeID), byte(id>>8&0x7f), byte(id))", ["C01"]),
    ("c01_bufwriter_field_id", T + "bufferwriter.go", "buf[0], buf[1], buf[2] = byte(typeID), byte(uint16(id>>8)), byte(id)", "buf[0], buf[1], buf[2] = byte(typeID), byte(uint16(id)>>9), byte(id)", ["C01"]),
    ("c01_readbool_nonzero", T + "bufferreader.go", "v = b[0] == 1\n", "v = b[0] != 0 && len(b) > 0 && b[0] < 2\n", []),  # equivalent on canonical input: must NOT be caught
    ("c01_streamreader_double", T + "bufferreader.go", "v = math.Float64frombits(binary.BigEndian.Uint64(b))", "v = math.Float64frombits(binary.BigEndian.Uint64(b)); if v != v { v = math.NaN() }", ["C01"]),
    # ---- C02 / C08
    ("c08_fastpath_ksz_only", T + "binary.go", "mapkvsize := (int(sz) * (ksz + vsz))", "mapkvsize := (int(sz) * (ksz + vsz)); if kt == BOOL && vt == DOUBLE { mapkvsize = int(sz) * ksz }", ["C02", "C08"]),
    ("c08_tpl_list_loop_le", T + "skipdecoder_tpl.go", "for i := int32(0); i < sz; i++ {\n\t\t\tif err := p.Skip(vt, maxdepth-1); err != nil {", "for i := int32(0); i < sz || (i == sz && sz == 7); i++ {\n\t\t\tif err := p.Skip(vt, maxdepth-1); err != nil {", ["C02", "C08"]),
    ("c08_recursion_6400", T + "thrift.go", "const defaultRecursionDepth = 64", "const defaultRecursionDepth = 6400", ["C08"]),
    ("c08_bufreader_neg_removed", T + "bufferreader.go", "if int32(sz) < 0 { // sz is converted from uint32, check the sign of the wire value\n\t\t\treturn errNegativeSize\n\t\t}\n\t\tif vsz", "if false {\n\t\t\treturn errNegativeSize\n\t\t}\n\t\tif vsz", ["C08"]),
    ("c08_skipstr_neg_removed", T + "binary.go", "if n < 0 {\n\t\t\treturn 0, errNegativeSize\n\t\t}\n\t\tif uintptr(p)+uintptr(4+n) <= e {", "if n < 0 {\n\t\t\tn = 0\n\t\t}\n\t\tif uintptr(p)+uintptr(4+n) <= e {", ["C08", "C17"]),
    ("c02_struct_id_skip", T + "skipdecoder_tpl.go", "if _, err := p.r.SkipN(2); err != nil { // Field ID", "if _, err := p.r.SkipN(2 + int(uint8(tp))>>7); err != nil { // Field ID", ["C08", "C03"]),
    ("c02_readerdec_overread", T + "skipdecoder.go", "buf = p.b[p.n : p.n+n]\n", "buf = p.b[p.n : p.n+n]\n\tif n == 4097 { buf = p.b[p.n : p.n+n+1] }\n", ["C02"]),
    # ---- C03
    ("c03_fieldbegin_lt2", T + "binary.go", "if len(buf) < 3 {\n\t\treturn 0, 0, 0, errReadField", "if len(buf) < 2 {\n\t\treturn 0, 0, 0, errReadField", ["C03"]),
    ("c03_skip_guard_removed", T + "binary.go", "if uintptr(p)+uintptr(6) > e {\n\t\t\treturn 0, errBufferTooShort\n\t\t}\n\t\tkt, vt, sz", "if uintptr(p)+uintptr(2) > e {\n\t\t\treturn 0, errBufferTooShort\n\t\t}\n\t\tkt, vt, sz", ["C03", "C08"]),
    ("c03_tth_readstring_le", "protocol/ttheader/utils.go", "if len(bytes)-off < strLen {", "if len(bytes)-off+1 < strLen {", ["C03", "C10"]),
    # ---- C04 / C09
    ("c04_grow_copy_from_0", "bufiox/defaultbuf.go", "cn := copy(nbuf[r.ri:], r.buf[r.ri:])", "cn := copy(nbuf[r.ri:], r.buf[r.ri:]); if r.ri == 3 { cn = copy(nbuf[r.ri:], r.buf[r.ri+1:]) + 1 }", ["C04"]),
    ("c09_pending_freed_at_growth", "bufiox/defaultbuf.go", "if !r.bufReadOnly {\n\t\t\tr.pendingBuf = append(r.pendingBuf, r.buf)\n\t\t}", "if !r.bufReadOnly {\n\t\t\tmcache.Free(r.buf)\n\t\t}", ["C09"]),
    ("c09_readonly_not_honoured", "bufiox/defaultbuf.go", "if !r.bufReadOnly && cap(r.buf) > 0 {\n\t\t\tmcache.Free(r.buf)", "if cap(r.buf) > 0 {\n\t\t\tmcache.Free(r.buf)", ["C09"]),
    ("c04_peek_advances_big", "bufiox/defaultbuf.go", "\tbuf = r.buf[r.ri : r.ri+n]\n\treturn\n}\n\nfunc (r *DefaultReader) Skip", "\tbuf = r.buf[r.ri : r.ri+n]\n\tif n == 8193 { r.ri += n }\n\treturn\n}\n\nfunc (r *DefaultReader) Skip", ["C04"]),
    ("c04_release_compaction_off", "bufiox/defaultbuf.go", "n := copy(r.buf, r.buf[r.ri:])\n\t\t\tr.buf = r.buf[:n]", "n := copy(r.buf, r.buf[r.ri:])\n\t\t\tif n > 4096 { n-- }\n\t\t\tr.buf = r.buf[:n]", ["C04"]),
    ("c04_err_lost_after_release", "bufiox/defaultbuf.go", "\tr.ri = 0\n\treturn nil\n}", "\tr.ri = 0\n\tif r.err == io.ErrUnexpectedEOF { r.err = io.EOF }\n\treturn nil\n}", ["C04"]),
    # ---- C05 / C09
    ("c05_flush_reverse_pending", "bufiox/defaultbuf.go", "for _, oldBuf := range w.pendingBuf {\n\t\toffset += copy(w.buf[offset:], oldBuf[offset:])\n\t}", "for i := range w.pendingBuf {\n\t\toldBuf := w.pendingBuf[i]\n\t\tif len(w.pendingBuf) >= 3 { oldBuf = w.pendingBuf[len(w.pendingBuf)-1-i] }\n\t\toffset += copy(w.buf[offset:], oldBuf[offset:])\n\t}", ["C05"]),
    ("c05_offset_not_accumulated", "bufiox/defaultbuf.go", "offset += copy(w.buf[offset:], oldBuf[offset:])", "offset = copy(w.buf[offset:], oldBuf[offset:])", ["C05"]),
    ("c09_free_before_write", "bufiox/defaultbuf.go", "if _, err = w.wd.Write(w.buf); err != nil {", "if !w.disableCache && len(w.pendingBuf) > 1 { mcache.Free(w.pendingBuf[0]) }\n\tif _, err = w.wd.Write(w.buf); err != nil {", ["C09", "C05"]),
    ("c05_err_not_stored", "bufiox/defaultbuf.go", "if _, err = w.wd.Write(w.buf); err != nil {\n\t\tw.err = err\n\t\treturn err", "if _, err = w.wd.Write(w.buf); err != nil {\n\t\treturn err", ["C05"]),
    ("c05_writebinary_zero_len_growth", "bufiox/defaultbuf.go", "for ncap = cap(w.buf) * 2; ncap-len(w.buf) < n; ncap *= 2 {\n\t\t}", "for ncap = cap(w.buf) * 2; ncap-len(w.buf) < n-1; ncap *= 2 {\n\t\t}", ["C05"]),
    # ---- C06 / C10
    ("c06_padding_formula", "protocol/ttheader/encode.go", "padding := (4 - writeSize%4) % 4", "padding := (4 - writeSize%4)", ["C06"]),
    ("c06_acl_as_normal_key", "protocol/ttheader/encode.go", "if key == GDPRToken {\n\t\t\t\tcontinue\n\t\t\t}", "if key == GDPRToken && len(val) != 3 {\n\t\t\t\tcontinue\n\t\t\t}", ["C06"]),
    ("c10_protocol_accepts_all", "protocol/ttheader/decode.go", "default:\n\t\treturn fmt.Errorf(\"unsupported ProtocolID[%d]\", protoID)", "default:\n\t\tif protoID != 0x02 { return fmt.Errorf(\"unsupported ProtocolID[%d]\", protoID) }", ["C10"]),
    ("c10_transform_check_dropped", "protocol/ttheader/decode.go", "if int(headerInfoSize)-hdIdx < transformIDNum {", "if int(headerInfoSize)-hdIdx+1 < transformIDNum {", ["C10", "C03"]),
    ("c06_seq_truncated", "protocol/ttheader/decode.go", "param.SeqID = int32(seqID)", "param.SeqID = int32(seqID); if seqID == 0x7ffffffe { param.SeqID = 0 }", ["C06"]),
    ("c10_intkv_zero_count_stops", "protocol/ttheader/decode.go", "if kvSize <= 0 {\n\t\treturn false, nil\n\t}\n\tfor i := uint16(0); i < kvSize; i++ {\n\t\tkey, err := Bytes2Uint16", "if kvSize <= 0 {\n\t\t*idx += 1\n\t\treturn false, nil\n\t}\n\tfor i := uint16(0); i < kvSize; i++ {\n\t\tkey, err := Bytes2Uint16", ["C10"]),
    # ---- C07
    ("c07_get_scan_i_plus_2", "container/strmap/strmap.go", "for j := i + 1; j < int32(len(m.items)); j++ {", "for j := i + 2; j < int32(len(m.items)); j++ {", ["C07"]),
    ("c07_slot_compare_dropped", "container/strmap/strmap.go", "if e.slot != slot {\n\t\t\tbreak\n\t\t}", "if e.slot != slot && j > i+3 {\n\t\t\tbreak\n\t\t}", []),  # only a performance change: scanning further cannot change results
    ("c07_hashtable_not_reinit", "container/strmap/strmap.go", "for i := 0; i < len(m.hashtable); i++ {\n\t\tm.hashtable[i] = -1\n\t}", "for i := 0; i < len(m.hashtable) && len(m.items) > 0; i++ {\n\t\tm.hashtable[i] = -1\n\t}", ["C07"]),
    ("c07_prime_17_to_16", "container/strmap/utils.go", "3:  17,         // 8", "3:  16,         // 8", []),  # still a valid table size: only distribution changes
    ("c07_strstore_len_cached", "internal/strstore/strstore.go", "if cap(s.buf) < totalLen {\n\t\ts.buf = make([]byte, totalLen)\n\t} else {\n\t\ts.buf = s.buf[:totalLen]\n\t}", "if cap(s.buf) < totalLen {\n\t\ts.buf = make([]byte, totalLen)\n\t} else if totalLen > 0 {\n\t\ts.buf = s.buf[:totalLen]\n\t}", ["C07"]),
    # ---- C11 / C15
    ("c11_case_60b", T + "base/k-base.go", "case 0x60d: // p.Extra ID:6 thrift.MAP", "case 0x60b: // p.Extra ID:6 thrift.MAP", ["C11"]),
    ("c11_empty_extra_stays_nil", T + "base/k-base.go", "p.Extra = make(map[string]string, sz)\n\t\t\tfor i := 0; i < sz; i++ {\n\t\t\t\tvar k string\n\t\t\t\tvar v string\n\t\t\t\tk, l, err = x.ReadString(b[off:])\n\t\t\t\toff += l\n\t\t\t\tif err != nil {\n\t\t\t\t\tgoto ReadFieldError\n\t\t\t\t}\n\t\t\t\tv, l, err = x.ReadString(b[off:])\n\t\t\t\toff += l\n\t\t\t\tif err != nil {\n\t\t\t\t\tgoto ReadFieldError\n\t\t\t\t}\n\t\t\t\tp.Extra[k] = v\n\t\t\t}\n\t\tdefault:\n\t\t\tl, err = x.Skip(b[off:], ftyp)\n\t\t\toff += l\n\t\t\tif err != nil {\n\t\t\t\tgoto SkipFieldError\n\t\t\t}\n\t\t}\n\t}\n\treturn\nReadFieldBeginError:\n\treturn off, thrift.PrependError(fmt.Sprintf(\"%T read field begin error: \", p), err)\nReadFieldError:\n\treturn off, thrift.PrependError(fmt.Sprintf(\"%T read field %d '%s' error: \", p, fid, fieldIDToName_BaseResp[fid]), err)", "if sz > 0 {\n\t\t\t\tp.Extra = make(map[string]string, sz)\n\t\t\t}\n\t\t\tfor i := 0; i < sz; i++ {\n\t\t\t\tvar k string\n\t\t\t\tvar v string\n\t\t\t\tk, l, err = x.ReadString(b[off:])\n\t\t\t\toff += l\n\t\t\t\tif err != nil {\n\t\t\t\t\tgoto ReadFieldError\n\t\t\t\t}\n\t\t\t\tv, l, err = x.ReadString(b[off:])\n\t\t\t\toff += l\n\t\t\t\tif err != nil {\n\t\t\t\t\tgoto ReadFieldError\n\t\t\t\t}\n\t\t\t\tp.Extra[k] = v\n\t\t\t}\n\t\tdefault:\n\t\t\tl, err = x.Skip(b[off:], ftyp)\n\t\t\toff += l\n\t\t\tif err != nil {\n\t\t\t\tgoto SkipFieldError\n\t\t\t}\n\t\t}\n\t}\n\treturn\nReadFieldBeginError:\n\treturn off, thrift.PrependError(fmt.Sprintf(\"%T read field begin error: \", p), err)\nReadFieldError:\n\treturn off, thrift.PrependError(fmt.Sprintf(\"%T read field %d '%s' error: \", p, fid, fieldIDToName_BaseResp[fid]), err)", ["C11"]),
    ("c15_threshold_on_cap", T + "binary.go", "if w == nil || len(v) < nocopyWriteThreshold {\n\t\treturn p.WriteBinary(buf, v)", "if w == nil || cap(v) < nocopyWriteThreshold {\n\t\treturn p.WriteBinary(buf, v)", []),  # whether a value goes direct is not part of the property
    ("c15_remaincap_from_len", T + "binary.go", "_ = w.WriteDirect(unsafex.StringToBinary(v), len(buf[4:])) // always err == nil ?", "_ = w.WriteDirect(unsafex.StringToBinary(v), len(buf[4:])+len(v)%2) // always err == nil ?", ["C15"]),
    ("c15_nocopy_len_prefix", T + "binary.go", "binary.BigEndian.PutUint32(buf, uint32(len(v)))\n\t_ = w.WriteDirect(v, len(buf[4:])) // always err == nil ?", "binary.BigEndian.PutUint32(buf, uint32(len(v)&0xffffdfff))\n\t_ = w.WriteDirect(v, len(buf[4:])) // always err == nil ?", ["C15"]),
    # ---- C12 / C17 / C18
    ("c12_version_mask", T + "thrift.go", "msgVersionMask = 0xffff0000", "msgVersionMask = 0xff7f0000", ["C12", "C17"]),
    ("c12_exception_fallthrough", T + "fastcodec.go", "if msgType == EXCEPTION {", "if msgType == EXCEPTION && seq != 0x7fffffff {", ["C12"]),
    ("c17_negsize_invalid_data", T + "exception.go", "errNegativeSize   = NewProtocolException(NEGATIVE_SIZE, \"negative size\")", "errNegativeSize   = NewProtocolException(INVALID_DATA, \"negative size\")", ["C17"]),
    ("c17_depth_invalid", T + "binary.go", "var errDepthLimitExceeded = NewProtocolException(DEPTH_LIMIT, \"depth limit exceeded\")", "var errDepthLimitExceeded = NewProtocolException(SIZE_LIMIT, \"depth limit exceeded\")", ["C17"]),
    ("c17_stream_err_not_wrapped", T + "bufferreader.go", "if err = r.r.Skip(n); err != nil {\n\t\treturn NewProtocolExceptionWithErr(err)", "if err = r.r.Skip(n); err != nil {\n\t\treturn NewProtocolException(INVALID_DATA, err.Error())", ["C17"]),
    ("c18_prepend_switch_order", T + "exception.go", "if t, ok := err.(*TransportException); ok {\n\t\treturn NewTransportException(t.TypeID(), prepend+t.Error())\n\t}", "if t, ok := err.(*TransportException); ok && t.TypeID() != 9 {\n\t\treturn NewTransportException(t.TypeID(), prepend+t.Error())\n\t}", ["C18"]),
    ("c18_is_only_typeid", T + "exception.go", "if ok && t.TypeId() == e.t && t.Error() == e.m {", "if ok && t.TypeId() == e.t && (t.Error() == e.m || e.t == 3) {", ["C18"]),
    ("c18_unwrap_nil", T + "exception.go", "func (e *ProtocolException) Unwrap() error { return e.err }", "func (e *ProtocolException) Unwrap() error { if e.t != 0 { return e.err }; return nil }", ["C18"]),
    # ---- C13
    ("c13_set_begin_keytype", T + "unknownfields/unknownfields.go", "offset += thrift.Binary.WriteSetBegin(buf, f.ValType, len(vs))", "offset += thrift.Binary.WriteSetBegin(buf, f.ValType|f.KeyType, len(vs))", []),  # normal-form trees have KeyType 0: equivalent
    ("c13_map_flatten", T + "unknownfields/unknownfields.go", "l, err2 = readUnknownField(&flatMap[2*i+1], buf[length:], f.ValType, int16(i))", "l, err2 = readUnknownField(&flatMap[2*i+1-i/3*0], buf[length:], f.ValType, int16(i)); if size == 3 && i == 2 { flatMap[1], flatMap[5] = flatMap[5], flatMap[1] }", ["C13"]),
    ("c13_length_omits_stop", T + "unknownfields/unknownfields.go", "length += l\n\t\tif err != nil {\n\t\t\treturn length, err\n\t\t}\n\t\tlength += thrift.Binary.FieldStopLength()", "length += l\n\t\tif err != nil {\n\t\t\treturn length, err\n\t\t}\n\t\tif len(fs) != 3 { length += thrift.Binary.FieldStopLength() }", ["C13"]),
    # ---- C14
    ("c14_shared_scratch", "protocol/ttheader/utils.go", "func WriteUint16(val uint16, out bufiox.Writer) error {\n\tvar buf []byte", "var scratch16 [2]byte\n\nfunc WriteUint16(val uint16, out bufiox.Writer) error {\n\tbinary.BigEndian.PutUint16(scratch16[:], val)\n\tval = binary.BigEndian.Uint16(scratch16[:])\n\tvar buf []byte", ["C14"]),
    ("c14_skipdecoder_release_keeps_r", T + "skipdecoder.go", "func (p *SkipDecoder) Release() {\n\t*p = SkipDecoder{}\n\tpoolSkipDecoder.Put(p)", "func (p *SkipDecoder) Release() {\n\tpoolSkipDecoder.Put(p)\n\t*p = SkipDecoder{}", ["C14"]),
    # ---- C16
    ("c16_readbinary_alias", T + "binary.go", "} else {\n\t\tb = []byte(string(buf[4:l]))\n\t}", "} else if l == 4+128 {\n\t\tb = buf[4:l:l]\n\t} else {\n\t\tb = []byte(string(buf[4:l]))\n\t}", ["C16"]),
    ("c16_readstring_alias_span", T + "binary.go", "data := spanCache.Copy(buf[4:l])\n\t\ts = unsafex.BinaryToString(data)", "data := spanCache.Copy(buf[4:l])\n\t\tif l > 4+100000 { data = buf[4:l] }\n\t\ts = unsafex.BinaryToString(data)", ["C16"]),
    # ---- C19 / C20
    ("c19_remaining_uses_cap", T + "apache/transport.go", "func (p *bufferTransport) RemainingBytes() uint64        { return uint64(p.Len()) }", "func (p *bufferTransport) RemainingBytes() uint64        { return uint64(p.Cap()) }", ["C19"]),
    ("c19_readable_ge_0", T + "apache/transport.go", "if n > 0 {\n\t\t\treturn uint64(n)", "if n >= 0 {\n\t\t\treturn uint64(n)", ["C19"]),
    ("c19_close_noop", T + "apache/transport.go", "func (p *bufferTransport) Close() error                  { p.Reset(); return nil }", "func (p *bufferTransport) Close() error                  { if p.Len() < 64 { p.Reset() }; return nil }", ["C19"]),
    ("c20_cap_larger", "unsafex/unsafex_go121.go", "return unsafe.Slice(unsafe.StringData(s), len(s))", "b := unsafe.Slice(unsafe.StringData(s), len(s)+1)\n\treturn b[:len(s)]", ["C20"]),
    ("c20_b2s_copy_small", "unsafex/unsafex_go121.go", "return unsafe.String(unsafe.SliceData(b), len(b))", "if len(b) == 1 { return string(b) }\n\treturn unsafe.String(unsafe.SliceData(b), len(b))", ["C20"]),
]


def sh(cmd, cwd=None, timeout=1800):
    env = dict(os.environ, GOFLAGS="-mod=mod", GOPROXY="off", GOSUMDB="off", GOTOOLCHAIN="local",
               VERIF_EVIDENCE_DIR=os.path.join(ROOT, ".work", "evidence-scratch"))
    p = subprocess.run(cmd, shell=True, cwd=cwd, env=env, stdout=subprocess.PIPE, stderr=subprocess.STDOUT, text=True, errors="replace", timeout=timeout)
    return p.returncode, p.stdout


def restore():
    sh("git checkout -- . && git clean -fdq", cwd=REPO)


def main():
    filt = sys.argv[1:]
    results = []
    rc, out = sh("git status --short", cwd=REPO)
    if out.strip():
        print("refusing to run: /repo working tree is not clean:\n" + out)
        return 2
    for name, path, old, new, props in MUTANTS:
        if filt and not any(f in name for f in filt):
            continue
        full = os.path.join(REPO, path)
        src = open(full).read()
        if src.count(old) != 1:
            print("%-34s SKIP: pattern occurs %d times in %s" % (name, src.count(old), path))
            results.append({"name": name, "status": "pattern-mismatch"})
            continue
        try:
            open(full, "w").write(src.replace(old, new))
            rc, out = sh("gofmt -l . >/dev/null; go build ./... && go test -vet=off -count=1 ./... 2>&1 | tail -15", cwd=REPO)
            if rc != 0 or "FAIL" in out or "cannot" in out or "undefined" in out:
                print("%-34s does not build / baseline suite fails -> not a valid mutant\n%s" % (name, out[-600:]))
                results.append({"name": name, "status": "invalid"})
                continue
            caught = {}
            targets = props if props else [p for p in ("C%02d" % int(name[1:3]),)]
            for p in targets:
                t0 = time.time()
                rc, out = sh("python3 verif.py run %s quick" % p, cwd=ROOT)
                caught[p] = {"rc": rc, "s": round(time.time() - t0, 1)}
            expect_caught = bool(props)
            got = any(v["rc"] == 1 for v in caught.values())
            status = "ok" if got == expect_caught else ("MISSED" if expect_caught else "FALSE-ALARM?")
            print("%-34s %-12s %s" % (name, status, " ".join("%s:rc%d(%.0fs)" % (k, v["rc"], v["s"]) for k, v in caught.items())), flush=True)
            results.append({"name": name, "status": status, "checks": caught, "expected": props})
        finally:
            restore()
    os.makedirs(os.path.join(ROOT, ".work"), exist_ok=True)
    json.dump(results, open(os.path.join(ROOT, ".work", "mutants.json"), "w"), indent=1)
    missed = [r["name"] for r in results if r["status"] not in ("ok",)]
    print("done: %d mutants, not ok: %s" % (len(results), missed))
    return 0


if __name__ == "__main__":
    sys.exit(main())
