"""Per-property configuration of the driver (verif.py). 'run' is the -test.run regexp."""

CHECKS = {
    "C04": {
        "run": "^TestC04_",
        "level": "fault_enumeration",
        "level_text": "Cursor-model oracle over generated reader histories: bounded-exhaustive programs over a boundary alphabet crossed with source behaviours, the source error enumerated at every position of short streams (with/after data, two error values), plus thousands of random histories of up to 300 operations. Establishes agreement on everything explored, not absence.",
        "level_note": "Trusted: the cursor model (harness), the faultio.ScriptReader double, Go runtime. Sources honour the io.Reader contract and never return more than 3 consecutive empty reads.",
        "technique": "model-based property testing (rapid) + bounded-exhaustive history and fault-position enumeration against a cursor model",
        "assumptions": [
            "generated io.Reader doubles honour the io.Reader contract and return at most 3 consecutive (0,nil) reads",
            "stream content is a fixed position-dependent function, so any offset error changes bytes",
        ],
    },
}
