"""Per-property configuration of the driver (verif.py). 'run' is the -test.run regexp."""

ULIMIT_KB = 2500000  # address-space limit for checks that feed hostile sizes to allocating code

IO_ASSUME = "generated io.Reader/io.Writer doubles honour the io contracts; readers return at most 3 consecutive (0,nil) reads"
REF_ASSUME = "the reference recogniser/encoder for Thrift Binary in harness/ref (written from the protocol description, never importing the code under test) is correct"

CHECKS = {
    "C01": {
        "run": "^TestC01_",
        "level": "exploration",
        "level_text": "Wire-format oracle (harness/ref encoder) for every item kind: the in-place, appending and both stream writers must produce byte-identical output of the advertised length, and the buffer reader and the stream reader (under generated fragmentation incl. zero reads and data with io.EOF) must return the original value and consume exactly that many bytes. Complete enumeration of bool/i8/i16/field ids/type bytes (thorough: all 2^32 i32), boundary patterns for i64/double, string lengths across the 4096/8192 buffer boundaries, plus random scripts.",
        "level_note": "Trusted: harness/ref big-endian encoder, faultio doubles. 2^64 domains are sampled by bit-pattern classes, not enumerated.",
        "technique": "round-trip + differential property-based testing (rapid) against a reference encoder, with complete enumeration of the small scalar domains",
        "assumptions": [IO_ASSUME, REF_ASSUME],
        "timeout": {"quick": 900, "thorough": 7200},
    },
    "C02": {
        "run": "^TestC02_",
        "level": "exploration",
        "level_text": "Five-way differential against a recursive-descent reference: generated well-formed value trees (all type combinations, nesting to 63, strings to 70000 bytes) followed by trailers, read through Binary.Skip, BufferReader.Skip, SkipDecoder, BytesSkipDecoder and ReaderSkipDecoder under generated fragmentation incl. final data with io.EOF; every (key,value) and element type combination enumerated with sizes 0,1,2,5 under 6 source plans. Agreement on everything explored, not absence.",
        "level_note": "Trusted: harness/ref encoder+walker, faultio.ScriptReader (records the source position), Go runtime.",
        "technique": "property-based differential testing (rapid) + enumeration of type combinations against a reference grammar walker, with fault-injecting io.Reader doubles",
        "assumptions": [IO_ASSUME, REF_ASSUME],
    },
    "C03": {
        "run": "^TestC03_",
        "level": "exploration",
        "level_text": "Validity-predicate oracle (returns; no panic; no access outside the slice, detected by PROT_NONE guard pages flush before/after the input; success implies 0 <= n <= len(input)) over 29 entry points x 3 placements, on bounded-exhaustive short strings x type bytes, mutated valid encodings and (thorough) coverage-guided native fuzzing.",
        "level_note": "Trusted: guard-page arena (mmap/mprotect + SetPanicOnFault), harness recover boundary. Entry points that allocate the declared size are only fed declared sizes <= 1 MiB / 4096 elements (counted as excluded); out-of-slice reads that stay within the slice's own bytes are not observable.",
        "technique": "bounded-exhaustive enumeration + mutation-based property testing (rapid) + native go fuzzing with guard pages and a no-panic/no-over-report oracle",
        "assumptions": [REF_ASSUME, "stack exhaustion through multi-megabyte nesting is outside the generated sizes"],
        "ulimit_v_kb": ULIMIT_KB,
        "fuzz": [{"name": "FuzzC03EntryPoints", "seconds": 120}],
    },
    "C04": {
        "run": "^TestC04_",
        "level": "fault_enumeration",
        "level_text": "Cursor-model oracle over generated reader histories: bounded-exhaustive programs over a boundary alphabet crossed with source behaviours, the source error enumerated at every position of short streams (with/after data, two error values), plus thousands of random histories of up to 300 operations. Establishes agreement on everything explored, not absence.",
        "level_note": "Trusted: the cursor model (harness), the faultio.ScriptReader double, Go runtime. Sources honour the io.Reader contract and never return more than 3 consecutive empty reads.",
        "technique": "model-based property testing (rapid) + bounded-exhaustive history and fault-position enumeration against a cursor model",
        "assumptions": [IO_ASSUME, "stream content is a fixed position-dependent function, so any offset error changes bytes"],
    },
    "C05": {
        "run": "^TestC05_",
        "level": "fault_enumeration",
        "level_text": "Region-model oracle over generated writer histories: all programs up to a fixed length over a boundary alphabet crossed with the sink failing at every Write index (and short counts) and with five kinds of bytes-writer target, plus thousands of random histories with lazily filled regions and growths. Agreement on everything explored, not absence.",
        "level_note": "Trusted: the region model (harness), faultio.ScriptWriter (copies p, fails the k-th call), Go runtime. For bytes writers only the first Flush is compared with the target slice (the property's sentence covers exactly this).",
        "technique": "model-based property testing (rapid) + bounded-exhaustive history and sink-fault enumeration against a region/byte-list model",
        "assumptions": [IO_ASSUME],
    },
    "C06": {
        "run": "^TestC06_",
        "level": "exploration",
        "level_text": "Every generated parameter set is encoded by three writers and (unless Encode reports an error) checked against an independent parser of the documented frame layout (magic, flags, seq, size/4, protocol id, sections, ACL token under its own id, zero padding, multiset of entries) and decoded back by two readers under fragmentation; header length must equal bytes written and bytes consumed, payload length must delimit the payload so that the next frame decodes. All 65536 flag values and every info size 9..400 and 65440..65560 are enumerated.",
        "level_note": "Trusted: harness/ref TTHeader layout parser and size calculator, faultio doubles. Encode errors are allowed by the statement and only counted (label encode_error).",
        "technique": "round-trip property-based testing (rapid) + enumeration of flags and info sizes against a reference frame-layout parser",
        "assumptions": [IO_ASSUME, "the TTHeader layout reference in harness/ref/ttheader.go (written from the layout comment and the public TTHeader description) is correct"],
    },
    "C07": {
        "run": "^TestC07_",
        "level": "exploration",
        "level_text": "Go-map model oracle over generated load histories (reloads growing and shrinking, zero-key loads, failing loads, never-loaded instances) for StrMap[int], StrMap[struct], Str2Str and strstore, with key families aimed at prefixes, near-duplicates, binary content and every small table size; each case on 4-8 fresh instances so that collision chains vary with the hash seed.",
        "level_note": "Trusted: Go's built-in map, the key-family expander. hash/maphash seeds are process-random and cannot be injected, so a seed-dependent failure replays only statistically (the replay runs the case on several fresh instances).",
        "technique": "model-based property testing (rapid) against a Go map reference, plus enumeration of table sizes",
        "assumptions": ["keys of one load are distinct (the property's domain)", "hash seeds are chosen by the runtime"],
    },
    "C08": {
        "run": "^TestC08_",
        "level": "exploration",
        "level_text": "Accept/reject and extent of all five skippers compared with an independent recursive-descent recogniser on bounded-exhaustive strings over a grammar alphabet x type tags, every malformation operator over generated encodings, nesting depths 1..70 for every container kind, hostile size constants; exact agreement to level 63, rejection from 65, level 64 counted as boundary zone.",
        "level_note": "Trusted: harness/ref walker. Allocating skippers run only when the largest non-negative declared acquisition is <= 1 MiB; negative sizes are always fed, under an address-space limit with the case journaled first so that a fatal abort is attributed by replay.",
        "technique": "differential property-based testing (rapid) + bounded-exhaustive enumeration against a reference grammar recogniser; native go fuzzing in the thorough tier",
        "assumptions": [IO_ASSUME, REF_ASSUME],
        "ulimit_v_kb": ULIMIT_KB,
        "fuzz": [{"name": "FuzzC08SkipGrammar", "seconds": 120}],
    },
    "C10": {
        "run": "^TestC10_",
        "level": "exploration",
        "level_text": "Accept/reject, consumed length, header/payload arithmetic and decoded maps of DecodeFromBytes (two guard-page placements) and Decode (bytes reader, fragmented stream) compared with an independent frame parser, on all 65536 size-field values x 3 input lengths, all flags, all protocol ids, all info ids, all transform counts, and generated frames with reordered/repeated sections, lying counts and lengths, cuts and structural perturbations; native fuzzing in the thorough tier.",
        "level_note": "Trusted: harness/ref TTHeader parser, guard-page arena. PayloadLen for total-length fields >= 2^31 may follow either the signed or the unsigned reading.",
        "technique": "differential property-based testing (rapid) + exhaustive field sweeps against a reference frame parser, guard pages; native go fuzzing in the thorough tier",
        "assumptions": [IO_ASSUME, "the TTHeader layout reference in harness/ref/ttheader.go is correct"],
        "fuzz": [{"name": "FuzzC10TTHDecode", "seconds": 120}],
    },
    "C13": {
        "run": "^TestC13_",
        "level": "exploration",
        "level_text": "Round-trip and differential oracle: generated well-formed field sequences are converted to the unknown-field tree, compared node by node with the reference decoder (types, ids, values bit-exact, KeyType/ValType only where meaningful), measured and written back (must reproduce the bytes); harness-built normal-form trees must write to the reference encoding and convert back unchanged. All 121 ordered pairs of field types inside nested structs are enumerated.",
        "level_note": "Trusted: harness/ref encoder/decoder. Domain: canonical boolean encodings, no top-level STOP, nesting <= 60.",
        "technique": "round-trip + differential property-based testing (rapid) against a reference decoder, enumeration of field-type pairs",
        "assumptions": [REF_ASSUME],
    },
    "C11": {
        "run": "^TestC11_",
        "level": "exploration",
        "level_text": "For Base, BaseResp and ApplicationException: advertised length == bytes written (three write paths) == bytes consumed; written image decoded by the reference holds exactly the known fields; read(write(x)) == x with nil/empty Extra preserved; reference-built images with every permutation of the known fields, unknown fields of every type in every gap (incl. known ids under other types) and trailers must be consumed exactly and yield the expected value.",
        "level_note": "Trusted: harness/ref encoder/decoder. Unknown fields are drawn from the typed-value generator (nesting <= 6 in the random tier).",
        "technique": "round-trip + reference-built-image property-based testing (rapid), enumeration of field permutations x unknown field types x gaps",
        "assumptions": [REF_ASSUME],
    },
}
