// Package ref holds reference models written from the protocol descriptions only.
// It must never import the packages under test.
package ref

import (
	"fmt"
)

// Thrift type tags (Thrift Binary protocol).
const (
	STOP   = 0
	BOOL   = 2
	BYTE   = 3
	DOUBLE = 4
	I16    = 6
	I32    = 8
	I64    = 10
	STRING = 11
	STRUCT = 12
	MAP    = 13
	SET    = 14
	LIST   = 15
)

// Types lists the 11 valid type tags.
var Types = []int8{BOOL, BYTE, DOUBLE, I16, I32, I64, STRING, STRUCT, MAP, SET, LIST}

// FixedSize returns the wire size of a fixed width type, 0 otherwise.
func FixedSize(t int8) int {
	switch t {
	case BOOL, BYTE:
		return 1
	case I16:
		return 2
	case I32:
		return 4
	case I64, DOUBLE:
		return 8
	}
	return 0
}

// IsContainer reports whether t is STRUCT/MAP/SET/LIST.
func IsContainer(t int8) bool { return t >= STRUCT && t <= LIST }

// ValidType reports whether t is one of the 11 valid tags.
func ValidType(t int8) bool { return FixedSize(t) > 0 || t == STRING || IsContainer(t) }

// Field is a struct field.
type Field struct {
	ID int16
	V  Value
}

// Value is a typed Thrift value tree. Scalars are kept as raw bits.
type Value struct {
	T      int8
	Bits   uint64  // bool (0/1 or raw byte), i8, i16, i32, i64, double raw bits (low bits for narrow types)
	Str    []byte  // STRING
	KT, ET int8    // MAP: KT = key type, ET = value type; LIST/SET: ET = element type
	Elems  []Value // LIST/SET elements; MAP k0 v0 k1 v1 ...
	Fields []Field // STRUCT
}

// Mark records the offset and role of a structural byte range in an encoding.
type Mark struct {
	Off  int
	Role byte // 't' type tag, 'i' field id (2 bytes), 's' container size (4 bytes), 'l' string length (4 bytes)
}

func put32(b []byte, v uint32) []byte {
	return append(b, byte(v>>24), byte(v>>16), byte(v>>8), byte(v))
}

func put64(b []byte, v uint64) []byte {
	return append(b, byte(v>>56), byte(v>>48), byte(v>>40), byte(v>>32), byte(v>>24), byte(v>>16), byte(v>>8), byte(v))
}

// Put32 appends v big-endian.
func Put32(b []byte, v uint32) []byte { return put32(b, v) }

// Put64 appends v big-endian.
func Put64(b []byte, v uint64) []byte { return put64(b, v) }

// Put16 appends v big-endian.
func Put16(b []byte, v uint16) []byte { return append(b, byte(v>>8), byte(v)) }

// Append encodes v (without any field header) onto out, recording marks if marks != nil.
func Append(out []byte, v *Value, marks *[]Mark) []byte {
	mark := func(role byte) {
		if marks != nil {
			*marks = append(*marks, Mark{len(out), role})
		}
	}
	switch v.T {
	case BOOL, BYTE:
		return append(out, byte(v.Bits))
	case I16:
		return Put16(out, uint16(v.Bits))
	case I32:
		return put32(out, uint32(v.Bits))
	case I64, DOUBLE:
		return put64(out, v.Bits)
	case STRING:
		mark('l')
		out = put32(out, uint32(len(v.Str)))
		return append(out, v.Str...)
	case STRUCT:
		for i := range v.Fields {
			f := &v.Fields[i]
			mark('t')
			out = append(out, byte(f.V.T))
			mark('i')
			out = Put16(out, uint16(f.ID))
			out = Append(out, &f.V, marks)
		}
		mark('t')
		return append(out, 0)
	case MAP:
		mark('t')
		out = append(out, byte(v.KT))
		mark('t')
		out = append(out, byte(v.ET))
		mark('s')
		out = put32(out, uint32(len(v.Elems)/2))
		for i := range v.Elems {
			out = Append(out, &v.Elems[i], marks)
		}
		return out
	case SET, LIST:
		mark('t')
		out = append(out, byte(v.ET))
		mark('s')
		out = put32(out, uint32(len(v.Elems)))
		for i := range v.Elems {
			out = Append(out, &v.Elems[i], marks)
		}
		return out
	}
	panic(fmt.Sprintf("ref.Append: bad type %d", v.T))
}

// Encode returns the Thrift Binary encoding of v and its structural marks.
func Encode(v *Value) ([]byte, []Mark) {
	var m []Mark
	b := Append(nil, v, &m)
	return b, m
}

// Class of a walk.
const (
	OK = iota
	TRUNCATED
	NEGATIVE_SIZE
	UNKNOWN_TYPE
	DEPTH
)

// ClassName names a class.
func ClassName(c int) string {
	return [...]string{"OK", "TRUNCATED", "NEGATIVE_SIZE", "UNKNOWN_TYPE", "DEPTH"}[c]
}

// Result of Walk.
type Result struct {
	N          int   // encoded extent if Class == OK
	Class      int   // first defect in left-to-right order
	MaxLevel   int   // deepest container nesting level entered (top-level container = 1)
	MaxAcquire int64 // largest contiguous request a correct allocating implementation could make (non-negative declared sizes only)
	Fields     int   // structural items parsed (headers, size fields, string lengths)
	// FailLevel is the container nesting level at which the first defect was met (0 = at top-level scalar/string).
	FailLevel int
	// FailOff is the absolute input offset at which the first defect was met.
	FailOff int
}

// DepthLimit is the deepest container level the grammar accepts here.
const DepthLimit = 64

func be32(b []byte) uint32 {
	return uint32(b[0])<<24 | uint32(b[1])<<16 | uint32(b[2])<<8 | uint32(b[3])
}

func (r *Result) acq(n int64) {
	if n > r.MaxAcquire {
		r.MaxAcquire = n
	}
}

func (r *Result) fail(level, off, class int) (int, int) {
	r.FailLevel = level
	r.FailOff = off
	return 0, class
}

// walk parses one value of type t at b; base is the absolute offset of b[0] in the input.
func walk(b []byte, t int8, level int, base int, r *Result) (int, int) {
	if n := FixedSize(t); n > 0 {
		if len(b) < n {
			return r.fail(level, base, TRUNCATED)
		}
		return n, OK
	}
	switch t {
	case STRING:
		if len(b) < 4 {
			return r.fail(level, base, TRUNCATED)
		}
		r.Fields++
		sz := int64(be32(b))
		if sz >= 1<<31 {
			return r.fail(level, base, NEGATIVE_SIZE)
		}
		r.acq(sz)
		if int64(len(b)) < 4+sz {
			return r.fail(level, base+4, TRUNCATED)
		}
		return 4 + int(sz), OK
	case STRUCT, MAP, SET, LIST:
		level++
		if level > r.MaxLevel {
			r.MaxLevel = level
		}
		if level > DepthLimit {
			return r.fail(level, base, DEPTH)
		}
	default:
		return r.fail(level, base, UNKNOWN_TYPE)
	}
	switch t {
	case STRUCT:
		i := 0
		for {
			if len(b) < i+1 {
				return r.fail(level, base+i, TRUNCATED)
			}
			ft := int8(b[i])
			i++
			r.Fields++
			if ft == STOP {
				return i, OK
			}
			if len(b) < i+2 {
				return r.fail(level, base+i, TRUNCATED)
			}
			i += 2
			n, c := walk(b[i:], ft, level, base+i, r)
			if c != OK {
				return 0, c
			}
			i += n
		}
	case MAP:
		if len(b) < 6 {
			return r.fail(level, base, TRUNCATED)
		}
		r.Fields++
		kt, vt, sz := int8(b[0]), int8(b[1]), int64(be32(b[2:]))
		kf, vf := FixedSize(kt), FixedSize(vt)
		if sz >= 1<<31 {
			return r.fail(level, base+2, NEGATIVE_SIZE)
		}
		if kf > 0 && vf > 0 {
			tot := sz * int64(kf+vf)
			r.acq(tot)
			if int64(len(b)) < 6+tot {
				return r.fail(level, base+6, TRUNCATED)
			}
			return 6 + int(tot), OK
		}
		i := 6
		for j := int64(0); j < sz; j++ {
			n, c := walk(b[i:], kt, level, base+i, r)
			if c != OK {
				return 0, c
			}
			i += n
			n, c = walk(b[i:], vt, level, base+i, r)
			if c != OK {
				return 0, c
			}
			i += n
		}
		return i, OK
	default: // SET, LIST
		if len(b) < 5 {
			return r.fail(level, base, TRUNCATED)
		}
		r.Fields++
		et, sz := int8(b[0]), int64(be32(b[1:]))
		ef := FixedSize(et)
		if sz >= 1<<31 {
			return r.fail(level, base+1, NEGATIVE_SIZE)
		}
		if ef > 0 {
			tot := sz * int64(ef)
			r.acq(tot)
			if int64(len(b)) < 5+tot {
				return r.fail(level, base+5, TRUNCATED)
			}
			return 5 + int(tot), OK
		}
		i := 5
		for j := int64(0); j < sz; j++ {
			n, c := walk(b[i:], et, level, base+i, r)
			if c != OK {
				return 0, c
			}
			i += n
		}
		return i, OK
	}
}

// Walk is a recursive-descent recogniser for one value of type t at the start of b.
func Walk(b []byte, t int8) Result {
	var r Result
	r.N, r.Class = walk(b, t, 0, 0, &r)
	return r
}

// Decode parses one value of type t at the start of b (which must be well formed; check Walk first).
func Decode(b []byte, t int8) (Value, int) {
	v := Value{T: t}
	switch t {
	case BOOL, BYTE:
		v.Bits = uint64(b[0])
		return v, 1
	case I16:
		v.Bits = uint64(b[0])<<8 | uint64(b[1])
		return v, 2
	case I32:
		v.Bits = uint64(be32(b))
		return v, 4
	case I64, DOUBLE:
		v.Bits = uint64(be32(b))<<32 | uint64(be32(b[4:]))
		return v, 8
	case STRING:
		n := int(be32(b))
		v.Str = append([]byte{}, b[4:4+n]...)
		return v, 4 + n
	case STRUCT:
		i := 0
		for {
			ft := int8(b[i])
			i++
			if ft == STOP {
				return v, i
			}
			id := int16(uint16(b[i])<<8 | uint16(b[i+1]))
			i += 2
			fv, n := Decode(b[i:], ft)
			i += n
			v.Fields = append(v.Fields, Field{id, fv})
		}
	case MAP:
		v.KT, v.ET = int8(b[0]), int8(b[1])
		sz := int(be32(b[2:]))
		i := 6
		v.Elems = make([]Value, 0, 2*min(sz, 1<<16))
		for j := 0; j < sz; j++ {
			kv, n := Decode(b[i:], v.KT)
			i += n
			vv, n := Decode(b[i:], v.ET)
			i += n
			v.Elems = append(v.Elems, kv, vv)
		}
		return v, i
	case SET, LIST:
		v.ET = int8(b[0])
		sz := int(be32(b[1:]))
		i := 5
		v.Elems = make([]Value, 0, min(sz, 1<<16))
		for j := 0; j < sz; j++ {
			ev, n := Decode(b[i:], v.ET)
			i += n
			v.Elems = append(v.Elems, ev)
		}
		return v, i
	}
	panic(fmt.Sprintf("ref.Decode: bad type %d", t))
}

func min(a, b int) int {
	if a < b {
		return a
	}
	return b
}

// Equal compares two value trees bit-exactly (doubles as bit patterns).
func Equal(a, b *Value) bool {
	if a.T != b.T || a.Bits != b.Bits || string(a.Str) != string(b.Str) || len(a.Elems) != len(b.Elems) || len(a.Fields) != len(b.Fields) {
		return false
	}
	if a.T == MAP && (a.KT != b.KT || a.ET != b.ET) {
		return false
	}
	if (a.T == LIST || a.T == SET) && a.ET != b.ET {
		return false
	}
	for i := range a.Elems {
		if !Equal(&a.Elems[i], &b.Elems[i]) {
			return false
		}
	}
	for i := range a.Fields {
		if a.Fields[i].ID != b.Fields[i].ID || !Equal(&a.Fields[i].V, &b.Fields[i].V) {
			return false
		}
	}
	return true
}

// MaxDeclaredCount parses b as a sequence of fields (type, id, value)* the way a tree-building
// decoder without negative-size checks would (sizes read unsigned, no depth limit) and returns the
// largest container element count such a decoder meets before the first truncation or unknown type.
// It is used only to cap inputs for entry points that allocate the declared element count.
func MaxDeclaredCount(b []byte) int64 {
	var max int64
	var val func(b []byte, t int8, depth int) (int, bool)
	val = func(b []byte, t int8, depth int) (int, bool) {
		if depth > 4096 {
			return 0, false
		}
		if n := FixedSize(t); n > 0 {
			return n, len(b) >= n
		}
		switch t {
		case STRING:
			if len(b) < 4 {
				return 0, false
			}
			sz := int64(be32(b))
			if sz >= 1<<31 || int64(len(b)) < 4+sz {
				return 0, false
			}
			return 4 + int(sz), true
		case STRUCT:
			i := 0
			for {
				if len(b) < i+1 {
					return 0, false
				}
				ft := int8(b[i])
				i++
				if ft == STOP {
					return i, true
				}
				if len(b) < i+2 {
					return 0, false
				}
				i += 2
				n, ok := val(b[i:], ft, depth+1)
				if !ok {
					return 0, false
				}
				i += n
			}
		case MAP:
			if len(b) < 6 {
				return 0, false
			}
			kt, vt, sz := int8(b[0]), int8(b[1]), int64(be32(b[2:]))
			if sz > max {
				max = sz
			}
			i := 6
			for j := int64(0); j < sz; j++ {
				n, ok := val(b[i:], kt, depth+1)
				if !ok {
					return 0, false
				}
				i += n
				n, ok = val(b[i:], vt, depth+1)
				if !ok {
					return 0, false
				}
				i += n
				if n == 0 && i >= len(b) {
					return 0, false
				}
			}
			return i, true
		case SET, LIST:
			if len(b) < 5 {
				return 0, false
			}
			et, sz := int8(b[0]), int64(be32(b[1:]))
			if sz > max {
				max = sz
			}
			i := 5
			for j := int64(0); j < sz; j++ {
				n, ok := val(b[i:], et, depth+1)
				if !ok {
					return 0, false
				}
				i += n
			}
			return i, true
		}
		return 0, false
	}
	i := 0
	for i < len(b) {
		ft := int8(b[i])
		i++
		if ft == STOP {
			// a decoder may treat this as a 1-byte field header and then fail on type 0
			return max
		}
		if len(b) < i+2 {
			return max
		}
		i += 2
		n, ok := val(b[i:], ft, 0)
		if !ok {
			return max
		}
		i += n
	}
	return max
}
