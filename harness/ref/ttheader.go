package ref

// TTHeader frame layout reference, written from the documented layout:
//
//	[0:4] total length (frame length - 4)   [4:6] magic 0x1000   [6:8] flags   [8:12] sequence id
//	[12:14] header-info size / 4
//	info: protocol id (u8), number of transforms (u8), transform ids, then sections introduced by an
//	info id byte: 0x00 padding, 0x01 string key/values (u16 count, (u16 len, bytes) x 2 each),
//	0x10 integer key/values (u16 count, u16 key, (u16 len, bytes) each), 0x11 ACL token (u16 len, bytes)

// ACLTokenKey is the string-info key under which the ACL token section is surfaced.
const ACLTokenKey = "RPC_TRANSIT_gdpr-token"

// StrKV / IntKV are entries in wire order.
type StrKV struct{ K, V string }
type IntKV struct {
	K uint16
	V string
}

// Frame is the result of parsing a TTHeader frame.
type Frame struct {
	OK        bool
	Why       string // reason of rejection
	Total     uint32
	Flags     uint16
	Seq       int32
	Proto     byte
	SizeField int // value of the size field (info bytes / 4)
	HeaderLen int // 14 + 4*SizeField
	StrList   []StrKV
	IntList   []IntKV
	ACL       []string // ACL token sections in order
	Str       map[string]string
	Int       map[uint16]string
	NTransf   int
	PadOK     bool // every padding byte after the last section is zero (trivially true: padding is id 0)
	MetaOK    bool // 14 bytes present and magic matches and size in range
	Sections  int
}

func u16(b []byte) int { return int(b[0])<<8 | int(b[1]) }

// SupportedProto reports whether a protocol id is in the allow-list.
func SupportedProto(p byte) bool {
	switch p {
	case 0x00, 0x03, 0x04, 0x10, 0x11:
		return true
	}
	return false
}

// ParseFrame parses b as a TTHeader frame (header only; payload is not inspected).
func ParseFrame(b []byte) (f Frame) {
	if len(b) < 14 {
		f.Why = "fewer than 14 bytes"
		return
	}
	f.Total = be32(b)
	if b[4] != 0x10 || b[5] != 0x00 {
		f.Why = "magic"
		return
	}
	f.Flags = uint16(u16(b[6:]))
	f.Seq = int32(be32(b[8:]))
	f.SizeField = u16(b[12:])
	size := f.SizeField * 4
	if size < 2 || size > 65536 {
		f.Why = "declared size out of range"
		return
	}
	f.MetaOK = true
	f.HeaderLen = 14 + size
	if len(b) < 14+size {
		f.Why = "info truncated"
		return
	}
	info := b[14 : 14+size]
	f.Proto = info[0]
	if !SupportedProto(f.Proto) {
		f.Why = "protocol id"
		return
	}
	f.NTransf = int(info[1])
	if size-2 < f.NTransf {
		f.Why = "transform count"
		return
	}
	i := 2 + f.NTransf
	str := func() (string, bool) {
		if len(info)-i < 2 {
			return "", false
		}
		l := u16(info[i:])
		if len(info)-i-2 < l {
			return "", false
		}
		s := string(info[i+2 : i+2+l])
		i += 2 + l
		return s, true
	}
	for i < len(info) {
		id := info[i]
		i++
		switch id {
		case 0x00:
		case 0x01:
			f.Sections++
			if f.Str == nil {
				f.Str = map[string]string{}
			}
			if len(info)-i < 2 {
				f.Why = "string kv count truncated"
				return
			}
			n := u16(info[i:])
			i += 2
			for k := 0; k < n; k++ {
				key, ok := str()
				if !ok {
					f.Why = "string kv key incomplete"
					return
				}
				val, ok := str()
				if !ok {
					f.Why = "string kv value incomplete"
					return
				}
				f.Str[key] = val
				f.StrList = append(f.StrList, StrKV{key, val})
			}
		case 0x10:
			f.Sections++
			if f.Int == nil {
				f.Int = map[uint16]string{}
			}
			if len(info)-i < 2 {
				f.Why = "int kv count truncated"
				return
			}
			n := u16(info[i:])
			i += 2
			for k := 0; k < n; k++ {
				if len(info)-i < 2 {
					f.Why = "int kv key incomplete"
					return
				}
				key := uint16(u16(info[i:]))
				i += 2
				val, ok := str()
				if !ok {
					f.Why = "int kv value incomplete"
					return
				}
				f.Int[key] = val
				f.IntList = append(f.IntList, IntKV{key, val})
			}
		case 0x11:
			f.Sections++
			if f.Str == nil {
				f.Str = map[string]string{}
			}
			val, ok := str()
			if !ok {
				f.Why = "acl token incomplete"
				return
			}
			f.Str[ACLTokenKey] = val
			f.ACL = append(f.ACL, val)
		default:
			f.Why = "unknown info id"
			return
		}
	}
	f.OK = true
	return
}

// InfoSize computes the padded header-info size an encoder produces for the given parameters.
func InfoSize(intKV map[uint16]string, strKV map[string]string) int {
	n := 2
	nstr := len(strKV)
	if v, ok := strKV[ACLTokenKey]; ok {
		nstr--
		n += 1 + 2 + len(v)
	}
	if nstr > 0 {
		n += 3
		for k, v := range strKV {
			if k == ACLTokenKey {
				continue
			}
			n += 2 + len(k) + 2 + len(v)
		}
	}
	if len(intKV) > 0 {
		n += 3
		for _, v := range intKV {
			n += 2 + 2 + len(v)
		}
	}
	return (n + 3) / 4 * 4
}
