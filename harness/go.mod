module github.com/cloudwego/gopkg/verifharness

go 1.23

require (
	github.com/bytedance/gopkg v0.1.1
	github.com/cloudwego/gopkg v0.0.0
	pgregory.net/rapid v1.3.0
)

require (
	golang.org/x/net v0.24.0 // indirect
	golang.org/x/sys v0.19.0 // indirect
	golang.org/x/text v0.14.0 // indirect
)

replace github.com/cloudwego/gopkg => /repo
