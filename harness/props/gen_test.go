package props

import (
	"math"

	"github.com/cloudwego/gopkg/verifharness/ref"
	"pgregory.net/rapid"
)

// ---- typed value trees -----------------------------------------------------------------------------

type vgen struct {
	t         *rapid.T
	nodes     int  // remaining node budget
	bytes     int  // remaining string byte budget
	canonBool bool // booleans only 0/1
	bigStr    bool // allow strings beyond the bufiox buffer size
	big       int  // how many big flat containers (500..2000 elements) may still be generated
}

func patternBytes(seed byte, n int) []byte {
	b := make([]byte, n)
	for i := range b {
		b[i] = byte(int(seed)*7 + i*13 + i>>7)
	}
	return b
}

var scalar64 = []uint64{0, 1, 0xffffffffffffffff, 0x8000000000000000, 0x7fffffffffffffff, 0x0102030405060708,
	0x7ff8000000000001, 0xfff0000000000000, 0x7ff0000000000001, 0x00000000ffffffff, 0x8000000080000000, 0x00ff00ff00ff00ff}

func (g *vgen) bits(ty int8) uint64 {
	var v uint64
	switch rapid.IntRange(0, 3).Draw(g.t, "bitsKind") {
	case 0:
		v = rapid.SampledFrom(scalar64).Draw(g.t, "const")
	case 1:
		v = uint64(1) << uint(rapid.IntRange(0, 63).Draw(g.t, "bit"))
	default:
		v = rapid.Uint64().Draw(g.t, "u64")
	}
	switch ty {
	case ref.BOOL:
		if g.canonBool {
			return v & 1
		}
		return v & 0xff
	case ref.BYTE:
		return v & 0xff
	case ref.I16:
		return v & 0xffff
	case ref.I32:
		return v & 0xffffffff
	}
	return v
}

func (g *vgen) strLen() int {
	k := rapid.IntRange(0, 19).Draw(g.t, "slk")
	var n int
	switch {
	case k < 4:
		n = 0
	case k < 11:
		n = rapid.IntRange(1, 16).Draw(g.t, "sl")
	case k < 15:
		n = rapid.IntRange(100, 300).Draw(g.t, "sl")
	case k < 17:
		n = rapid.IntRange(4090, 4100).Draw(g.t, "sl")
	case k < 18:
		n = rapid.IntRange(8188, 8196).Draw(g.t, "sl")
	case k < 19:
		n = 20000
	default:
		n = 70000
	}
	if n > 300 && !g.bigStr {
		n = n % 301
	}
	if n > g.bytes {
		n = g.bytes
	}
	g.bytes -= n
	return n
}

func (g *vgen) str() []byte {
	n := g.strLen()
	if n <= 8 {
		return rapid.SliceOfN(rapid.Byte(), n, n).Draw(g.t, "sbytes")
	}
	return patternBytes(rapid.Byte().Draw(g.t, "sseed"), n)
}

func (g *vgen) size(depth int) int {
	if depth <= 0 || g.nodes <= 0 {
		return 0
	}
	k := rapid.IntRange(0, 19).Draw(g.t, "szk")
	var n int
	switch {
	case k < 4:
		n = 0
	case k < 9:
		n = 1
	case k < 13:
		n = 2
	case k < 19:
		n = rapid.IntRange(3, 8).Draw(g.t, "sz")
	default:
		n = rapid.IntRange(100, 300).Draw(g.t, "sz")
	}
	if n > g.nodes {
		n = g.nodes
	}
	return n
}

func (g *vgen) typ() int8 { return rapid.SampledFrom(ref.Types).Draw(g.t, "ty") }

var fieldIDs = []int16{0, 1, 2, 3, 6, 255, 256, 32767, -1, -32768}

func (g *vgen) fieldID() int16 {
	if rapid.Bool().Draw(g.t, "idk") {
		return rapid.SampledFrom(fieldIDs).Draw(g.t, "id")
	}
	return rapid.Int16().Draw(g.t, "id")
}

// bigFlat builds a container with many small elements (counts around 512/1024/2048), outside the node budget.
func (g *vgen) bigFlat(ty int8) ref.Value {
	n := rapid.SampledFrom([]int{255, 256, 257, 511, 512, 513, 1023, 1024, 1025, 1500, 2049, 4095, 4096, 4097, 16383, 16384, 16385, 16386, 32767, 32768, 32769, 65535, 65536, 65537}).Draw(g.t, "bigN")
	if n > 5000 && ty == ref.STRUCT {
		n = 257
	}
	if n > 33000 && ty == ref.MAP {
		n = 16385
	}
	small := []int8{ref.BOOL, ref.BYTE, ref.I16, ref.I32, ref.I64, ref.DOUBLE, ref.STRING}
	elem := func(t int8, i int) ref.Value {
		if t == ref.STRING {
			return ref.Value{T: t, Str: []byte{byte('a' + i%26), byte(i)}}
		}
		return ref.Value{T: t, Bits: uint64(i) & (1<<uint(8*ref.FixedSize(t)) - 1)}
	}
	v := ref.Value{T: ty}
	switch ty {
	case ref.MAP:
		v.KT, v.ET = rapid.SampledFrom(small).Draw(g.t, "bigK"), rapid.SampledFrom(small).Draw(g.t, "bigV")
		if v.KT == ref.BOOL {
			v.KT = ref.I32
		}
		if n > 5000 { // keep very wide maps small in bytes
			v.KT, v.ET = rapid.SampledFrom([]int8{ref.I16, ref.I32, ref.BYTE}).Draw(g.t, "bigK1"), rapid.SampledFrom([]int8{ref.BOOL, ref.BYTE, ref.I16}).Draw(g.t, "bigV1")
		}
		for i := 0; i < n; i++ {
			v.Elems = append(v.Elems, elem(v.KT, i), elem(v.ET, i+1))
		}
	case ref.STRUCT:
		for i := 0; i < n; i++ {
			v.Fields = append(v.Fields, ref.Field{ID: int16(i), V: elem(small[i%len(small)], i)})
		}
	default:
		v.ET = rapid.SampledFrom(small).Draw(g.t, "bigE")
		if n > 5000 {
			v.ET = rapid.SampledFrom([]int8{ref.BOOL, ref.BYTE, ref.I16}).Draw(g.t, "bigE1")
		}
		for i := 0; i < n; i++ {
			v.Elems = append(v.Elems, elem(v.ET, i))
		}
	}
	return v
}

func (g *vgen) value(ty int8, depth int) ref.Value {
	g.nodes--
	if g.big > 0 && ref.IsContainer(ty) && rapid.IntRange(0, 39).Draw(g.t, "big") == 0 {
		g.big--
		return g.bigFlat(ty)
	}
	v := ref.Value{T: ty}
	switch {
	case ref.FixedSize(ty) > 0:
		v.Bits = g.bits(ty)
	case ty == ref.STRING:
		v.Str = g.str()
	case ty == ref.STRUCT:
		n := g.size(depth)
		for i := 0; i < n; i++ {
			ft := g.typ()
			v.Fields = append(v.Fields, ref.Field{ID: g.fieldID(), V: g.value(ft, depth-1)})
		}
	case ty == ref.MAP:
		v.KT, v.ET = g.typ(), g.typ()
		n := g.size(depth)
		for i := 0; i < n; i++ {
			v.Elems = append(v.Elems, g.value(v.KT, depth-1), g.value(v.ET, depth-1))
		}
	default:
		v.ET = g.typ()
		n := g.size(depth)
		for i := 0; i < n; i++ {
			v.Elems = append(v.Elems, g.value(v.ET, depth-1))
		}
	}
	return v
}

// genValue draws a typed value tree of type ty (0 = any type).
func genValue(t *rapid.T, ty int8, depth int, canonBool, bigStr bool) ref.Value {
	g := &vgen{t: t, nodes: 400, bytes: 150000, canonBool: canonBool, bigStr: bigStr, big: 1}
	if ty == 0 {
		ty = g.typ()
	}
	return g.value(ty, depth)
}

// genNest builds a chain of d nested containers with a small leaf; kinds chosen per level.
func genNest(t *rapid.T, d int) ref.Value {
	kindMode := rapid.IntRange(0, 4).Draw(t, "nestKind") // 0..3 fixed kind, 4 mixed
	leafMode := rapid.IntRange(0, 3).Draw(t, "leaf")     // 0 empty container, 1 scalar, 2 string, 3 fixed-width list
	var build func(level int) ref.Value
	kinds := []int8{ref.STRUCT, ref.MAP, ref.SET, ref.LIST}
	pick := func() int8 {
		if kindMode < 4 {
			return kinds[kindMode]
		}
		return rapid.SampledFrom(kinds).Draw(t, "k")
	}
	leaf := func() ref.Value {
		switch leafMode {
		case 1:
			return ref.Value{T: ref.I32, Bits: 7}
		case 2:
			return ref.Value{T: ref.STRING, Str: []byte("xy")}
		}
		return ref.Value{T: ref.I64, Bits: 1}
	}
	build = func(level int) ref.Value {
		k := pick()
		v := ref.Value{T: k}
		last := level == d
		var child ref.Value
		if !last {
			child = build(level + 1)
		} else if leafMode == 0 {
			// empty innermost container
			switch k {
			case ref.MAP:
				v.KT, v.ET = ref.I32, ref.STRING
			case ref.SET, ref.LIST:
				v.ET = ref.STRING
			}
			return v
		} else if leafMode == 3 {
			switch k {
			case ref.MAP:
				v.KT, v.ET = ref.I32, ref.I64
				v.Elems = []ref.Value{{T: ref.I32, Bits: 1}, {T: ref.I64, Bits: 2}}
			case ref.SET, ref.LIST:
				v.ET = ref.I16
				v.Elems = []ref.Value{{T: ref.I16, Bits: 1}, {T: ref.I16, Bits: 2}}
			default:
				v.Fields = []ref.Field{{ID: 1, V: ref.Value{T: ref.BYTE, Bits: 9}}}
			}
			return v
		} else {
			child = leaf()
		}
		switch k {
		case ref.STRUCT:
			v.Fields = []ref.Field{{ID: int16(level), V: child}}
		case ref.MAP:
			if rapid.Bool().Draw(t, "mapKeySide") && ref.IsContainer(child.T) {
				v.KT, v.ET = child.T, ref.BYTE
				v.Elems = []ref.Value{child, {T: ref.BYTE, Bits: 1}}
			} else {
				v.KT, v.ET = ref.I32, child.T
				v.Elems = []ref.Value{{T: ref.I32, Bits: uint64(level)}, child}
			}
		default:
			v.ET = child.T
			v.Elems = []ref.Value{child}
		}
		return v
	}
	return build(1)
}

// ---- malformation operators --------------------------------------------------------------------------

var structuralBytes = []byte{0x00, 0x01, 0x02, 0x03, 0x04, 0x06, 0x08, 0x0a, 0x0b, 0x0c, 0x0d, 0x0e, 0x0f, 0x10, 0x7f, 0x80, 0x8b, 0x8c, 0xff}
var hostileSizes = []uint32{0, 1, 2, 0x7fffffff, 0x80000000, 0xffffffff, 0xff000000, 0x00010000, 0x7ffffff0,
	// counts whose product with an element width of 1..16 reaches 2^31 or wraps at 2^32
	0x08000000, 0x10000000, 0x20000000, 0x40000000, 0x10000001, 0x20000001, 0x40000001, 0x0fffffff, 0x15555556, 0x55555556, 0x33333334,
	// floor((2^31-1)/w) and the next value for element widths w = 2..16: products just below / at 2^31
	0x3fffffff, 0x2aaaaaaa, 0x2aaaaaab, 0x1fffffff, 0x19999999, 0x1999999a, 0x15555555, 0x0fffffff, 0x0e38e38e, 0x0e38e38f, 0x0ccccccc, 0x0ccccccd, 0x0aaaaaaa, 0x0aaaaaab, 0x07ffffff,
	0x3ffffffd, 0x3ffffffe, 0x2aaaaaa9, 0x1ffffffe}

// mutate applies one malformation operator to enc (marks describe its structural bytes).
// It returns the mutated bytes and the operator name.
func mutate(t *rapid.T, enc []byte, marks []ref.Mark) ([]byte, string) {
	b := append([]byte(nil), enc...)
	op := rapid.SampledFrom([]string{"none", "cut", "cut", "tag", "tag", "size", "size", "sizeDelta", "byte", "bitflip", "append", "splice", "fieldid"}).Draw(t, "mut")
	pickMark := func(role string) (ref.Mark, bool) {
		var c []ref.Mark
		for _, m := range marks {
			for i := 0; i < len(role); i++ {
				if m.Role == role[i] {
					c = append(c, m)
				}
			}
		}
		if len(c) == 0 {
			return ref.Mark{}, false
		}
		return c[rapid.IntRange(0, len(c)-1).Draw(t, "mark")], true
	}
	switch op {
	case "cut":
		if len(b) > 0 {
			b = b[:rapid.IntRange(0, len(b)-1).Draw(t, "cutAt")]
		}
	case "tag":
		if m, ok := pickMark("t"); ok {
			b[m.Off] = rapid.SampledFrom(structuralBytes).Draw(t, "tagv")
		} else {
			op = "none"
		}
	case "size":
		if m, ok := pickMark("sl"); ok {
			v := rapid.SampledFrom(hostileSizes).Draw(t, "sizev")
			b[m.Off], b[m.Off+1], b[m.Off+2], b[m.Off+3] = byte(v>>24), byte(v>>16), byte(v>>8), byte(v)
		} else {
			op = "none"
		}
	case "sizeDelta":
		if m, ok := pickMark("sl"); ok {
			v := uint32(b[m.Off])<<24 | uint32(b[m.Off+1])<<16 | uint32(b[m.Off+2])<<8 | uint32(b[m.Off+3])
			v += uint32(rapid.SampledFrom([]int{-1, 1, 2, 255, 256}).Draw(t, "delta"))
			b[m.Off], b[m.Off+1], b[m.Off+2], b[m.Off+3] = byte(v>>24), byte(v>>16), byte(v>>8), byte(v)
		} else {
			op = "none"
		}
	case "fieldid":
		if m, ok := pickMark("i"); ok {
			b[m.Off] = rapid.Byte().Draw(t, "idhi")
			b[m.Off+1] = rapid.Byte().Draw(t, "idlo")
		} else {
			op = "none"
		}
	case "byte":
		if len(b) > 0 {
			b[rapid.IntRange(0, len(b)-1).Draw(t, "bi")] = rapid.SampledFrom(structuralBytes).Draw(t, "bv")
		}
	case "bitflip":
		if len(b) > 0 {
			b[rapid.IntRange(0, len(b)-1).Draw(t, "fi")] ^= 1 << uint(rapid.IntRange(0, 7).Draw(t, "fb"))
		}
	case "append":
		b = append(b, rapid.SliceOfN(rapid.Byte(), 1, 12).Draw(t, "tail")...)
	case "splice":
		if len(marks) > 1 {
			m1 := marks[rapid.IntRange(0, len(marks)-1).Draw(t, "sp1")]
			m2 := marks[rapid.IntRange(0, len(marks)-1).Draw(t, "sp2")]
			b = append(append([]byte(nil), enc[:m1.Off]...), enc[m2.Off:]...)
		}
	}
	return b, op
}

var _ = math.MaxInt32
