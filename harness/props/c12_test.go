package props

import (
	"bytes"
	"errors"
	"fmt"
	"io"
	"testing"

	"github.com/cloudwego/gopkg/protocol/thrift/base"

	"github.com/cloudwego/gopkg/bufiox"
	"github.com/cloudwego/gopkg/protocol/thrift"
	"github.com/cloudwego/gopkg/verifharness/evid"
	"github.com/cloudwego/gopkg/verifharness/faultio"
	"github.com/cloudwego/gopkg/verifharness/ref"
	"pgregory.net/rapid"
)

// ---- C12: message envelope -------------------------------------------------------------------------

// MsgCase is a message header (and optionally a payload struct) under a reader configuration.
type MsgCase struct {
	Name    PStr         `json:"name"`
	Type    int32        `json:"type"` // 0..65535
	Seq     int32        `json:"seq"`
	Word    *uint32      `json:"word,omitempty"` // replace the first word of the header with this value
	Cut     int          `json:"cut"`            // -1: none; else decode the strict prefix of this length
	Plan    faultio.Plan `json:"plan"`
	Payload *FCCase      `json:"payload,omitempty"`
	Empty   bool         `json:"empty_payload,omitempty"` // marshal a struct without fields (a lone STOP byte)
}

func refMsgHeader(name string, typ int32, seq int32) []byte {
	b := ref.Put32(nil, 0x80010000|uint32(typ)&0xffff)
	b = ref.Put32(b, uint32(len(name)))
	b = append(b, name...)
	return ref.Put32(b, uint32(seq))
}

func isBadVersion(err error) bool {
	var pe *thrift.ProtocolException
	return errors.As(err, &pe) && pe.TypeId() == thrift.BAD_VERSION
}

func checkMsg(c MsgCase, cv *cov) (v *evid.Violation) {
	if c.Type < 0 || c.Type > 65535 || c.Name.L < 0 || c.Name.L > 1<<20 {
		return nil
	}
	name := c.Name.String()
	want := refMsgHeader(name, c.Type, c.Seq)
	x := thrift.Binary
	var split, rejected, exception bool
	body := func() {
		// three writers
		if l := x.MessageBeginLength(name); l != len(want) {
			v = evid.Failf("MessageBeginLength(%d-byte name)=%d, the header has %d bytes", len(name), l, len(want))
			return
		}
		buf := make([]byte, len(want))
		if n := x.WriteMessageBegin(buf, name, c.Type, c.Seq); n != len(want) || !bytes.Equal(buf, want) {
			v = evid.Failf("WriteMessageBegin(name %d bytes, type %d, seq %d) returned %d and wrote %s, want %d bytes %s", len(name), c.Type, c.Seq, n, hx(buf), len(want), hx(want))
			return
		}
		pre := []byte{1, 2, 3}
		ap := x.AppendMessageBegin(append([]byte(nil), pre...), name, c.Type, c.Seq)
		if !bytes.Equal(ap[:3], pre) || !bytes.Equal(ap[3:], want) {
			v = evid.Failf("AppendMessageBegin output %s differs from the header %s", hx(ap[3:]), hx(want))
			return
		}
		// a pooled stream writer that has seen a failing connection goes back to the pool first; the writer
		// obtained next (very likely the same object) serves a healthy connection and must work
		poisonBufferWriterPool()
		sink := &faultio.ScriptWriter{}
		bw := bufiox.NewDefaultWriter(sink)
		w := thrift.NewBufferWriter(bw)
		if err := w.WriteMessageBegin(name, c.Type, c.Seq); err != nil {
			v = evid.Failf("BufferWriter.WriteMessageBegin: %v", err)
			return
		}
		bw.Flush()
		w.Recycle()
		if got := sink.Bytes(); !bytes.Equal(got, want) {
			v = evid.Failf("BufferWriter.WriteMessageBegin delivered %s, want %s", hx(got), hx(want))
			return
		}
		// the bytes given to the readers
		in := append([]byte(nil), want...)
		expectOK := true
		expectBadVersion := false
		if c.Word != nil {
			in[0], in[1], in[2], in[3] = byte(*c.Word>>24), byte(*c.Word>>16), byte(*c.Word>>8), byte(*c.Word)
			if *c.Word&0xffff0000 != 0x80010000 {
				expectOK, expectBadVersion = false, true
			}
		}
		wantType := c.Type
		if c.Word != nil {
			wantType = int32(*c.Word & 0xffff)
		}
		if c.Cut >= 0 && c.Cut < len(in) {
			in = in[:c.Cut]
			expectOK = false
			if c.Cut < 4 {
				expectBadVersion = false // too short to see the version
			}
		}
		trailer := []byte{0xAB, 0xCD}
		full := in
		if expectOK {
			full = append(append([]byte(nil), in...), trailer...)
			full = append(full, bytes.Repeat([]byte{0x5A}, 24)...) // unread data behind the trailer: Release has to keep it
		}
		gn, gt, gs, l, err := x.ReadMessageBegin(full)
		sr := faultio.NewScriptReader(full, c.Plan)
		br := bufiox.NewDefaultReader(sr)
		r := thrift.NewBufferReader(br)
		sn, st, ss, err2 := r.ReadMessageBegin()
		rn := int(r.Readn())
		if sr.Calls >= 2 {
			split = true
		}
		if expectOK {
			// the returned name must be an independent value: read on, release the reader, then compare again
			if tb, e := br.Next(len(trailer)); e != nil || !bytes.Equal(tb, trailer) {
				v = evid.Failf("BufferReader.ReadMessageBegin: the bytes after the header are not the trailer (err=%v)", e)
				return
			}
			br.Release(nil)
			for i := range full {
				full[i] = 0xEE
			}
			if err != nil || gn != name || gt != wantType || gs != c.Seq || l != len(want) {
				v = evid.Failf("Binary.ReadMessageBegin: got (name %d bytes eq=%v, type %d, seq %d, len %d, err %v), want (type %d, seq %d, len %d)", len(gn), gn == name, gt, gs, l, err, wantType, c.Seq, len(want))
				return
			}
			if err2 != nil || sn != name || st != wantType || ss != c.Seq || rn != len(want) {
				v = evid.Failf("BufferReader.ReadMessageBegin (plan %+v): got (name eq=%v, type %d, seq %d, Readn %d, err %v), want (type %d, seq %d, %d bytes)", sr.Plan, sn == name, st, ss, rn, err2, wantType, c.Seq, len(want))
				return
			}
		} else {
			rejected = true
			if err == nil {
				v = evid.Failf("Binary.ReadMessageBegin accepted %s (cut %d)", hx(in), c.Cut)
				return
			}
			if err2 == nil {
				v = evid.Failf("BufferReader.ReadMessageBegin accepted %s (cut %d)", hx(in), c.Cut)
				return
			}
			if expectBadVersion {
				if !isBadVersion(err) {
					v = evid.Failf("Binary.ReadMessageBegin on first word %#x: error %v (%T) is not a protocol exception with type id BAD_VERSION", *c.Word, err, err)
					return
				}
				if !isBadVersion(err2) {
					v = evid.Failf("BufferReader.ReadMessageBegin on first word %#x: error %v (%T) is not a protocol exception with type id BAD_VERSION", *c.Word, err2, err2)
					return
				}
			}
			// the same bytes through the message unmarshaller (a third way to read a header)
			var sinkB base.Base
			_, _, err3 := thrift.UnmarshalFastMsg(append([]byte(nil), in...), &sinkB)
			if err3 == nil {
				v = evid.Failf("UnmarshalFastMsg accepted %s (cut %d)", hx(in), c.Cut)
				return
			}
			if expectBadVersion && !isBadVersion(err3) {
				v = evid.Failf("UnmarshalFastMsg on %d bytes with first word %#x: error %v (%T) is not a protocol exception with type id BAD_VERSION", len(in), *c.Word, err3, err3)
				return
			}
		}
		r.Recycle()
		if expectOK {
			// two messages with different names on one stream reader, then on a recycled reader object: the
			// names returned first must keep their value
			other := string(patternBytes(c.Name.S+1, c.Name.L))
			if c.Name.L == 0 {
				other = "x"
			}
			two := append(append([]byte(nil), refMsgHeader(name, c.Type, c.Seq)...), refMsgHeader(other, c.Type, c.Seq+1)...)
			br2 := bufiox.NewDefaultReader(faultio.NewScriptReader(two, c.Plan))
			r2 := thrift.NewBufferReader(br2)
			n1, _, _, e1 := r2.ReadMessageBegin()
			n2, _, _, e2 := r2.ReadMessageBegin()
			r2.Recycle()
			r3 := thrift.NewBufferReader(bufiox.NewBytesReader(refMsgHeader(other+"y", c.Type, 1)))
			n3, _, _, e3 := r3.ReadMessageBegin()
			r3.Recycle()
			if e1 != nil || e2 != nil || e3 != nil || n1 != name || n2 != other || n3 != other+"y" {
				v = evid.Failf("BufferReader.ReadMessageBegin: after reading further messages through the same / a recycled reader, the method names are (%q,%q,%q) errs (%v,%v,%v); want (%q,%q,%q)", n1, n2, n3, e1, e2, e3, name, other, other+"y")
				return
			}
		}
		// a payload struct without any field
		if c.Empty && c.Word == nil && c.Cut < 0 && name != "" && c.Type != thrift.EXCEPTION {
			msg, err := thrift.MarshalFastMsg(name, c.Type, c.Seq, (*base.Base)(nil))
			if err != nil || len(msg) != len(want)+1 {
				v = evid.Failf("MarshalFastMsg with an empty struct: %d bytes, err=%v; want header(%d)+1", len(msg), err, len(want))
				return
			}
			var out base.Base
			m, seq, err := thrift.UnmarshalFastMsg(msg, &out)
			if err != nil || m != name || seq != c.Seq || out.LogID != "" || out.Extra != nil {
				v = evid.Failf("UnmarshalFastMsg of a %d-byte message (method of %d bytes, payload = lone STOP) returned (method eq=%v, seq %d, err %v)", len(msg), len(name), m == name, seq, err)
				return
			}
		}
		// EXCEPTION messages built by hand (header from the reference + exception body): first one whose text
		// is read and whose body is then rejected, then bodies in which a known field is absent or has
		// another type. Each must come back as an application exception holding exactly what ITS body holds.
		if c.Type == thrift.EXCEPTION && c.Word == nil && c.Cut < 0 {
			exception = true
			var sink base.Base
			bad := append(append([]byte(nil), want...), 0x0b, 0, 1, 0, 0, 0, 9)
			bad = append(append(bad, "left-over"...), 0x08, 0, 2, 0, 0, 0, 77, 0x01, 0, 99) // a field of type 1 (VOID) cannot be skipped
			if _, _, err := thrift.UnmarshalFastMsg(bad, &sink); err == nil {
				v = evid.Failf("UnmarshalFastMsg of an EXCEPTION message whose body holds a field of type 1 returned nil")
				return
			}
			tid := c.Seq ^ 0x5a5a
			i32 := func(x int32) []byte { return []byte{byte(x >> 24), byte(x >> 16), byte(x >> 8), byte(x)} }
			bodies := []struct {
				b     []byte
				t     int32
				m     string
				about string
			}{
				{append(append([]byte{0x08, 0, 2}, i32(tid)...), 0), tid, "", "only the type field"},
				{[]byte{0}, 0, "", "no field at all"},
				{[]byte{0x0b, 0, 1, 0, 0, 0, 2, 'o', 'k', 0}, 0, "ok", "only the text field"},
				{append(append([]byte{0x08, 0, 1, 0, 0, 0, 5, 0x08, 0, 2}, i32(tid)...), 0), tid, "", "field 1 as an i32 (skipped) and the type field"},
				{append(append([]byte{0x0b, 0, 2, 0, 0, 0, 1, 'x', 0x08, 0, 2}, i32(tid)...), 0), tid, "", "field 2 once as a string (skipped) and once as i32"},
				// Thrift does not fix the order of fields: the type may precede the text, with or without
				// fields of other ids in between
				{append(append([]byte{0x08, 0, 2}, i32(tid)...), 0x0b, 0, 1, 0, 0, 0, 4, 'b', 'o', 'o', 'm', 0), tid, "boom", "the type field before the text field"},
				{append(append([]byte{0x08, 0, 2}, i32(tid)...), 0x02, 0, 9, 1, 0x0b, 0, 1, 0, 0, 0, 0, 0), tid, "", "the type field, an unknown bool, an empty text field"},
				{append(append([]byte{0x0a, 0, 7, 1, 2, 3, 4, 5, 6, 7, 8, 0x08, 0, 2}, i32(tid)...), 0x0b, 0, 1, 0, 0, 0, 1, 'z', 0x06, 0, 3, 0, 1, 0), tid, "z", "unknown i64, type, text, unknown i16"},
				{append(append([]byte{0x0b, 0, 1, 0, 0, 0, 2, 'h', 'i', 0x08, 0, 2}, i32(tid)...), 0), tid, "hi", "the text field before the type field"},
			}
			for _, bd := range bodies {
				msg := append(append([]byte(nil), want...), bd.b...)
				m, seq, err := thrift.UnmarshalFastMsg(msg, &sink)
				ae, ok := err.(*thrift.ApplicationException)
				if !ok {
					v = evid.Failf("UnmarshalFastMsg of an EXCEPTION message (method of %d bytes; body: %s) returned err=%v (%T), want *ApplicationException", len(name), bd.about, err, err)
					return
				}
				// printing the exception (any number of times) must not change what it carries
				_, _ = ae.Error(), fmt.Sprintf("%v %s", ae, ae.String())
				if ae.TypeID() != bd.t || ae.Msg() != bd.m || m != name || seq != c.Seq {
					v = evid.Failf("UnmarshalFastMsg of an EXCEPTION message (body: %s), read after an EXCEPTION message that was rejected, returned (type %d, text %q, method eq=%v, seq %d); the body holds (type %d, text %q)", bd.about, ae.TypeID(), ae.Msg(), m == name, seq, bd.t, bd.m)
					return
				}
			}
			if sink.LogID != "" || sink.Extra != nil {
				v = evid.Failf("UnmarshalFastMsg(EXCEPTION) modified the caller's struct")
				return
			}
		}
		// marshal / unmarshal of whole messages
		if c.Payload != nil && c.Word == nil && c.Cut < 0 {
			pm := c.Payload.model()
			px := newFC(c.Payload.Kind, &pm)
			msg, err := thrift.MarshalFastMsg(name, c.Type, c.Seq, px)
			if err != nil && name == "" {
				// the convenience function refuses an empty method name (not part of the statement); the envelope
				// itself can carry it: build the message from the reference header and the marshalled payload
				msg, err = append(append([]byte(nil), want...), thrift.FastMarshal(px)...), nil
			}
			if err != nil {
				v = evid.Failf("MarshalFastMsg: %v", err)
				return
			}
			if !bytes.HasPrefix(msg, want) || len(msg) != len(want)+px.BLength() {
				v = evid.Failf("MarshalFastMsg output (%d bytes) is not header(%d)+payload(%d)", len(msg), len(want), px.BLength())
				return
			}
			py := newFC(c.Payload.Kind, nil)
			before := readBack(c.Payload.Kind, py)
			m, seq, err := thrift.UnmarshalFastMsg(msg, py)
			if c.Type == thrift.EXCEPTION {
				exception = true
				if c.Payload.Kind != 2 {
					return // an EXCEPTION message whose payload is not an application exception is outside the statement
				}
				var ae *thrift.ApplicationException
				if err == nil || !errors.As(err, &ae) {
					v = evid.Failf("UnmarshalFastMsg of an EXCEPTION message returned err=%v (%T), want *ApplicationException", err, err)
					return
				}
				if _, ok := err.(*thrift.ApplicationException); !ok {
					v = evid.Failf("UnmarshalFastMsg of an EXCEPTION message returned %T, want *ApplicationException", err)
					return
				}
				if ae.TypeID() != pm.i32 || ae.Msg() != pm.s[0] {
					v = evid.Failf("UnmarshalFastMsg exception carries (type %d, %d-byte text), original (type %d, %d-byte text)", ae.TypeID(), len(ae.Msg()), pm.i32, len(pm.s[0]))
					return
				}
				if m != name || seq != c.Seq {
					v = evid.Failf("UnmarshalFastMsg(EXCEPTION) returned method eq=%v seq=%d", m == name, seq)
					return
				}
				after := readBack(c.Payload.Kind, py)
				if d := eqModel(c.Payload.Kind, &after, &before); d != "" {
					v = evid.Failf("UnmarshalFastMsg(EXCEPTION) modified the caller's struct: %s", d)
					return
				}
				// the exception that is sent may also be a protocol exception: built directly, or wrapping the
				// error of a failed read (what a server has in hand when decoding the request failed)
				mkPEs := func() []*thrift.ProtocolException {
					return []*thrift.ProtocolException{
						thrift.NewProtocolException(pm.i32, pm.s[0]),
						thrift.NewProtocolExceptionWithErr(errors.New(pm.s[0])),
						thrift.NewProtocolExceptionWithErr(fmt.Errorf("read request: %w", io.ErrUnexpectedEOF)),
					}
				}
				twins := mkPEs() // asked for their type and text; the ones that are sent are not touched before
				for k, pe := range mkPEs() {
					wantT, wantM := twins[k].TypeID(), twins[k].Msg()
					if name == "" {
						break
					}
					msg2, err := thrift.MarshalFastMsg(name, thrift.EXCEPTION, c.Seq, pe)
					if err != nil {
						v = evid.Failf("MarshalFastMsg of a protocol exception (variant %d): %v", k, err)
						return
					}
					var sink thrift.ApplicationException
					_, _, err = thrift.UnmarshalFastMsg(msg2, &sink)
					var got *thrift.ApplicationException
					if err == nil || !errors.As(err, &got) {
						v = evid.Failf("UnmarshalFastMsg of an EXCEPTION message carrying a protocol exception (variant %d) returned err=%v", k, err)
						return
					}
					if got.TypeID() != wantT || got.Msg() != wantM {
						v = evid.Failf("an EXCEPTION message marshalled from a protocol exception (variant %d: type %d, text %q) arrives as (type %d, text %q)", k, wantT, wantM, got.TypeID(), got.Msg())
						return
					}
				}
				return
			}
			if err != nil || m != name || seq != c.Seq {
				v = evid.Failf("UnmarshalFastMsg(MarshalFastMsg(...)) returned (method eq=%v, seq %d, err %v), want seq %d", m == name, seq, err, c.Seq)
				return
			}
			got := readBack(c.Payload.Kind, py)
			if d := eqModel(c.Payload.Kind, &got, &pm); d != "" {
				v = evid.Failf("UnmarshalFastMsg payload differs: %s", d)
				return
			}
		}
	}
	if p, st := evid.Safe(body); p != nil {
		return &evid.Violation{Msg: fmt.Sprintf("panic: %v", p), Stack: st}
	}
	if v != nil {
		return v
	}
	cv.nontrivial = (c.Name.L > 0 && split) || rejected || exception
	cv.labelIf(split, "split_stream_read")
	cv.labelIf(rejected, "rejected")
	cv.labelIf(exception, "exception_branch")
	cv.labelIf(c.Word != nil, "first_word_override")
	cv.labelIf(c.Cut >= 0, "cut")
	cv.labelIf(c.Payload != nil, "with_payload")
	return nil
}

func init() { register("c12_message", checkMsg) }

func genMsgCase(t *rapid.T) MsgCase {
	c := MsgCase{Cut: -1}
	c.Name = PStr{L: rapid.OneOf(rapid.IntRange(0, 300), rapid.IntRange(0, 12), rapid.SampledFrom([]int{0, 4096, 70000})).Draw(t, "nameLen"), S: rapid.Byte().Draw(t, "nameSeed")}
	c.Type = rapid.OneOf(rapid.Int32Range(0, 65535), rapid.SampledFrom([]int32{0, 1, 2, 3, 4, 3, 65535})).Draw(t, "type")
	c.Seq = rapid.OneOf(rapid.Int32(), rapid.SampledFrom([]int32{0, 1, -1, 0x7fffffff, -0x80000000})).Draw(t, "seq")
	switch rapid.IntRange(0, 5).Draw(t, "mode") {
	case 0:
		w := rapid.OneOf(rapid.Uint32(), rapid.SampledFrom([]uint32{0, 0x80000000, 0x80010000, 0x80020000, 0x00010000, 0x80010001, 0x7fff0000, 0xffff0000, 0x8001ffff, 0x80000001})).Draw(t, "word")
		c.Word = &w
		if rapid.Bool().Draw(t, "wordAndCut") {
			// a header that is both cut short and lacks the marker: once the first word is there, it is bad-version
			c.Cut = rapid.OneOf(rapid.IntRange(4, 8), rapid.IntRange(4, 11+c.Name.L)).Draw(t, "cutw")
		}
	case 1:
		hl := 12 + c.Name.L
		c.Cut = rapid.IntRange(0, hl-1).Draw(t, "cut")
	case 4:
		c.Empty = true
		c.Name.L = rapid.IntRange(1, 6).Draw(t, "shortName")
	case 2, 3:
		p := genFCCase(t)
		p.Gaps, p.Perm, p.Trailer = nil, nil, nil
		c.Payload = &p
		if rapid.Bool().Draw(t, "exc") {
			c.Type = thrift.EXCEPTION
			if rapid.IntRange(0, 3).Draw(t, "excKind") > 0 {
				c.Payload.Kind = 2
			}
		}
	}
	c.Plan = genPlan(t, 0)
	c.Plan.ErrAt = -1
	return c
}

func TestC12_Random(t *testing.T) {
	rec := evid.New("C12", "c12_random", "rapid: method names of 0..300/4096/70000 arbitrary bytes, message types 0..65535, any sequence id; the three header writers vs the reference bytes and MessageBeginLength; both readers (stream reader under generated fragmentation) must return the same name/type/seq and the exact length; first word replaced by arbitrary/boundary values (must fail as BAD_VERSION unless the upper half is 0x8001); every strict prefix must fail (as BAD_VERSION when at least the first word is there and lacks the marker, also through UnmarshalFastMsg); MarshalFastMsg/UnmarshalFastMsg round trip with Base/BaseResp/ApplicationException payloads incl. the EXCEPTION branch and the empty-method error; non-trivial = non-empty name with a split stream read, a rejected header, or the EXCEPTION branch")
	defer rec.Flush()
	runRapid(t, rec, "c12_message", evid.Pick(30000, 300000), genMsgCase, checkMsg)
}

func TestC12_Sweeps(t *testing.T) {
	rec := evid.New("C12", "c12_sweeps", "enumeration: all 65536 message types (3 names), all 65536 upper halves of the first word x lower halves {0x0001, 0xffff}, every cut point of headers with names of 0..40 bytes; distinct by construction")
	defer rec.Flush()
	var failed bool
	lock := make(chan struct{}, 1)
	run := func(c MsgCase, b *evid.Batch) {
		if failed {
			return
		}
		var cv cov
		v := checkMsg(c, &cv)
		b.Evals++
		b.Distinct++
		if cv.nontrivial {
			b.Nontrivial++
		}
		for _, l := range cv.labels {
			b.Labels[l]++
		}
		if v != nil {
			lock <- struct{}{}
			if !failed {
				failed = true
				failEnum(t, rec, "c12_message", c, v)
			}
			<-lock
		}
	}
	plans := []faultio.Plan{{Chunks: []int{1}, ErrAt: -1}, {Chunks: []int{0}, ErrAt: -1, WithData: true}, {Chunks: []int{5, 2}, Zeros: []int{1}, ErrAt: -1}}
	parallelFor(65536, func(i int, b *evid.Batch) {
		run(MsgCase{Name: PStr{L: i % 3 * 7, S: byte(i)}, Type: int32(i), Seq: int32(i) * 40503, Cut: -1, Plan: plans[i%3]}, b)
		for _, lo := range []uint32{1, 0xffff} {
			w := uint32(i)<<16 | lo
			run(MsgCase{Name: PStr{L: 3, S: 1}, Type: 1, Seq: 9, Word: &w, Cut: -1, Plan: plans[(i+1)%3]}, b)
		}
	}, rec)
	bt := evid.NewBatch()
	for nl := 0; nl <= 40; nl++ {
		for cut := 0; cut < 12+nl; cut++ {
			run(MsgCase{Name: PStr{L: nl, S: 7}, Type: 2, Seq: -5, Cut: cut, Plan: plans[cut%3]}, bt)
		}
	}
	rec.Merge(bt)
	w := uint32(0x80020001)
	rec.Sample(MsgCase{Name: PStr{L: 3, S: 1}, Type: 1, Seq: 9, Word: &w, Cut: -1, Plan: plans[0]})
	rec.Sample(MsgCase{Name: PStr{L: 14, S: 7}, Type: 2, Seq: -5, Cut: 17, Plan: plans[2]})
	rec.SetExhaustive()
}

// poisonBufferWriterPool runs a BufferWriter over a bufiox writer whose sink has failed and recycles it.
func poisonBufferWriterPool() {
	fs := &faultio.ScriptWriter{FailAt: 1}
	fw := bufiox.NewDefaultWriter(fs)
	pw := thrift.NewBufferWriter(fw)
	_ = pw.WriteI32(1)
	_ = fw.Flush() // fails; the bufiox writer keeps the error
	_ = pw.WriteMessageBegin("x", 1, 1)
	_ = pw.WriteString("y")
	pw.Recycle()
}

// TestC12_ManyNames: tens of millions of distinct method names of equal length decoded one after the other
// by both readers; each must come back exactly. (A lossy cache keyed on a digest of the name shows up as a
// wrong name once two of them collide.)
func TestC12_ManyNames(t *testing.T) {
	rec := evid.New("C12", "c12_many_names", "stream of distinct 14- and 9-byte method names (counter-valued) decoded one after the other by Binary.ReadMessageBegin (all) and BufferReader.ReadMessageBegin over a bytes reader (every 8th); every name, type and sequence id compared, and every name compared once more after its header buffer has been rewritten for the next message; distinct by construction; non-trivial = all")
	defer rec.Flush()
	n := evid.Pick(50_000_000, 150_000_000)
	shard, _ := evid.Shard()
	hdr := refMsgHeader("GetItem0000000", 1, 0)
	hdr2 := refMsgHeader("m00000000", 2, 0)
	digits := func(b []byte, x int) {
		for i := len(b) - 1; i >= 0; i-- {
			b[i] = byte('0' + x%10)
			x /= 10
		}
	}
	x := thrift.Binary
	b := evid.NewBatch()
	var prevName, prevStream string
	var prevWant [16]byte
	prevLen := 0
	for i := 0; i < n; i++ {
		h := hdr
		nameLen := 14
		if i%4 == 3 {
			h = hdr2
			nameLen = 9
		}
		name := h[8 : 8+nameLen]
		// a bijective mix of the counter, so that consecutive names look unrelated
		z := (uint64(i) + uint64(shard)<<40) * 0x9E3779B97F4A7C15
		if nameLen == 14 {
			for j := 0; j < 14; j++ {
				name[j] = byte('a' + z%26)
				z /= 26
			}
		} else {
			digits(name[1:], i%100_000_000)
			name[0] = byte('a' + shard%26)
		}
		// the names decoded in the previous round came out of these same (now rewritten) header buffers:
		// they must still read as they did
		if i > 0 && (prevName != string(prevWant[:prevLen]) || (prevStream != "" && prevStream != string(prevWant[:prevLen]))) {
			failEnum(t, rec, "c12_name_sequence", NameSeqCase{Names: []evid.Hex{[]byte(prevName), append([]byte(nil), prevWant[:prevLen]...)}}, evid.Failf("name #%d was decoded as %q; after its header buffer was reused for the next message the retained name reads %q (Binary) / %q (BufferReader)", i-1, prevWant[:prevLen], prevName, prevStream))
			break
		}
		gn, _, _, l, err := x.ReadMessageBegin(h)
		prevName, prevStream, prevLen = gn, "", copy(prevWant[:], name)
		if err != nil || l != len(h) || gn != string(name) {
			failEnum(t, rec, "c12_name_sequence", NameSeqCase{Names: []evid.Hex{[]byte(gn), append([]byte(nil), name...)}}, evid.Failf("Binary.ReadMessageBegin: name #%d decoded as %q, the header carries %q (err %v)", i, gn, name, err))
			break
		}
		if i%8 == 0 {
			r := thrift.NewBufferReader(bufiox.NewBytesReader(h))
			sn, _, _, err := r.ReadMessageBegin()
			r.Recycle()
			prevStream = sn
			if err != nil || sn != string(name) {
				failEnum(t, rec, "c12_name_sequence", NameSeqCase{Names: []evid.Hex{[]byte(sn), append([]byte(nil), name...)}}, evid.Failf("BufferReader.ReadMessageBegin: name #%d decoded as %q, the header carries %q (err %v)", i, sn, name, err))
				break
			}
		}
		b.Evals++
	}
	b.Distinct, b.Nontrivial = b.Evals, b.Evals
	rec.Merge(b)
	rec.Sample(map[string]interface{}{"names": n, "example": "GetItem0001234", "length": 14})
}

// NameSeqCase: method names decoded one after the other in one process (replay form of TestC12_ManyNames).
type NameSeqCase struct {
	Names []evid.Hex `json:"names"`
}

func checkNameSeq(c NameSeqCase, cv *cov) *evid.Violation {
	for round := 0; round < 2; round++ {
		for i, n := range c.Names {
			h := refMsgHeader(string(n), 1, int32(i))
			gn, _, _, _, err := thrift.Binary.ReadMessageBegin(h)
			r := thrift.NewBufferReader(bufiox.NewBytesReader(h))
			sn, _, _, err2 := r.ReadMessageBegin()
			r.Recycle()
			if err != nil || err2 != nil || gn != string(n) || sn != string(n) {
				return evid.Failf("name %d of the sequence: the header carries %q, Binary.ReadMessageBegin returned %q (%v), BufferReader.ReadMessageBegin %q (%v)", i, n, gn, err, sn, err2)
			}
		}
	}
	cv.nontrivial = len(c.Names) >= 2
	return nil
}

func init() { register("c12_name_sequence", checkNameSeq) }
