package props

import (
	"fmt"
	"testing"
	"unsafe"

	"github.com/cloudwego/gopkg/protocol/thrift"
	"github.com/cloudwego/gopkg/protocol/thrift/base"
	"github.com/cloudwego/gopkg/verifharness/evid"
	"github.com/cloudwego/gopkg/verifharness/ref"
	"pgregory.net/rapid"
)

// Placement of the input in memory is not part of any property: the buffer-based functions are
// functions of the bytes they are given. The checks in this file hand the same bytes to the function
// once from the heap and once from an array that lives in a goroutine's stack frame, on a goroutine
// whose stack has to grow while the function recurses (Go moves the stack, and with it the input).
// Oracle: the reference grammar for well-formed input, and agreement with the heap-resident call for
// every input.

// StackSkipCase is one input for the stack-placement check.
type StackSkipCase struct {
	T    int8     `json:"t"`
	Data evid.Hex `json:"data"`
	Burn int      `json:"burn"` // stack frames (about 512 bytes each) consumed before the call; -1 = try every count 0..burnMax
	Fn   int      `json:"fn"`   // 0 thrift.Binary.Skip, 1 base.Base FastRead, 2 ApplicationException FastRead
	Op   string   `json:"op,omitempty"`
}

type stackOut struct {
	n     int
	err   error
	moved bool
	pan   interface{}
}

func (o stackOut) String() string {
	if o.pan != nil {
		return fmt.Sprintf("panic(%v)", o.pan)
	}
	return fmt.Sprintf("(%d, %v)", o.n, o.err)
}

func callBuf(fn int, b []byte, t int8) (int, error) {
	switch fn {
	case 1:
		var x base.Base
		return x.FastRead(b)
	case 2:
		var x thrift.ApplicationException
		return x.FastRead(b)
	}
	return thrift.Binary.Skip(b, thrift.TType(t))
}

// The array sizes are compile-time constants so that the arrays are stack allocated.
//
//go:noinline
func stackCall128(fn int, enc []byte, t int8) (n int, err error, moved bool) {
	var a [128]byte
	k := copy(a[:], enc)
	before := uintptr(unsafe.Pointer(&a[0]))
	n, err = callBuf(fn, a[:k], t)
	return n, err, uintptr(unsafe.Pointer(&a[0])) != before
}

//go:noinline
func stackCall512(fn int, enc []byte, t int8) (n int, err error, moved bool) {
	var a [512]byte
	k := copy(a[:], enc)
	before := uintptr(unsafe.Pointer(&a[0]))
	n, err = callBuf(fn, a[:k], t)
	return n, err, uintptr(unsafe.Pointer(&a[0])) != before
}

//go:noinline
func stackCall2048(fn int, enc []byte, t int8) (n int, err error, moved bool) {
	var a [2048]byte
	k := copy(a[:], enc)
	before := uintptr(unsafe.Pointer(&a[0]))
	n, err = callBuf(fn, a[:k], t)
	return n, err, uintptr(unsafe.Pointer(&a[0])) != before
}

//go:noinline
func stackCall8192(fn int, enc []byte, t int8) (n int, err error, moved bool) {
	var a [8192]byte
	k := copy(a[:], enc)
	before := uintptr(unsafe.Pointer(&a[0]))
	n, err = callBuf(fn, a[:k], t)
	return n, err, uintptr(unsafe.Pointer(&a[0])) != before
}

//go:noinline
func burnStack(k int, f func()) byte {
	var pad [480]byte
	pad[k&255] = byte(k)
	if k <= 0 {
		f()
		return pad[0]
	}
	r := burnStack(k-1, f)
	return r + pad[k&255]
}

const stackMax = 8192
const burnMax = 130

// runOnStack runs the case on fresh goroutines. With Burn == -1 every frame count 0..burnMax is tried
// (wherever the stack-growth thresholds of this process are, some count puts one inside the call) and
// the first result that differs from want is returned, else the last one that saw the stack move.
func runOnStack(c StackSkipCase, same func(stackOut) bool) stackOut {
	if c.Burn >= 0 {
		return runOnStack1(c)
	}
	var last stackOut
	for k := 0; k <= burnMax; k++ {
		c.Burn = k
		o := runOnStack1(c)
		if !same(o) {
			return o
		}
		if o.moved || k == 0 {
			last = o
		}
	}
	return last
}

func runOnStack1(c StackSkipCase) stackOut {
	ch := make(chan stackOut, 1)
	go func() { // a fresh goroutine starts with a small stack
		var o stackOut
		defer func() {
			if r := recover(); r != nil {
				o.pan = r
			}
			ch <- o
		}()
		burnStack(c.Burn, func() {
			switch {
			case len(c.Data) <= 128:
				o.n, o.err, o.moved = stackCall128(c.Fn, c.Data, c.T)
			case len(c.Data) <= 512:
				o.n, o.err, o.moved = stackCall512(c.Fn, c.Data, c.T)
			case len(c.Data) <= 2048:
				o.n, o.err, o.moved = stackCall2048(c.Fn, c.Data, c.T)
			default:
				o.n, o.err, o.moved = stackCall8192(c.Fn, c.Data, c.T)
			}
		})
	}()
	return <-ch
}

func errClass(err error) string {
	if err == nil {
		return "nil"
	}
	if pe, ok := err.(interface{ TypeId() int32 }); ok {
		return fmt.Sprintf("type %d", pe.TypeId())
	}
	if pe, ok := err.(interface{ TypeID() int32 }); ok {
		return fmt.Sprintf("type %d", pe.TypeID())
	}
	return "other"
}

func checkStackPlacement(c StackSkipCase, cv *cov) *evid.Violation {
	if len(c.Data) == 0 || len(c.Data) > stackMax {
		return nil
	}
	var heap stackOut
	hb := append(make([]byte, 0, len(c.Data)), c.Data...)
	if p, _ := evid.Safe(func() { heap.n, heap.err = callBuf(c.Fn, hb, c.T) }); p != nil {
		heap.pan = p
	}
	st := runOnStack(c, func(o stackOut) bool {
		return o.pan == nil && (o.err == nil) == (heap.err == nil) && (o.err != nil || o.n == heap.n) && errClass(o.err) == errClass(heap.err)
	})
	cv.nontrivial = st.moved
	cv.labelIf(st.moved, "stack moved while the function ran")
	cv.labelIf(!st.moved, "stack did not move")
	cv.label(fmt.Sprintf("fn=%d", c.Fn))
	cv.labelIf(heap.err != nil, "input rejected")
	cv.labelIf(heap.err == nil, "input accepted")
	if st.pan != nil {
		return evid.Failf("fn %d on a stack-resident input panicked: %v (heap-resident: %v)", c.Fn, st.pan, heap)
	}
	if st.err == nil && (st.n < 0 || st.n > len(c.Data)) {
		return evid.Failf("fn %d on a stack-resident input of %d bytes reports success with length %d", c.Fn, len(c.Data), st.n)
	}
	if c.Fn == 0 {
		r := ref.Walk(c.Data, c.T)
		if r.Class == ref.OK && r.MaxLevel <= 63 {
			cv.label("well-formed, level<=63")
			if st.err != nil || st.n != r.N {
				return evid.Failf("Binary.Skip(type %d) on a well-formed value of %d bytes (nesting level %d) held in a stack array: got %v, want (%d, nil); the same bytes on the heap give %v; stack moved during the call: %v", c.T, r.N, r.MaxLevel, st, r.N, heap, st.moved)
			}
		}
	}
	if heap.pan != nil {
		return nil // reported by C03 on heap inputs
	}
	if (st.err == nil) != (heap.err == nil) || (st.err == nil && st.n != heap.n) || errClass(st.err) != errClass(heap.err) {
		return evid.Failf("fn %d gives different results for the same %d bytes (type %d): stack-resident %v, heap-resident %v; stack moved during the call: %v", c.Fn, len(c.Data), c.T, st, heap, st.moved)
	}
	return nil
}

func init() { register("stack_placement", checkStackPlacement) }

func genStackSkip(mutated bool) func(t *rapid.T) StackSkipCase {
	return func(t *rapid.T) StackSkipCase {
		var v ref.Value
		if rapid.IntRange(0, 3).Draw(t, "shape") > 0 {
			v = genNest(t, rapid.IntRange(8, 63).Draw(t, "depth"))
		} else {
			v = genValue(t, 0, rapid.IntRange(0, 4).Draw(t, "vdepth"), false, false)
		}
		enc, marks := ref.Encode(&v)
		c := StackSkipCase{T: v.T, Data: enc, Burn: -1}
		if mutated {
			c.Data, c.Op = mutate(t, enc, marks)
		}
		if len(c.Data) > stackMax {
			c.Data = c.Data[:stackMax]
		}
		return c
	}
}

// genStackStruct wraps a deep value as an unknown field of a shipped struct.
func genStackStruct(t *rapid.T) StackSkipCase {
	v := genNest(t, rapid.IntRange(8, 62).Draw(t, "depth"))
	s := ref.Value{T: ref.STRUCT, Fields: []ref.Field{{ID: int16(rapid.IntRange(20, 300).Draw(t, "fid")), V: v}}}
	enc, _ := ref.Encode(&s)
	c := StackSkipCase{T: ref.STRUCT, Data: enc, Burn: -1, Fn: rapid.IntRange(1, 2).Draw(t, "fn")}
	if len(c.Data) > stackMax {
		c.Data = c.Data[:stackMax]
	}
	return c
}

const stackRule = "rapid: nested values (chains of 8..63 containers, mixed kinds, 3 of 4 cases) and general values, held in a fixed-size array in the frame of a fresh goroutine after k dummy frames of about 512 bytes for every k in 0..130, so that the goroutine's stack has to grow (and move, taking the input with it) while the function recurses; oracle = reference grammar for well-formed input and equality with the call on a heap copy of the same bytes; non-trivial = the array's address changed during the call"

func TestC02_StackResident(t *testing.T) {
	rec := evid.New("C02", "c02_stack_resident", stackRule+"; well-formed values only, thrift.Binary.Skip and the shipped FastRead structs with the value as an unknown field")
	defer rec.Flush()
	runRapid(t, rec, "stack_placement", evid.Pick(1500, 15000), genStackSkip(false), checkStackPlacement)
	runRapid(t, rec, "stack_placement", evid.Pick(500, 5000), genStackStruct, checkStackPlacement)
}

func TestC08_StackResident(t *testing.T) {
	rec := evid.New("C08", "c08_stack_resident", stackRule+"; one malformation operator applied (cut, tag, size, byte, bit flip, append, splice)")
	defer rec.Flush()
	runRapid(t, rec, "stack_placement", evid.Pick(1500, 15000), genStackSkip(true), checkStackPlacement)
}

func TestC03_StackResident(t *testing.T) {
	rec := evid.New("C03", "c03_stack_resident", stackRule+"; mutated encodings and arbitrary type bytes; asserted here: no panic, reported length within the input, same verdict as on the heap")
	defer rec.Flush()
	runRapid(t, rec, "stack_placement", evid.Pick(1000, 10000), func(t *rapid.T) StackSkipCase {
		c := genStackSkip(true)(t)
		c.Fn = rapid.IntRange(0, 2).Draw(t, "fn")
		if c.Fn == 0 && rapid.IntRange(0, 3).Draw(t, "anyT") == 0 {
			c.T = int8(rapid.Byte().Draw(t, "tbyte"))
		}
		return c
	}, checkStackPlacement)
}

// ---- strings of almost 2 GiB that are really there (C02; also what C03 says about lengths) ------------------------------------------

// HugeStrCase: a string of N bytes (N up to 2^31-1, the largest size the format can declare) that is really
// present - in the 4 GiB no-reserve mapping, of which only the pages holding the length prefix and the byte
// behind the string are touched - is skipped as a value, as a struct field and as an unknown field of the
// shipped structs. Nothing copies the string.
type HugeStrCase struct {
	N int64 `json:"n"`
}

func checkHugeStr(c HugeStrCase, cv *cov) (v *evid.Violation) {
	if c.N < 1<<20 || c.N > 1<<31-1 {
		return nil
	}
	m := hugeMapping()
	if m == nil {
		cv.label("huge mapping unavailable")
		return nil
	}
	n := int(c.N)
	body := func() {
		// [0b 00 09][len][n bytes][00][trailer]
		buf := m[:3+4+n+1+5]
		saved := [8]byte{}
		copy(saved[:], buf[:7])
		defer func() {
			copy(buf[:7], saved[:7])
			buf[7+n] = 0
		}()
		buf[0], buf[1], buf[2] = 0x0b, 0, 9
		buf[3], buf[4], buf[5], buf[6] = byte(n>>24), byte(n>>16), byte(n>>8), byte(n)
		buf[7+n] = 0
		str := buf[3 : 7+n+3] // the string value followed by 3 more bytes
		if got, err := thrift.Binary.Skip(str, thrift.STRING); err != nil || got != 4+n {
			v = evid.Failf("Binary.Skip(STRING) on a string of %d bytes that is present (followed by 3 more bytes) returned (%d, %v), want (%d, nil)", n, got, err, 4+n)
			return
		}
		d := thrift.NewBytesSkipDecoder(str)
		out, err := d.Next(thrift.STRING)
		d.Release()
		if err != nil || len(out) != 4+n {
			v = evid.Failf("BytesSkipDecoder.Next(STRING) on a string of %d bytes returned (%d bytes, %v), want %d bytes", n, len(out), err, 4+n)
			return
		}
		st := buf[:3+4+n+1+5]
		if got, err := thrift.Binary.Skip(st, thrift.STRUCT); err != nil || got != 3+4+n+1 {
			v = evid.Failf("Binary.Skip(STRUCT) on a struct whose only field is a string of %d bytes returned (%d, %v), want (%d, nil)", n, got, err, 3+4+n+1)
			return
		}
		var ae thrift.ApplicationException
		if got, err := ae.FastRead(st); err != nil || got != 3+4+n+1 {
			v = evid.Failf("ApplicationException.FastRead on a struct whose only (unknown) field is a string of %d bytes returned (%d, %v), want (%d, nil)", n, got, err, 3+4+n+1)
			return
		}
		var bs base.Base
		if got, err := bs.FastRead(st); err != nil || got != 3+4+n+1 {
			v = evid.Failf("Base.FastRead on a struct whose only (unknown) field is a string of %d bytes returned (%d, %v), want (%d, nil)", n, got, err, 3+4+n+1)
			return
		}
	}
	if p, st := safeFault(body); p != nil {
		return &evid.Violation{Msg: fmt.Sprintf("panic on a present string of %d bytes: %v", n, p), Stack: st}
	}
	cv.nontrivial = true
	return v
}

func init() { register("c02_huge_string", checkHugeStr) }

// (registered under C02: the C03 process runs under an address-space limit that does not admit the mapping)
func TestC02_HugeString(t *testing.T) {
	rec := evid.New("C02", "c02_huge_string", "enumeration: strings of N in {2^24+1, 2^30, 2^31-9 .. 2^31-1} bytes that are really present (4 GiB no-reserve mapping; only the pages with the length prefix and the byte behind the string are touched) skipped by Binary.Skip as a value (followed by more bytes), as the only field of a struct, by BytesSkipDecoder, and as an unknown field by ApplicationException.FastRead and Base.FastRead: the exact length, no panic, no access outside the slice; every N is one evaluation")
	defer rec.Flush()
	if hugeMapping() == nil {
		rec.Assume("the 4 GiB no-reserve mapping could not be created in this environment; the check did not run")
		return
	}
	b := evid.NewBatch()
	ns := []int64{1<<24 + 1, 1 << 30}
	for d := int64(9); d >= 1; d-- {
		ns = append(ns, 1<<31-d)
	}
	for _, n := range ns {
		c := HugeStrCase{N: n}
		var cv cov
		v := checkHugeStr(c, &cv)
		b.Evals++
		b.Distinct++
		b.Nontrivial++
		if v != nil {
			failEnum(t, rec, "c02_huge_string", c, v)
			break
		}
	}
	rec.Merge(b)
	rec.SetExhaustive()
}
