package props

import (
	"errors"
	"fmt"
	"io"
	"reflect"
	"testing"

	"github.com/cloudwego/gopkg/protocol/thrift"
	"github.com/cloudwego/gopkg/verifharness/evid"
	"pgregory.net/rapid"
)

// ---- C18: exception helpers preserve kind, type id and cause ----------------------------------------

// ErrStep is one construction step of an error chain; the first step is the leaf.
type ErrStep struct {
	Op     string   `json:"op"` // leaves: plain eof transport protocol application foreign; wrappers: wrapf pewrap prepend
	TypeID int32    `json:"typeid,omitempty"`
	Msg    evid.Hex `json:"msg,omitempty"` // message of a leaf, or prefix of wrapf/prepend
}

// ErrChainCase: two chains; every node of both is used as an errors.Is target against every node.
type ErrChainCase struct {
	A     []ErrStep `json:"a"`
	B     []ErrStep `json:"b,omitempty"`
	Fresh []ErrStep `json:"fresh,omitempty"` // extra fresh leaf targets
	FR    evid.Hex  `json:"fr,omitempty"`    // bytes later decoded (FastRead) into every protocol exception that wraps a cause
	// Poison: before anything else PrependError is called with an error value whose Error method panics (a nil
	// pointer of a type that dereferences itself); the panic reaches the caller, and the calls that follow must
	// not see anything of that call
	Poison bool `json:"poison,omitempty"`
}

// derefErr panics in Error() when it is a nil pointer.
type derefErr struct{ msg string }

func (e *derefErr) Error() string { return e.msg }

// multiErr is an error of an uncomparable dynamic type (as produced by error-list helpers).
type multiErr []error

func (m multiErr) Error() string {
	s := "multi:"
	for _, e := range m {
		s += e.Error()
	}
	return s
}

// fmtErr is a plain error that also formats itself (as errors with stack traces do): what fmt verbs print for it
// is not its Error() text.
type fmtErr struct{ msg string }

func (e *fmtErr) Error() string { return e.msg }
func (e *fmtErr) Format(f fmt.State, c rune) {
	fmt.Fprintf(f, "FORMATTED<%s>+stack", e.msg)
}
func (e *fmtErr) String() string   { return "STRINGER<" + e.msg + ">" }
func (e *fmtErr) GoString() string { return "GOSTRING<" + e.msg + ">" }

// sameErr is identity of error values that also works for uncomparable dynamic types.
func sameErr(a, b error) bool {
	if a == nil || b == nil {
		return a == nil && b == nil
	}
	ta, tb := reflect.TypeOf(a), reflect.TypeOf(b)
	if ta != tb {
		return false
	}
	if ta.Comparable() {
		return a == b
	}
	va, vb := reflect.ValueOf(a), reflect.ValueOf(b)
	return va.Kind() == reflect.Slice && va.Len() == vb.Len() && va.Pointer() == vb.Pointer()
}

func comparableErr(e error) bool { return e != nil && reflect.TypeOf(e).Comparable() }

type foreignErr struct {
	id  int32
	msg string
}

func (f *foreignErr) Error() string { return f.msg }
func (f *foreignErr) TypeId() int32 { return f.id }

// embTransport / embApp are user-defined error types that embed a library exception (and so expose its
// type id) but are not library exceptions themselves; their text is their own.
type embTransport struct {
	*thrift.TransportException
	note string
}

func (e *embTransport) Error() string { return "outer(" + e.note + ")" }

type embApp struct {
	thrift.ApplicationException
	note string
}

func (e *embApp) Error() string { return "outer(" + e.note + ")" }

const (
	kPlain = iota
	kTransport
	kProtocol
	kApplication
	kForeign
)

var kindName = []string{"plain", "transport", "protocol", "application", "foreign"}

// enode is the model of one error value.
type enode struct {
	err    error
	kind   int
	typeID int32
	msg    string // stored message for exceptions (protocol: what Is compares with)
	cause  *enode // protocol exception built by pewrap, or wrapf
	wrapf  bool
	step   int
}

type typeIDer interface {
	Error() string
	TypeId() int32
}

func dynKind(e error) int {
	switch e.(type) {
	case *thrift.TransportException:
		return kTransport
	case *thrift.ProtocolException:
		return kProtocol
	case *thrift.ApplicationException:
		return kApplication
	}
	if _, ok := e.(typeIDer); ok {
		return kForeign
	}
	return kPlain
}

// modelIs mirrors errors.Is over the model chain with the protocol-exception matching rule.
func modelIs(n *enode, target error) bool {
	for n != nil {
		if comparableErr(target) && n.err == target { // errors.Is compares only comparable targets
			return true
		}
		if n.kind == kProtocol {
			if t, ok := target.(typeIDer); ok && t.TypeId() == n.typeID && t.Error() == n.msg {
				return true
			}
		}
		if n.kind == kProtocol || n.wrapf {
			n = n.cause
			continue
		}
		return false
	}
	return false
}

// isKnownF1 is the recorded open finding F1: PrependError("", foreign error with empty text).
func isKnownF1(prefix string, e error) bool {
	return prefix == "" && dynKind(e) == kForeign && e.Error() == ""
}

// buildChain constructs the chain and checks every PrependError / NewProtocolExceptionWithErr step.
func buildChain(steps []ErrStep, nodes *[]*enode, excludedF1 *int) (*enode, *evid.Violation) {
	var cur *enode
	for i, s := range steps {
		msg := string(s.Msg)
		if i == 0 {
			n := &enode{step: i}
			switch s.Op {
			case "eof":
				n.err, n.kind = io.EOF, kPlain
			case "transport":
				n.err, n.kind, n.typeID, n.msg = thrift.NewTransportException(s.TypeID, msg), kTransport, s.TypeID, msg
			case "protocol":
				n.err, n.kind, n.typeID, n.msg = thrift.NewProtocolException(s.TypeID, msg), kProtocol, s.TypeID, msg
			case "application":
				n.err, n.kind, n.typeID, n.msg = thrift.NewApplicationException(s.TypeID, msg), kApplication, s.TypeID, msg
			case "foreign":
				n.err, n.kind, n.typeID, n.msg = &foreignErr{s.TypeID, msg}, kForeign, s.TypeID, msg
			case "emb_transport":
				n.err, n.kind, n.typeID, n.msg = &embTransport{thrift.NewTransportException(s.TypeID, "inner "+msg), msg}, kForeign, s.TypeID, "outer("+msg+")"
			case "emb_app":
				n.err, n.kind, n.typeID, n.msg = &embApp{*thrift.NewApplicationException(s.TypeID, "inner "+msg), msg}, kForeign, s.TypeID, "outer("+msg+")"
			case "uncmp":
				n.err, n.kind = multiErr{errors.New(msg), io.EOF}, kPlain
			case "fmt_plain":
				n.err, n.kind = &fmtErr{msg}, kPlain
			default:
				n.err, n.kind = errors.New(msg), kPlain
			}
			cur = n
			*nodes = append(*nodes, n)
			continue
		}
		if cur == nil {
			return nil, nil
		}
		switch s.Op {
		case "wrapf":
			n := &enode{err: fmt.Errorf("%s: %w", msg, cur.err), kind: kPlain, cause: cur, wrapf: true, step: i}
			cur = n
		case "wrapsame": // a wrapper whose text equals the text of what it wraps
			n := &enode{err: fmt.Errorf("%w", cur.err), kind: kPlain, cause: cur, wrapf: true, step: i}
			cur = n
		case "pewrap":
			res := thrift.NewProtocolExceptionWithErr(cur.err)
			if dynKind(cur.err) == kProtocol {
				if error(res) != cur.err {
					return nil, evid.Failf("step %d: NewProtocolExceptionWithErr of a *ProtocolException must be the identity", i)
				}
				continue
			}
			if res == nil {
				return nil, evid.Failf("step %d: NewProtocolExceptionWithErr returned nil", i)
			}
			if u := errors.Unwrap(res); !sameErr(u, cur.err) {
				return nil, evid.Failf("step %d: errors.Unwrap(NewProtocolExceptionWithErr(e)) is %v, want e itself (%v)", i, u, cur.err)
			}
			n := &enode{err: res, kind: kProtocol, typeID: res.TypeId(), msg: res.Msg(), cause: cur, step: i}
			// the cause and everything in its chain must stay reachable
			for c := cur; c != nil; c = c.cause {
				if comparableErr(c.err) && !errors.Is(res, c.err) {
					return nil, evid.Failf("step %d: errors.Is(NewProtocolExceptionWithErr(e), x) is false for x = %q in e's chain", i, c.err)
				}
			}
			cur = n
		case "prepend":
			if isKnownF1(msg, cur.err) {
				*excludedF1++
				return nil, nil // excluded class (recorded open finding F1); counted
			}
			res := thrift.PrependError(msg, cur.err)
			if res == nil {
				return nil, evid.Failf("step %d: PrependError returned nil", i)
			}
			wantKind := dynKind(cur.err)
			if wantKind == kForeign {
				wantKind = kApplication
			}
			if gk := dynKind(res); gk != wantKind {
				return nil, evid.Failf("step %d: PrependError(%q, %s exception %T) returned %T (%s), want kind %s", i, msg, kindName[dynKind(cur.err)], cur.err, res, kindName[gk], kindName[wantKind])
			}
			wantText := msg + cur.err.Error()
			if res.Error() != wantText {
				return nil, evid.Failf("step %d: PrependError(%q, %T %q).Error() = %q, want prefix followed by the original text %q", i, msg, cur.err, cur.err.Error(), res.Error(), wantText)
			}
			// the result is a new error: reusing the original exception as a decode receiver later must not
			// change what was returned
			if ae, ok := cur.err.(*thrift.ApplicationException); ok {
				savedT, savedM := ae.TypeID(), ae.Msg()
				scratch := thrift.NewApplicationException(savedT+1, savedM+"~")
				img := make([]byte, scratch.BLength())
				scratch.FastWrite(img)
				ae.FastRead(img)
				textAfter := res.Error()
				rest := thrift.NewApplicationException(savedT, savedM)
				img2 := make([]byte, rest.BLength())
				rest.FastWrite(img2)
				ae.FastRead(img2) // put the original back
				if textAfter != wantText {
					return nil, evid.Failf("step %d: the error returned by PrependError(%q, application exception) changed to %q when the original exception was reused as a decode receiver", i, msg, textAfter)
				}
			}
			n := &enode{err: res, kind: wantKind, step: i}
			if wantKind != kPlain {
				ti, ok := res.(typeIDer)
				orig := cur.err.(typeIDer)
				if !ok || ti.TypeId() != orig.TypeId() {
					return nil, evid.Failf("step %d: PrependError changed the type id from %d to %v", i, orig.TypeId(), res)
				}
				n.typeID = ti.TypeId()
				n.msg = wantText
				if pe, ok := res.(*thrift.ProtocolException); ok {
					n.msg = pe.Msg()
				}
			}
			cur = n
		default:
			continue
		}
		*nodes = append(*nodes, cur)
	}
	return cur, nil
}

func checkErrChain(c ErrChainCase, cv *cov) (v *evid.Violation) {
	if len(c.A) == 0 {
		return nil
	}
	excluded := 0
	var depth, kinds int
	body := func() {
		if c.Poison {
			var np *derefErr
			if p, _ := evid.Safe(func() { _ = thrift.PrependError("left over from a call that panicked: ", np) }); p == nil {
				cv.label("prepend_of_nil_pointer_error_did_not_panic")
			}
		}
		var nodes []*enode
		rootA, viol := buildChain(c.A, &nodes, &excluded)
		if viol != nil {
			v = viol
			return
		}
		if rootA == nil {
			return
		}
		na := len(nodes)
		if len(c.B) > 0 {
			if _, viol := buildChain(c.B, &nodes, &excluded); viol != nil {
				v = viol
				return
			}
		}
		// targets: every node, fresh leaves, and exceptions built to (mis)match protocol nodes
		var targets []error
		for _, n := range nodes {
			targets = append(targets, n.err)
		}
		for _, s := range c.Fresh {
			var tmp []*enode
			if n, _ := buildChain([]ErrStep{s}, &tmp, &excluded); n != nil {
				targets = append(targets, n.err)
			}
		}
		for _, n := range nodes {
			if n.kind == kProtocol {
				targets = append(targets,
					thrift.NewProtocolException(n.typeID, n.msg), thrift.NewApplicationException(n.typeID, n.msg), thrift.NewTransportException(n.typeID, n.msg),
					&foreignErr{n.typeID, n.msg}, &foreignErr{n.typeID + 1, n.msg}, &foreignErr{n.typeID, n.msg + "x"},
					thrift.NewProtocolException(n.typeID+1, n.msg), thrift.NewApplicationException(n.typeID, n.msg+" "), errors.New(n.msg),
					// errors that are not exceptions themselves but wrap a look-alike: the exception rule applies to the
					// target itself, not to what it wraps
					fmt.Errorf("wrapped: %w", &foreignErr{n.typeID, n.msg}), fmt.Errorf("%w", thrift.NewApplicationException(n.typeID, n.msg)), multiErr{&foreignErr{n.typeID, n.msg}},
					// exceptions without a message: their text is the default text for the type id
					thrift.NewApplicationException(n.typeID, ""), thrift.NewTransportException(n.typeID, ""), thrift.NewProtocolException(n.typeID, ""))
			}
		}
		for _, n := range nodes {
			for ti, tg := range targets {
				got := errors.Is(n.err, tg)
				want := modelIs(n, tg)
				if got != want {
					v = evid.Failf("errors.Is(node built at step %d (%s %T %q), target %d (%T %q)) = %v, the rule says %v", n.step, kindName[n.kind], n.err, n.err.Error(), ti, tg, tg.Error(), got, want)
					return
				}
			}
			// errors.As must find a protocol exception exactly when the model chain holds one
			var pe *thrift.ProtocolException
			hasPE := false
			for m := n; m != nil; m = m.cause {
				if m.kind == kProtocol {
					hasPE = true
				}
				if !(m.kind == kProtocol || m.wrapf) {
					break
				}
			}
			if errors.As(n.err, &pe) != hasPE {
				v = evid.Failf("errors.As(node at step %d, *ProtocolException) = %v, the chain says %v", n.step, !hasPE, hasPE)
				return
			}
		}
		// decoding into a protocol exception that wraps a cause (it is a FastCodec receiver through its
		// embedded application exception) must leave the cause reachable, whether the decode succeeds or not
		for _, n := range nodes {
			pe, ok := n.err.(*thrift.ProtocolException)
			if !ok || n.kind != kProtocol || n.cause == nil {
				continue
			}
			for _, img := range [][]byte{c.FR, nil} {
				_, ferr := pe.FastRead(img)
				if u := errors.Unwrap(pe); !sameErr(u, n.cause.err) {
					v = evid.Failf("after FastRead of %d bytes (err=%v) into a protocol exception built by NewProtocolExceptionWithErr(e), errors.Unwrap returns %v instead of e (%v)", len(img), ferr, u, n.cause.err)
					return
				}
				if comparableErr(n.cause.err) && !errors.Is(pe, n.cause.err) {
					v = evid.Failf("after FastRead of %d bytes (err=%v) into a protocol exception built by NewProtocolExceptionWithErr(e), errors.Is(pe, e) is false", len(img), ferr)
					return
				}
			}
		}
		depth = na
		seen := map[int]bool{}
		for _, n := range nodes[:na] {
			seen[n.kind] = true
		}
		kinds = len(seen)
	}
	if p, st := evid.Safe(body); p != nil {
		return &evid.Violation{Msg: fmt.Sprintf("panic: %v", p), Stack: st}
	}
	if v != nil {
		return v
	}
	cv.nontrivial = depth >= 2 && kinds >= 2
	cv.labelIf(excluded > 0, "excluded_known_F1")
	cv.label(fmt.Sprintf("depth_%d", depth))
	for _, s := range c.A {
		cv.label("op_" + s.Op)
	}
	return nil
}

func init() { register("c18_err_chain", checkErrChain) }

var namedCodes = []int32{0, 1, 2, 3, 4, 5, 6, 7, 8, 9, 10, 11, -1, 0x7fffffff, -0x80000000}

func genErrStep(t *rapid.T, leaf bool) ErrStep {
	var s ErrStep
	if leaf {
		s.Op = rapid.SampledFrom([]string{"plain", "eof", "transport", "protocol", "protocol", "application", "foreign", "foreign", "uncmp", "emb_transport", "emb_app", "fmt_plain"}).Draw(t, "leaf")
	} else {
		s.Op = rapid.SampledFrom([]string{"wrapf", "wrapsame", "pewrap", "pewrap", "pewrap", "prepend", "prepend", "prepend"}).Draw(t, "wrap")
	}
	s.TypeID = rapid.OneOf(rapid.SampledFrom(namedCodes), rapid.Int32()).Draw(t, "typeid")
	switch rapid.IntRange(0, 5).Draw(t, "msgKind") {
	case 5: // texts that imitate the default text of an exception without a message, with a different numeral
		id := int64(s.TypeID)
		s.Msg = []byte(rapid.SampledFrom([]string{
			fmt.Sprintf("unknown exception type [%d]", id), fmt.Sprintf("unknown exception type [%d]", id+1<<32), fmt.Sprintf("unknown exception type [%d]", id-1<<32),
			fmt.Sprintf("unknown exception type [+%d]", id), fmt.Sprintf("unknown exception type [0%d]", id), fmt.Sprintf("unknown exception type [%d] ", id),
		}).Draw(t, "fmtMsg"))
	case 0:
		s.Msg = nil
	case 1:
		s.Msg = rapid.SliceOfN(rapid.Byte(), 1, 6).Draw(t, "msg")
	default:
		s.Msg = []byte(rapid.SampledFrom([]string{"x", "read error: ", "buffer too short", "unknown application exception", "negative size", "é", "%s%d"}).Draw(t, "msg"))
	}
	return s
}

func genErrChain(t *rapid.T, maxDepth int) []ErrStep {
	n := rapid.IntRange(1, maxDepth).Draw(t, "depth")
	steps := []ErrStep{genErrStep(t, true)}
	for i := 1; i < n; i++ {
		steps = append(steps, genErrStep(t, false))
	}
	return steps
}

func genErrChainCase(t *rapid.T) ErrChainCase {
	c := genErrChainCase0(t)
	c.Poison = rapid.IntRange(0, 3).Draw(t, "poison") == 0
	return c
}

func genErrChainCase0(t *rapid.T) ErrChainCase {
	c := ErrChainCase{A: genErrChain(t, 5)}
	if rapid.Bool().Draw(t, "second") {
		c.B = genErrChain(t, 3)
	}
	for i := rapid.IntRange(0, 2).Draw(t, "nfresh"); i > 0; i-- {
		c.Fresh = append(c.Fresh, genErrStep(t, true))
	}
	switch rapid.IntRange(0, 3).Draw(t, "frKind") {
	case 0:
		ae := thrift.NewApplicationException(rapid.Int32().Draw(t, "frType"), rapid.SampledFrom([]string{"", "m", "other text"}).Draw(t, "frMsg"))
		img := make([]byte, ae.BLength())
		ae.FastWrite(img)
		c.FR = img[:rapid.IntRange(0, len(img)).Draw(t, "frCut")]
	case 1:
		c.FR = rapid.SliceOfN(rapid.Byte(), 0, 12).Draw(t, "frRaw")
	case 2:
		c.FR = []byte{0x0b, 0x00, 0x01, 0xff, 0xff, 0xff, 0xff} // negative string size
	}
	return c
}

// knownF1Case is the recorded input of the open finding F1.
func checkF1(c ErrChainCase, cv *cov) *evid.Violation {
	// replays the excluded class directly, without the exclusion
	if len(c.A) != 2 || c.A[0].Op != "foreign" || c.A[1].Op != "prepend" {
		return nil
	}
	e := &foreignErr{c.A[0].TypeID, string(c.A[0].Msg)}
	prefix := string(c.A[1].Msg)
	res := thrift.PrependError(prefix, e)
	if want := prefix + e.Error(); res.Error() != want {
		return evid.Failf("PrependError(%q, foreign exception with type id %d and text %q).Error() = %q, want the prefix followed by the original text %q", prefix, e.id, e.msg, res.Error(), want)
	}
	return nil
}

func init() { register("c18_prepend_f1", checkF1) }

func TestC18_Random(t *testing.T) {
	rec := evid.New("C18", "c18_random", "rapid: error chains of depth 1..5 from a grammar (leaves: errors.New, io.EOF, a plain error with its own fmt.Formatter/Stringer, transport/protocol/application exceptions and a foreign type exposing TypeId, with any int32 type id incl. the named codes and empty/non-UTF-8/format-like texts; wrappers: fmt.Errorf %w, NewProtocolExceptionWithErr, PrependError with any prefix), a second chain and fresh leaves as errors.Is targets, plus exceptions built to have equal/unequal (type id, text) for every protocol node; oracle = kind table, type id, text = prefix+original, Unwrap identity, and a model of errors.Is; the class (empty prefix, foreign error with empty text) is excluded as known finding F1 and counted; non-trivial = chain of depth >= 2 mixing >= 2 kinds")
	defer rec.Flush()
	runRapid(t, rec, "c18_err_chain", evid.Pick(150000, 1500000), genErrChainCase, checkErrChain)
}

func TestC18_Table(t *testing.T) {
	rec := evid.New("C18", "c18_table", "enumeration: every leaf kind x 15 type ids x 4 texts x every wrapper sequence of length <= 2 over {wrapf, pewrap, prepend('' / 'p: ')}; distinct by construction")
	defer rec.Flush()
	b := evid.NewBatch()
	leaves := []string{"plain", "eof", "transport", "protocol", "application", "foreign"}
	texts := []string{"", "m", "unknown application exception", "\xff\x00"}
	wraps := []ErrStep{{Op: "wrapf", Msg: []byte("w")}, {Op: "wrapsame"}, {Op: "pewrap"}, {Op: "prepend"}, {Op: "prepend", Msg: []byte("p: ")}}
	var seqs [][]ErrStep
	seqs = append(seqs, nil)
	for _, w1 := range wraps {
		seqs = append(seqs, []ErrStep{w1})
		for _, w2 := range wraps {
			seqs = append(seqs, []ErrStep{w1, w2})
			if w1.Op == "pewrap" {
				seqs = append(seqs, []ErrStep{w1, w2, {Op: "pewrap"}})
			}
		}
	}
	for _, lf := range leaves {
		for _, id := range namedCodes {
			for _, tx := range texts {
				for _, sq := range seqs {
					c := ErrChainCase{A: append([]ErrStep{{Op: lf, TypeID: id, Msg: []byte(tx)}}, sq...), B: []ErrStep{{Op: "protocol", TypeID: id, Msg: []byte(tx)}}}
					var cv cov
					if v := checkErrChain(c, &cv); v != nil {
						failEnum(t, rec, "c18_err_chain", c, v)
						rec.Merge(b)
						return
					}
					b.Evals++
					b.Distinct++
					if cv.nontrivial {
						b.Nontrivial++
					}
					for _, l := range cv.labels {
						b.Labels[l]++
					}
				}
			}
		}
	}
	rec.Merge(b)
	rec.Sample(ErrChainCase{A: []ErrStep{{Op: "foreign", TypeID: 7, Msg: []byte("m")}, {Op: "prepend", Msg: []byte("p: ")}, {Op: "pewrap"}}})
	rec.SetExhaustive()
}
