package props

import (
	"bytes"
	"errors"
	"fmt"
	"testing"

	"pgregory.net/rapid"

	"github.com/cloudwego/gopkg/bufiox"
	"github.com/cloudwego/gopkg/protocol/thrift"
	"github.com/cloudwego/gopkg/protocol/thrift/base"
	uf "github.com/cloudwego/gopkg/protocol/thrift/unknownfields"
	"github.com/cloudwego/gopkg/verifharness/evid"
	"github.com/cloudwego/gopkg/verifharness/faultio"
)

// C16 on ONE stream reader: a connection carries many messages, and consecutive messages usually name the same
// method and carry equal strings. Every name and value that one BufferReader returns during its life must be an
// independent copy - also the 2nd, 3rd, n-th time the same content arrives.

// ConnItem: Kind 0 = message header whose method name is vocabulary word W, 1 = string, 2 = binary (content word W).
type ConnItem struct {
	Kind int `json:"kind"`
	W    int `json:"w"`
}

type ConnCase struct {
	Items  []ConnItem   `json:"items"`
	Stream bool         `json:"stream"` // DefaultReader over a fragmenting source instead of a bytes reader
	Plan   faultio.Plan `json:"plan"`
	Rel    int          `json:"rel,omitempty"` // Release the buffered reader after every Rel-th item (0 = never)
	Span   bool         `json:"span,omitempty"`
}

func connWord(w int) []byte {
	w = ((w % 6) + 6) % 6
	l := []int{0, 3, 14, 40, 130, 5000}[w]
	return patternBytes(byte(0x30+w), l)
}

func checkConn(c ConnCase, cv *cov) (v *evid.Violation) {
	if len(c.Items) == 0 || len(c.Items) > 60 {
		return nil
	}
	var stream []byte
	for i, it := range c.Items {
		w := connWord(it.W)
		switch it.Kind {
		case 0:
			stream = append(stream, refMsgHeader(string(w), 1, int32(i))...)
		default:
			stream = append(ref32(stream, len(w)), w...)
		}
	}
	type kept struct {
		s    string
		b    []byte
		isB  bool
		want []byte
		i    int
	}
	var ks []kept
	repeats := 0
	body := func() {
		thrift.SetSpanCache(c.Span)
		defer thrift.SetSpanCache(false)
		in := append([]byte(nil), stream...)
		var rd bufiox.Reader
		if c.Stream {
			p := c.Plan
			p.ErrAt = -1
			p.Recover = false
			rd = bufiox.NewDefaultReader(faultio.NewScriptReader(in, p))
		} else {
			rd = bufiox.NewBytesReader(in)
		}
		r := thrift.NewBufferReader(rd)
		last := map[int]int{0: -1, 1: -1, 2: -1}
		for i, it := range c.Items {
			k := kept{want: connWord(it.W), i: i}
			var err error
			switch it.Kind {
			case 0:
				var seq int32
				k.s, _, seq, err = r.ReadMessageBegin()
				if err == nil && seq != int32(i) {
					v = evid.Failf("item %d: sequence id %d", i, seq)
					return
				}
			case 1:
				k.s, err = r.ReadString()
			default:
				k.b, err = r.ReadBinary()
				k.isB = true
			}
			if err != nil {
				v = evid.Failf("item %d (kind %d, %d bytes): %v", i, it.Kind, len(k.want), err)
				return
			}
			kk := it.Kind
			if kk > 1 {
				kk = 2
			}
			if last[kk] == ((it.W%6)+6)%6 && len(k.want) > 0 {
				repeats++
			}
			last[kk] = ((it.W % 6) + 6) % 6
			ks = append(ks, k)
			if c.Rel > 0 && (i+1)%c.Rel == 0 {
				rd.Release(releaseArg(i))
			}
		}
		// the connection is done: give everything back, reuse the input memory, modify returned slices
		r.Recycle()
		rd.Release(nil)
		for i := range in {
			in[i] = 0xEE
		}
		for i := range ks {
			got := []byte(ks[i].s)
			if ks[i].isB {
				got = ks[i].b
			}
			if !bytes.Equal(got, ks[i].want) {
				what := []string{"method name", "string", "binary"}[c.Items[ks[i].i].Kind%3]
				v = evid.Failf("%s %d of %d read through one BufferReader (%d bytes) changed after the reader was released and the input memory reused: first difference at %d (items with the same content as the previous one of their kind: %d)", what, ks[i].i, len(ks), len(ks[i].want), firstDiff(got, ks[i].want), repeats)
				return
			}
			if ks[i].isB {
				for j := range ks[i].b {
					ks[i].b[j] ^= 0xff
				}
				ks[i].b = append(ks[i].b, 0xAA, 0xBB)
			}
		}
		for i := range ks {
			if !ks[i].isB && string(ks[i].want) != ks[i].s {
				v = evid.Failf("string %d changed after returned byte slices were modified and appended to", ks[i].i)
				return
			}
		}
	}
	if p, st := evid.Safe(body); p != nil {
		return &evid.Violation{Msg: fmt.Sprintf("panic: %v", p), Stack: st}
	}
	cv.nontrivial = repeats > 0
	cv.labelIf(repeats > 0, "same_content_twice_in_a_row")
	cv.labelIf(c.Stream, "stream_reader")
	cv.labelIf(c.Span, "span_cache_on")
	return v
}

func ref32(b []byte, n int) []byte {
	return append(b, byte(n>>24), byte(n>>16), byte(n>>8), byte(n))
}

func init() { register("c16_connection", checkConn) }

func TestC16_Connection(t *testing.T) {
	rec := evid.New("C16", "c16_connection", "rapid: 1..40 items (message headers, strings, binaries) whose method names / contents come from a 6-word vocabulary (0, 3, 14, 40, 130, 5000 bytes), so that the same name or value often arrives twice in a row, all read through ONE BufferReader over a bytes reader or over a stream reader with generated fragmentation, optional Release (nil / non-nil argument) every k items, span cache on or off; afterwards the reader is recycled and released, the input memory overwritten, returned slices modified and appended to: every retained name and value must still hold its bytes; non-trivial = some content arrived twice in a row")
	defer rec.Flush()
	rec.Assume("the span-cache switch is flipped between (sequential) cases only")
	runRapid(t, rec, "c16_connection", evid.Pick(1500, 12000), func(t *rapid.T) ConnCase {
		c := ConnCase{Stream: rapid.Bool().Draw(t, "stream"), Span: rapid.Bool().Draw(t, "span"), Rel: rapid.SampledFrom([]int{0, 0, 1, 3}).Draw(t, "rel")}
		n := rapid.IntRange(1, 40).Draw(t, "n")
		for i := 0; i < n; i++ {
			c.Items = append(c.Items, ConnItem{Kind: rapid.SampledFrom([]int{0, 0, 0, 1, 2}).Draw(t, "kind"), W: rapid.SampledFrom([]int{1, 1, 2, 2, 2, 3, 4, 5, 0}).Draw(t, "w")})
		}
		if c.Stream {
			c.Plan = genPlan(t, 20000)
		}
		return c
	}, checkConn)
}

// ---- the span-cache switch must not change any result, failures included ----------------------------------

func TestC16_SpanErrors(t *testing.T) {
	rec := evid.New("C16", "c16_span_errors", "enumeration: every strict prefix and three negative-size variants of five valid encodings (an empty, a 1-byte, a 9-byte and a 300-byte string, a message header, an ApplicationException body, a Base body with a map) given to Binary.ReadString, Binary.ReadBinary, Binary.ReadMessageBegin, ApplicationException.FastRead, Base.FastRead and ConvertUnknownFields with the span cache off and on: value (for byte slices also whether it is nil), consumed length, error text and exception type id must be identical under both settings; every (entry point, input) is one evaluation; distinct by construction")
	defer rec.Flush()
	rec.Assume("the span-cache switch is flipped between (sequential) calls only")
	defer thrift.SetSpanCache(false)
	str := func(n int) []byte { return append(ref32(nil, n), patternBytes(7, n)...) }
	aeBody := append(append([]byte{0x0b, 0, 1}, str(200)...), 0x08, 0, 2, 0, 0, 0, 6, 0)
	baseBody := append(append(append([]byte{0x0b, 0, 1}, str(150)...), 0x0d, 0, 6, 0x0b, 0x0b, 0, 0, 0, 1), append(str(130), str(140)...)...)
	baseBody = append(baseBody, 0)
	valids := [][]byte{str(0), str(1), str(9), str(300), refMsgHeader(string(patternBytes(3, 140)), 1, 5), aeBody, baseBody}
	type result struct {
		val  string
		n    int
		etxt string
		tid  int32
	}
	describe := func(val string, n int, err error) result {
		r := result{val: val, n: n, tid: -1}
		if err != nil {
			r.etxt = err.Error()
			var te interface{ TypeId() int32 }
			if errors.As(err, &te) {
				r.tid = te.TypeId()
			}
		}
		return r
	}
	entries := []struct {
		name string
		f    func(b []byte) result
	}{
		{"Binary.ReadString", func(b []byte) result { s, n, e := thrift.Binary.ReadString(b); return describe(s, n, e) }},
		{"Binary.ReadBinary", func(b []byte) result {
			s, n, e := thrift.Binary.ReadBinary(b)
			// whether an empty result is nil or an empty non-nil slice is part of the result
			return describe(fmt.Sprintf("nil=%v cap>len=%v|", s == nil, false)+string(s), n, e)
		}},
		{"Binary.ReadMessageBegin", func(b []byte) result {
			s, _, _, n, e := thrift.Binary.ReadMessageBegin(b)
			return describe(s, n, e)
		}},
		{"ApplicationException.FastRead", func(b []byte) result {
			var ae thrift.ApplicationException
			n, e := ae.FastRead(b)
			return describe(ae.Msg(), n, e)
		}},
		{"Base.FastRead", func(b []byte) result {
			var bs base.Base
			n, e := bs.FastRead(b)
			return describe(bs.LogID+"|"+fmt.Sprint(len(bs.Extra)), n, e)
		}},
		{"ConvertUnknownFields", func(b []byte) result {
			fs, e := uf.ConvertUnknownFields(b)
			return describe(fmt.Sprint(len(fs)), 0, e)
		}},
	}
	bt := evid.NewBatch()
	for vi, valid := range valids {
		var inputs [][]byte
		for cut := 0; cut <= len(valid); cut++ {
			inputs = append(inputs, valid[:cut:cut])
		}
		for _, at := range []int{0, 3, 7} {
			if at+4 <= len(valid) {
				neg := append([]byte(nil), valid...)
				neg[at], neg[at+1], neg[at+2], neg[at+3] = 0xff, 0xff, 0xff, 0xff
				inputs = append(inputs, neg)
			}
		}
		for _, ep := range entries {
			for ii, in := range inputs {
				var off, on result
				p, st := evid.Safe(func() {
					thrift.SetSpanCache(false)
					off = ep.f(append([]byte(nil), in...))
					thrift.SetSpanCache(true)
					on = ep.f(append([]byte(nil), in...))
					thrift.SetSpanCache(false)
				})
				bt.Evals++
				bt.Distinct++
				if off.etxt != "" {
					bt.Nontrivial++
				}
				var viol *evid.Violation
				if p != nil {
					viol = &evid.Violation{Msg: fmt.Sprintf("%s panicked: %v", ep.name, p), Stack: st}
				} else if off != on {
					viol = evid.Failf("%s on input %d of encoding %d (%d bytes): with the span cache off the result is (value of %d bytes, n=%d, error %q, type id %d), with it on (value of %d bytes, n=%d, error %q, type id %d)", ep.name, ii, vi, len(in), len(off.val), off.n, off.etxt, off.tid, len(on.val), on.n, on.etxt, on.tid)
				}
				if viol != nil {
					failEnum(t, rec, "c16_span_errors", struct {
						Entry string   `json:"entry"`
						In    evid.Hex `json:"in"`
					}{ep.name, in}, viol)
					rec.Merge(bt)
					return
				}
			}
		}
	}
	rec.Merge(bt)
	rec.SetExhaustive()
}

func init() {
	register("c16_span_errors", func(c struct {
		Entry string   `json:"entry"`
		In    evid.Hex `json:"in"`
	}, cv *cov) *evid.Violation {
		defer thrift.SetSpanCache(false)
		in := []byte(c.In)
		run := func(on bool) (string, string) {
			thrift.SetSpanCache(on)
			b := append([]byte(nil), in...)
			switch c.Entry {
			case "Binary.ReadString":
				s, _, e := thrift.Binary.ReadString(b)
				return s, fmt.Sprint(e)
			case "Binary.ReadBinary":
				s, _, e := thrift.Binary.ReadBinary(b)
				return fmt.Sprintf("nil=%v|", s == nil) + string(s), fmt.Sprint(e)
			case "Binary.ReadMessageBegin":
				s, _, _, _, e := thrift.Binary.ReadMessageBegin(b)
				return s, fmt.Sprint(e)
			case "ApplicationException.FastRead":
				var ae thrift.ApplicationException
				_, e := ae.FastRead(b)
				return ae.Msg(), fmt.Sprint(e)
			case "Base.FastRead":
				var bs base.Base
				_, e := bs.FastRead(b)
				return bs.LogID, fmt.Sprint(e)
			default:
				fs, e := uf.ConvertUnknownFields(b)
				return fmt.Sprint(len(fs)), fmt.Sprint(e)
			}
		}
		v0, e0 := run(false)
		v1, e1 := run(true)
		cv.nontrivial = true
		if v0 != v1 || e0 != e1 {
			return evid.Failf("%s: span cache off gives (%d-byte value, %q), on gives (%d-byte value, %q)", c.Entry, len(v0), e0, len(v1), e1)
		}
		return nil
	})
}
