package props

import (
	"bytes"
	"fmt"
	"testing"

	"pgregory.net/rapid"

	"github.com/cloudwego/gopkg/bufiox"
	"github.com/cloudwego/gopkg/protocol/thrift"
	"github.com/cloudwego/gopkg/verifharness/evid"
	"github.com/cloudwego/gopkg/verifharness/faultio"
)

// C16 on ONE stream reader: a connection carries many messages, and consecutive messages usually name the same
// method and carry equal strings. Every name and value that one BufferReader returns during its life must be an
// independent copy - also the 2nd, 3rd, n-th time the same content arrives.

// ConnItem: Kind 0 = message header whose method name is vocabulary word W, 1 = string, 2 = binary (content word W).
type ConnItem struct {
	Kind int `json:"kind"`
	W    int `json:"w"`
}

type ConnCase struct {
	Items  []ConnItem   `json:"items"`
	Stream bool         `json:"stream"` // DefaultReader over a fragmenting source instead of a bytes reader
	Plan   faultio.Plan `json:"plan"`
	Rel    int          `json:"rel,omitempty"` // Release the buffered reader after every Rel-th item (0 = never)
	Span   bool         `json:"span,omitempty"`
}

func connWord(w int) []byte {
	w = ((w % 6) + 6) % 6
	l := []int{0, 3, 14, 40, 130, 5000}[w]
	return patternBytes(byte(0x30+w), l)
}

func checkConn(c ConnCase, cv *cov) (v *evid.Violation) {
	if len(c.Items) == 0 || len(c.Items) > 60 {
		return nil
	}
	var stream []byte
	for i, it := range c.Items {
		w := connWord(it.W)
		switch it.Kind {
		case 0:
			stream = append(stream, refMsgHeader(string(w), 1, int32(i))...)
		default:
			stream = append(ref32(stream, len(w)), w...)
		}
	}
	type kept struct {
		s    string
		b    []byte
		isB  bool
		want []byte
		i    int
	}
	var ks []kept
	repeats := 0
	body := func() {
		thrift.SetSpanCache(c.Span)
		defer thrift.SetSpanCache(false)
		in := append([]byte(nil), stream...)
		var rd bufiox.Reader
		if c.Stream {
			p := c.Plan
			p.ErrAt = -1
			p.Recover = false
			rd = bufiox.NewDefaultReader(faultio.NewScriptReader(in, p))
		} else {
			rd = bufiox.NewBytesReader(in)
		}
		r := thrift.NewBufferReader(rd)
		last := map[int]int{0: -1, 1: -1, 2: -1}
		for i, it := range c.Items {
			k := kept{want: connWord(it.W), i: i}
			var err error
			switch it.Kind {
			case 0:
				var seq int32
				k.s, _, seq, err = r.ReadMessageBegin()
				if err == nil && seq != int32(i) {
					v = evid.Failf("item %d: sequence id %d", i, seq)
					return
				}
			case 1:
				k.s, err = r.ReadString()
			default:
				k.b, err = r.ReadBinary()
				k.isB = true
			}
			if err != nil {
				v = evid.Failf("item %d (kind %d, %d bytes): %v", i, it.Kind, len(k.want), err)
				return
			}
			kk := it.Kind
			if kk > 1 {
				kk = 2
			}
			if last[kk] == ((it.W%6)+6)%6 && len(k.want) > 0 {
				repeats++
			}
			last[kk] = ((it.W % 6) + 6) % 6
			ks = append(ks, k)
			if c.Rel > 0 && (i+1)%c.Rel == 0 {
				rd.Release(releaseArg(i))
			}
		}
		// the connection is done: give everything back, reuse the input memory, modify returned slices
		r.Recycle()
		rd.Release(nil)
		for i := range in {
			in[i] = 0xEE
		}
		for i := range ks {
			got := []byte(ks[i].s)
			if ks[i].isB {
				got = ks[i].b
			}
			if !bytes.Equal(got, ks[i].want) {
				what := []string{"method name", "string", "binary"}[c.Items[ks[i].i].Kind%3]
				v = evid.Failf("%s %d of %d read through one BufferReader (%d bytes) changed after the reader was released and the input memory reused: first difference at %d (items with the same content as the previous one of their kind: %d)", what, ks[i].i, len(ks), len(ks[i].want), firstDiff(got, ks[i].want), repeats)
				return
			}
			if ks[i].isB {
				for j := range ks[i].b {
					ks[i].b[j] ^= 0xff
				}
				ks[i].b = append(ks[i].b, 0xAA, 0xBB)
			}
		}
		for i := range ks {
			if !ks[i].isB && string(ks[i].want) != ks[i].s {
				v = evid.Failf("string %d changed after returned byte slices were modified and appended to", ks[i].i)
				return
			}
		}
	}
	if p, st := evid.Safe(body); p != nil {
		return &evid.Violation{Msg: fmt.Sprintf("panic: %v", p), Stack: st}
	}
	cv.nontrivial = repeats > 0
	cv.labelIf(repeats > 0, "same_content_twice_in_a_row")
	cv.labelIf(c.Stream, "stream_reader")
	cv.labelIf(c.Span, "span_cache_on")
	return v
}

func ref32(b []byte, n int) []byte {
	return append(b, byte(n>>24), byte(n>>16), byte(n>>8), byte(n))
}

func init() { register("c16_connection", checkConn) }

func TestC16_Connection(t *testing.T) {
	rec := evid.New("C16", "c16_connection", "rapid: 1..40 items (message headers, strings, binaries) whose method names / contents come from a 6-word vocabulary (0, 3, 14, 40, 130, 5000 bytes), so that the same name or value often arrives twice in a row, all read through ONE BufferReader over a bytes reader or over a stream reader with generated fragmentation, optional Release (nil / non-nil argument) every k items, span cache on or off; afterwards the reader is recycled and released, the input memory overwritten, returned slices modified and appended to: every retained name and value must still hold its bytes; non-trivial = some content arrived twice in a row")
	defer rec.Flush()
	rec.Assume("the span-cache switch is flipped between (sequential) cases only")
	runRapid(t, rec, "c16_connection", evid.Pick(1500, 12000), func(t *rapid.T) ConnCase {
		c := ConnCase{Stream: rapid.Bool().Draw(t, "stream"), Span: rapid.Bool().Draw(t, "span"), Rel: rapid.SampledFrom([]int{0, 0, 1, 3}).Draw(t, "rel")}
		n := rapid.IntRange(1, 40).Draw(t, "n")
		for i := 0; i < n; i++ {
			c.Items = append(c.Items, ConnItem{Kind: rapid.SampledFrom([]int{0, 0, 0, 1, 2}).Draw(t, "kind"), W: rapid.SampledFrom([]int{1, 1, 2, 2, 2, 3, 4, 5, 0}).Draw(t, "w")})
		}
		if c.Stream {
			c.Plan = genPlan(t, 20000)
		}
		return c
	}, checkConn)
}
