package props

import (
	"bytes"
	"fmt"
	"testing"

	"github.com/cloudwego/gopkg/protocol/thrift"
	"github.com/cloudwego/gopkg/protocol/thrift/base"
	"github.com/cloudwego/gopkg/verifharness/evid"
	"github.com/cloudwego/gopkg/verifharness/ref"
	"pgregory.net/rapid"
)

// ---- C11: shipped FastCodec structs -----------------------------------------------------------------

type KVP struct {
	K PStr `json:"k"`
	V PStr `json:"v"`
}

// FCCase describes a value of one of the shipped structs and a reference-built wire image of it.
type FCCase struct {
	Kind     int        `json:"kind"` // 0 Base, 1 BaseResp, 2 ApplicationException
	S        [3]PStr    `json:"s"`    // Base: LogID, Caller, Addr; BaseResp: StatusMessage; AppEx: message
	I32      int32      `json:"i32"`  // BaseResp.StatusCode / exception type id
	ExtraNil bool       `json:"extra_nil,omitempty"`
	Extra    []KVP      `json:"extra,omitempty"`
	NilRecv  bool       `json:"nil_recv,omitempty"` // Base/BaseResp: additionally exercise the nil receiver write path
	Perm     []int      `json:"perm,omitempty"`     // order of the known fields in the reference image
	Gaps     []evid.Hex `json:"gaps,omitempty"`     // encoded unknown fields before each known field and before STOP
	Trailer  evid.Hex   `json:"trailer,omitempty"`
}

type fcModel struct {
	s     [3]string
	i32   int32
	extra map[string]string // nil = absent
}

type fastCodec interface {
	BLength() int
	FastWrite(b []byte) int
	FastWriteNocopy(b []byte, w thrift.NocopyWriter) int
	FastRead(b []byte) (int, error)
}

func (c *FCCase) model() fcModel {
	m := fcModel{i32: c.I32}
	for i := range c.S {
		m.s[i] = c.S[i].String()
	}
	if c.Kind != 2 && !c.ExtraNil {
		m.extra = map[string]string{}
		for _, e := range c.Extra {
			m.extra[e.K.String()] = e.V.String()
		}
	}
	return m
}

func newFC(kind int, m *fcModel) fastCodec {
	switch kind {
	case 0:
		b := &base.Base{}
		if m != nil {
			b.LogID, b.Caller, b.Addr, b.Extra = m.s[0], m.s[1], m.s[2], m.extra
		}
		return b
	case 1:
		b := &base.BaseResp{}
		if m != nil {
			b.StatusMessage, b.StatusCode, b.Extra = m.s[0], m.i32, m.extra
		}
		return b
	default:
		if m != nil {
			return thrift.NewApplicationException(m.i32, m.s[0])
		}
		return thrift.NewApplicationException(0, "")
	}
}

// knownFields returns the known fields of the model as reference values, in canonical order.
func knownFields(kind int, m *fcModel) []ref.Field {
	str := func(s string) ref.Value { return ref.Value{T: ref.STRING, Str: []byte(s)} }
	mp := func(e map[string]string, order []KVP) ref.Value {
		v := ref.Value{T: ref.MAP, KT: ref.STRING, ET: ref.STRING}
		seen := map[string]bool{}
		for _, kv := range order {
			k := kv.K.String()
			if seen[k] {
				continue
			}
			seen[k] = true
			v.Elems = append(v.Elems, str(k), str(e[k]))
		}
		return v
	}
	_ = mp
	switch kind {
	case 0:
		fs := []ref.Field{{ID: 1, V: str(m.s[0])}, {ID: 2, V: str(m.s[1])}, {ID: 3, V: str(m.s[2])}}
		return fs
	case 1:
		return []ref.Field{{ID: 1, V: str(m.s[0])}, {ID: 2, V: ref.Value{T: ref.I32, Bits: uint64(uint32(m.i32))}}}
	default:
		return []ref.Field{{ID: 1, V: str(m.s[0])}, {ID: 2, V: ref.Value{T: ref.I32, Bits: uint64(uint32(m.i32))}}}
	}
}

func extraField(kind int, c *FCCase, m *fcModel) (ref.Field, bool) {
	if kind == 2 || m.extra == nil {
		return ref.Field{}, false
	}
	v := ref.Value{T: ref.MAP, KT: ref.STRING, ET: ref.STRING}
	seen := map[string]bool{}
	for _, kv := range c.Extra {
		k := kv.K.String()
		if seen[k] {
			continue
		}
		seen[k] = true
		v.Elems = append(v.Elems, ref.Value{T: ref.STRING, Str: []byte(k)}, ref.Value{T: ref.STRING, Str: []byte(m.extra[k])})
	}
	id := int16(6)
	if kind == 1 {
		id = 3
	}
	return ref.Field{ID: id, V: v}, true
}

func readBack(kind int, x fastCodec) fcModel {
	var m fcModel
	switch v := x.(type) {
	case *base.Base:
		m.s = [3]string{v.LogID, v.Caller, v.Addr}
		m.extra = v.Extra
	case *base.BaseResp:
		m.s[0], m.i32, m.extra = v.StatusMessage, v.StatusCode, v.Extra
	case *thrift.ApplicationException:
		m.s[0], m.i32 = v.Msg(), v.TypeID()
	}
	return m
}

func eqModel(kind int, a, b *fcModel) string {
	n := 1
	if kind == 0 {
		n = 3
	}
	for i := 0; i < n; i++ {
		if a.s[i] != b.s[i] {
			return fmt.Sprintf("string field %d differs (%d vs %d bytes)", i+1, len(a.s[i]), len(b.s[i]))
		}
	}
	if kind != 0 && a.i32 != b.i32 {
		return fmt.Sprintf("i32 field: %d vs %d", a.i32, b.i32)
	}
	if kind != 2 {
		if (a.extra == nil) != (b.extra == nil) {
			return fmt.Sprintf("Extra absent/present mismatch: got nil=%v want nil=%v", a.extra == nil, b.extra == nil)
		}
		if !eqStrMap(a.extra, b.extra) {
			return fmt.Sprintf("Extra differs (%d vs %d entries)", len(a.extra), len(b.extra))
		}
	}
	return ""
}

var kindNames = []string{"Base", "BaseResp", "ApplicationException"}

func isKnownPair(kind int, id int16, t int8) bool {
	switch kind {
	case 0:
		return (t == ref.STRING && (id == 1 || id == 2 || id == 3)) || (t == ref.MAP && id == 6)
	case 1:
		return (t == ref.STRING && id == 1) || (t == ref.I32 && id == 2) || (t == ref.MAP && id == 3)
	default:
		return (t == ref.STRING && id == 1) || (t == ref.I32 && id == 2)
	}
}

func checkFastCodec(c FCCase, cv *cov) (v *evid.Violation) {
	if c.Kind < 0 || c.Kind > 2 {
		return nil
	}
	m := c.model()
	name := kindNames[c.Kind]
	known := knownFields(c.Kind, &m)
	if ef, ok := extraField(c.Kind, &c, &m); ok {
		known = append(known, ef)
	}
	// domain of the gaps: well-formed field sequences without a (id,type) pair that is a known field
	var gapFields [][]ref.Field
	nUnknown, nUnknownContainer, collide := 0, 0, 0
	for _, g := range c.Gaps {
		if len(g) == 0 {
			gapFields = append(gapFields, nil)
			continue
		}
		fs, ok := parseFieldSeq(g)
		if !ok {
			return nil
		}
		for _, f := range fs {
			if isKnownPair(c.Kind, f.ID, f.V.T) {
				return nil
			}
			nUnknown++
			if ref.IsContainer(f.V.T) {
				nUnknownContainer++
			}
			if f.ID >= 1 && f.ID <= 6 {
				collide++
			}
		}
		gapFields = append(gapFields, fs)
	}
	permuted := false
	body := func() {
		// ---- write side
		x := newFC(c.Kind, &m)
		bl := x.BLength()
		buf := make([]byte, bl)
		n1 := x.FastWrite(buf)
		buf2 := make([]byte, bl)
		n2 := x.FastWriteNocopy(buf2, nil)
		fm := thrift.FastMarshal(x)
		if n1 != bl || n2 != bl || len(fm) != bl {
			v = evid.Failf("%s: BLength()=%d, FastWrite returned %d, FastWriteNocopy(nil) returned %d, len(FastMarshal)=%d", name, bl, n1, n2, len(fm))
			return
		}
		// the image must be a grammar-valid struct holding exactly the known fields
		r := ref.Walk(buf, ref.STRUCT)
		if r.Class != ref.OK || r.N != bl {
			v = evid.Failf("%s: written image is not one well-formed struct of BLength()=%d bytes: %s; image %s", name, bl, refDesc(r), hx(buf))
			return
		}
		dv, _ := ref.Decode(buf, ref.STRUCT)
		if len(dv.Fields) != len(known) {
			v = evid.Failf("%s: written image holds %d fields, the value has %d", name, len(dv.Fields), len(known))
			return
		}
		for _, kf := range known {
			found := false
			for _, df := range dv.Fields {
				if df.ID != kf.ID || df.V.T != kf.V.T {
					continue
				}
				found = true
				if kf.V.T == ref.MAP {
					got := map[string]string{}
					for i := 0; i+1 < len(df.V.Elems); i += 2 {
						got[string(df.V.Elems[i].Str)] = string(df.V.Elems[i+1].Str)
					}
					if df.V.KT != ref.STRING || df.V.ET != ref.STRING || len(df.V.Elems) != 2*len(m.extra) || !eqStrMap(got, m.extra) {
						v = evid.Failf("%s: written map field %d differs from Extra", name, kf.ID)
						return
					}
				} else if !ref.Equal(&df.V, &kf.V) {
					v = evid.Failf("%s: written field %d differs from the value", name, kf.ID)
					return
				}
			}
			if !found {
				v = evid.Failf("%s: written image lacks field %d of type %d", name, kf.ID, kf.V.T)
				return
			}
		}
		for _, img := range [][]byte{buf, buf2, fm} {
			y := newFC(c.Kind, nil)
			n, err := y.FastRead(img)
			if err != nil || n != bl {
				v = evid.Failf("%s: FastRead of its own output returned (%d,%v), BLength()=%d", name, n, err, bl)
				return
			}
			got := readBack(c.Kind, y)
			if d := eqModel(c.Kind, &got, &m); d != "" {
				v = evid.Failf("%s: FastRead(FastWrite(x)) != x: %s", name, d)
				return
			}
		}
		if c.NilRecv && c.Kind != 2 {
			var z fastCodec
			if c.Kind == 0 {
				z = (*base.Base)(nil)
			} else {
				z = (*base.BaseResp)(nil)
			}
			one := []byte{0xff}
			if z.BLength() != 1 || z.FastWriteNocopy(one, nil) != 1 || one[0] != 0 {
				v = evid.Failf("%s: nil receiver must encode as a lone STOP byte", name)
				return
			}
		}
		// ---- read side: reference-built image, permuted known fields, interleaved unknown fields
		perm := c.Perm
		if len(perm) != len(known) {
			perm = nil
			for i := range known {
				perm = append(perm, i)
			}
		}
		seen := map[int]bool{}
		for _, p := range perm {
			if p < 0 || p >= len(known) || seen[p] {
				return
			}
			seen[p] = true
		}
		for i, p := range perm {
			if p != i {
				permuted = true
			}
		}
		var img []byte
		gap := func(i int) {
			if i < len(c.Gaps) {
				img = append(img, c.Gaps[i]...)
			}
		}
		for i, p := range perm {
			gap(i)
			f := known[p]
			img = append(img, byte(f.V.T))
			img = ref.Put16(img, uint16(f.ID))
			img = ref.Append(img, &f.V, nil)
		}
		gap(len(perm))
		img = append(img, 0)
		full := append(append([]byte(nil), img...), c.Trailer...)
		y := newFC(c.Kind, nil)
		n, err := y.FastRead(full)
		if err != nil || n != len(img) {
			v = evid.Failf("%s.FastRead of a reference-built image (known fields in order %v, %d unknown fields interleaved) returned (%d,%v), the struct is %d bytes; image %s", name, perm, nUnknown, n, err, len(img), hx(img))
			return
		}
		got := readBack(c.Kind, y)
		if d := eqModel(c.Kind, &got, &m); d != "" {
			v = evid.Failf("%s.FastRead of a reference-built image (order %v, %d unknown fields): %s; image %s", name, perm, nUnknown, d, hx(img))
			return
		}
		// a decoded map belongs to the caller: modifying it must not leak into later decodes
		if c.Kind != 2 && m.extra != nil {
			for round := 0; round < 2; round++ {
				y2 := newFC(c.Kind, nil)
				if n2, err2 := y2.FastRead(full); err2 != nil || n2 != len(img) {
					v = evid.Failf("%s.FastRead (repeat %d) returned (%d,%v)", name, round, n2, err2)
					return
				}
				got2 := readBack(c.Kind, y2)
				if d := eqModel(c.Kind, &got2, &m); d != "" {
					v = evid.Failf("%s.FastRead: after the caller modified the Extra map of an earlier result, a later decode of the same image is wrong: %s", name, d)
					return
				}
				got2.extra["verif-scribble"] = "x"
				for k := range m.extra {
					got2.extra[k] = "changed"
				}
			}
		}
		// the same image read into a receiver that already holds other content (object reuse): fields
		// present in the image replace the old content completely, in particular the map
		old := fcModel{s: [3]string{"old-1", "old-2", "old-3"}, i32: 424242}
		if c.Kind != 2 {
			old.extra = map[string]string{}
			for i := 0; i < len(m.extra)+3; i++ {
				old.extra[fmt.Sprintf("stale-key-%d", i)] = "stale"
			}
		}
		z := newFC(c.Kind, &old)
		n, err = z.FastRead(full)
		if err != nil || n != len(img) {
			v = evid.Failf("%s.FastRead into a reused receiver returned (%d,%v), the struct is %d bytes", name, n, err, len(img))
			return
		}
		want := m
		if c.Kind != 2 && m.extra == nil {
			want.extra = old.extra // field absent from the image: the receiver keeps what it had
		}
		if c.Kind == 2 || m.extra != nil {
			// a receiver on which a read of a truncated image failed is read into again
			z2 := newFC(c.Kind, &old)
			for _, cut := range []int{len(img) / 3, len(img) / 2, 2 * len(img) / 3, 3 * len(img) / 4, 7 * len(img) / 8, len(img) - 6, len(img) - 3, len(img) - 2, len(img) - 1} {
				if cut > 0 {
					if _, err := z2.FastRead(img[:cut:cut]); err == nil {
						v = evid.Failf("%s.FastRead accepted an image cut to %d of %d bytes", name, cut, len(img))
						return
					}
				}
			}
			// after those rejected reads, ANOTHER message (other strings, other map keys) read into a fresh
			// receiver must come out as exactly that message (nothing of the rejected ones may be left anywhere)
			if c.Kind != 2 {
				om := fcModel{s: [3]string{"o1", "", "o3"}, i32: 7, extra: map[string]string{"other-key": "other-value", "": "e"}}
				ox := newFC(c.Kind, &om)
				oimg := make([]byte, ox.BLength())
				ox.FastWrite(oimg)
				z3 := newFC(c.Kind, nil)
				if n3, err := z3.FastRead(oimg); err != nil || n3 != len(oimg) {
					v = evid.Failf("%s.FastRead of another message after rejected reads returned (%d,%v), want (%d,nil)", name, n3, err, len(oimg))
					return
				}
				got3 := readBack(c.Kind, z3)
				if d := eqModel(c.Kind, &got3, &om); d != "" {
					v = evid.Failf("%s: after reads of truncated images were rejected (some of them inside the Extra map), another message read into a fresh receiver does not come out as written: %s", name, d)
					return
				}
			}
			if n2, err := z2.FastRead(full); err != nil || n2 != len(img) {
				v = evid.Failf("%s.FastRead after failed reads of truncated images on the same receiver returned (%d,%v)", name, n2, err)
				return
			}
			got2 := readBack(c.Kind, z2)
			if d := eqModel(c.Kind, &got2, &m); d != "" {
				v = evid.Failf("%s.FastRead after failed reads of truncated images on the same receiver does not reproduce the value: %s", name, d)
				return
			}
			// the result just obtained (its Extra map) is now held by the caller; further failing reads into
			// the same receiver must not reach into it
			for _, cut := range []int{1, 2, len(img) / 3, len(img) - 1} {
				if cut > 0 && cut < len(img) {
					z2.FastRead(img[:cut:cut])
				}
			}
			if d := eqModel(c.Kind, &got2, &m); d != "" {
				v = evid.Failf("%s: a value obtained from FastRead (and held by the caller) was changed by later failing reads of truncated images into the same receiver: %s", name, d)
				return
			}
		}
		got = readBack(c.Kind, z)
		if d := eqModel(c.Kind, &got, &want); d != "" {
			v = evid.Failf("%s.FastRead into a receiver that already held other content does not reproduce the written value: %s", name, d)
			return
		}
	}
	if p, st := evid.Safe(body); p != nil {
		return &evid.Violation{Msg: fmt.Sprintf("%s: panic: %v", name, p), Stack: st}
	}
	if v != nil {
		return v
	}
	cv.nontrivial = permuted && nUnknownContainer >= 1
	cv.labelIf(permuted, "permuted")
	cv.labelIf(nUnknown > 0, "unknown_fields")
	cv.labelIf(nUnknownContainer > 0, "unknown_container_field")
	cv.labelIf(collide > 0, "unknown_field_with_known_id")
	cv.labelIf(c.Kind != 2 && c.ExtraNil, "extra_nil")
	cv.labelIf(c.Kind != 2 && !c.ExtraNil && len(c.Extra) == 0, "extra_empty")
	cv.label("kind_" + name)
	return nil
}

func init() { register("c11_fastcodec", checkFastCodec) }

func genFCStr(t *rapid.T, l string) PStr {
	n := rapid.OneOf(rapid.SampledFrom([]int{0, 0, 1, 300, 4095, 4096, 4097, 20000}), rapid.IntRange(1, 16), rapid.IntRange(1, 16)).Draw(t, l+"len")
	return PStr{L: n, S: rapid.Byte().Draw(t, l+"seed")}
}

func genUnknownField(t *rapid.T, kind int) []byte {
	v := genValue(t, 0, rapid.IntRange(0, 6).Draw(t, "udepth"), false, false)
	id := rapid.SampledFrom([]int16{1, 2, 3, 6, 1, 2, 3, 6, 0, 4, 5, 7, 255, 256, -1, 32767, -32768}).Draw(t, "uid")
	switch rapid.IntRange(0, 3).Draw(t, "uidKind") {
	case 0: // an id that equals a known id in its low byte only
		id = rapid.SampledFrom([]int16{1, 2, 3, 6}).Draw(t, "uidLow") + 256*int16(rapid.IntRange(-128, 127).Draw(t, "uidHigh"))
	case 1:
		id = rapid.Int16().Draw(t, "uidAny")
	}
	if isKnownPair(kind, id, v.T) {
		id = 99
	}
	b := append([]byte{byte(v.T)}, byte(uint16(id)>>8), byte(id))
	return ref.Append(b, &v, nil)
}

func genFCCase(t *rapid.T) FCCase {
	c := FCCase{Kind: rapid.IntRange(0, 2).Draw(t, "kind")}
	for i := range c.S {
		c.S[i] = genFCStr(t, fmt.Sprintf("s%d", i))
	}
	c.I32 = rapid.OneOf(rapid.Int32(), rapid.SampledFrom([]int32{0, 1, -1, 6, 0x7fffffff, -0x80000000})).Draw(t, "i32")
	c.ExtraNil = rapid.Bool().Draw(t, "extraNil")
	if !c.ExtraNil {
		n := rapid.SampledFrom([]int{0, 0, 0, 1, 1, 2, 2, 3, 3, 40, 40, 255, 256, 257, 1023, 1024, 1025, 1500}).Draw(t, "nextra")
		for i := 0; i < n; i++ {
			if n > 40 { // many entries: distinct short keys, short values
				c.Extra = append(c.Extra, KVP{K: PStr{L: 2 + i%7 + i/251*0, S: byte(i)}, V: PStr{L: i % 3, S: byte(i >> 8)}})
				if i >= 251 {
					c.Extra[i].K = PStr{L: 9 + i/251, S: byte(i)}
				}
				continue
			}
			c.Extra = append(c.Extra, KVP{K: PStr{L: rapid.IntRange(0, 12).Draw(t, "ekl"), S: byte(i*5 + 1)}, V: genFCStr(t, "ev")})
		}
	}
	c.NilRecv = rapid.Bool().Draw(t, "nilRecv")
	nk := []int{3, 2, 2}[c.Kind]
	if c.Kind != 2 && !c.ExtraNil {
		nk++
	}
	ids := make([]int, nk)
	for i := range ids {
		ids[i] = i
	}
	c.Perm = rapid.Permutation(ids).Draw(t, "perm")
	for i := 0; i <= nk; i++ {
		var g []byte
		for j := rapid.SampledFrom([]int{0, 0, 1, 1, 2, 4}).Draw(t, "nunk"); j > 0; j-- {
			g = append(g, genUnknownField(t, c.Kind)...)
		}
		c.Gaps = append(c.Gaps, g)
	}
	c.Trailer = rapid.SliceOfN(rapid.Byte(), 0, 4).Draw(t, "trailer")
	return c
}

func TestC11_Random(t *testing.T) {
	rec := evid.New("C11", "c11_random", "rapid: Base/BaseResp/ApplicationException values (strings of length 0,1..16,300,4095,4096,4097,20000 with pattern bytes, any i32, Extra nil/empty/1..40 entries, nil receiver) -> BLength == FastWrite == FastWriteNocopy(nil) == len(FastMarshal), image decodes by the reference to exactly the known fields, FastRead(FastWrite(x)) == x; and reference-built images with the known fields in any permutation interleaved with 0..4 unknown fields per gap drawn from the full typed-value generator (ids colliding with known ids under other types) + trailer -> FastRead returns (len(struct), nil) and the expected value; non-trivial = permuted known fields AND >= 1 unknown field of a container type")
	defer rec.Flush()
	runRapid(t, rec, "c11_fastcodec", evid.Pick(15000, 200000), genFCCase, checkFastCodec)
}

func permutations(n int) [][]int {
	if n == 0 {
		return [][]int{{}}
	}
	var out [][]int
	for _, p := range permutations(n - 1) {
		for i := 0; i <= len(p); i++ {
			q := append(append(append([]int{}, p[:i]...), n-1), p[i:]...)
			out = append(out, q)
		}
	}
	return out
}

func TestC11_Permutations(t *testing.T) {
	rec := evid.New("C11", "c11_permutations", "enumeration: every permutation of the known fields (24 for Base with Extra, 6 for BaseResp with Extra, 2 for ApplicationException; also without Extra) x one unknown field of each of the 11 types x each gap x unknown id in {a fresh id, each known id under this other type}; distinct by construction")
	defer rec.Flush()
	sample := func(ty int8) ref.Value {
		v := ref.Value{T: ty}
		switch ty {
		case ref.STRING:
			v.Str = []byte("unknown")
		case ref.STRUCT:
			v.Fields = []ref.Field{{ID: 1, V: ref.Value{T: ref.STRING, Str: []byte("in")}}, {ID: 2, V: ref.Value{T: ref.LIST, ET: ref.I32, Elems: []ref.Value{{T: ref.I32, Bits: 1}}}}}
		case ref.MAP:
			v.KT, v.ET = ref.STRING, ref.STRUCT
			v.Elems = []ref.Value{{T: ref.STRING, Str: []byte("k")}, {T: ref.STRUCT}}
		case ref.LIST, ref.SET:
			v.ET = ref.STRING
			v.Elems = []ref.Value{{T: ref.STRING, Str: []byte("e1")}, {T: ref.STRING, Str: []byte("e2")}}
		default:
			v.Bits = 0x0102030405060708 >> (8 * uint(8-ref.FixedSize(ty)))
		}
		return v
	}
	b := evid.NewBatch()
	for kind := 0; kind < 3; kind++ {
		for _, withExtra := range []bool{true, false} {
			if kind == 2 && withExtra {
				continue
			}
			nk := []int{3, 2, 2}[kind]
			if withExtra {
				nk++
			}
			for _, perm := range permutations(nk) {
				for _, ty := range ref.Types {
					for gap := 0; gap <= nk; gap++ {
						for _, id := range []int16{99, 1, 2, 3, 6, 257, 258, 259, 262, -255, 0x7f01, 0x0106, -0x7ffa} {
							if isKnownPair(kind, id, ty) {
								continue
							}
							uv := sample(ty)
							ub := append([]byte{byte(ty)}, byte(uint16(id)>>8), byte(id))
							ub = ref.Append(ub, &uv, nil)
							c := FCCase{Kind: kind, S: [3]PStr{{L: 5, S: 1}, {L: 0}, {L: 17, S: 9}}, I32: -7, ExtraNil: !withExtra,
								Perm: perm, Gaps: make([]evid.Hex, nk+1)}
							if withExtra {
								c.Extra = []KVP{{K: PStr{L: 2, S: 3}, V: PStr{L: 3, S: 4}}, {K: PStr{L: 0}, V: PStr{L: 1, S: 1}}}
							}
							c.Gaps[gap] = ub
							var cv cov
							if v := checkFastCodec(c, &cv); v != nil {
								failEnum(t, rec, "c11_fastcodec", c, v)
								rec.Merge(b)
								return
							}
							b.Evals++
							b.Distinct++
							if cv.nontrivial {
								b.Nontrivial++
							}
							for _, l := range cv.labels {
								b.Labels[l]++
							}
							if kind == 0 && withExtra && ty == ref.MAP && gap == 2 && id == 6 && perm[0] == 3 && b.Labels["sampled"] == 0 {
								b.Labels["sampled"]++
								rec.Sample(c)
							}
						}
					}
				}
			}
		}
	}
	rec.Merge(b)
	rec.SetExhaustive()
}

var _ = bytes.Equal

// TestC11_DeepUnknown: an unknown field whose value is nested close to the recursion limit, at every
// position among the known fields. Up to 63 levels the struct must be read like any other; at 64 levels
// (the skippers' boundary zone) only independence of the position is demanded: the verdict and, if
// accepted, the decoded value must be the same wherever the unknown field stands.
func TestC11_DeepUnknown(t *testing.T) {
	rec := evid.New("C11", "c11_deep_unknown", "enumeration: the three shipped structs (with/without Extra) x an unknown field holding a chain of d = 58..64 nested containers of one kind {struct, map value side, map key side, set, list} with innermost content {empty, i32} x every position among the known fields (before each, before STOP); d <= 63: full C11 oracle; d = 64: the outcome (accept/reject, consumed length, decoded value) must not depend on the position; distinct by construction")
	defer rec.Flush()
	b := evid.NewBatch()
	for kind := 0; kind < 3; kind++ {
		for _, withExtra := range []bool{true, false} {
			if kind == 2 && withExtra {
				continue
			}
			nk := []int{3, 2, 2}[kind]
			if withExtra {
				nk++
			}
			for d := 58; d <= 64; d++ {
				for a := 0; a < 5; a++ {
					for leaf := 0; leaf < 2; leaf++ {
						kinds := make([]int, d)
						for i := range kinds {
							kinds[i] = a
						}
						uv := buildNestChain(kinds, leaf)
						ub := ref.Append([]byte{byte(uv.T), 0, 77}, &uv, nil)
						type outcome struct {
							ok bool
							n  int
							d  string
						}
						var first outcome
						for gap := 0; gap <= nk; gap++ {
							c := FCCase{Kind: kind, S: [3]PStr{{L: 5, S: 1}, {L: 0}, {L: 17, S: 9}}, I32: -7, ExtraNil: !withExtra, Gaps: make([]evid.Hex, nk+1)}
							if withExtra {
								c.Extra = []KVP{{K: PStr{L: 2, S: 3}, V: PStr{L: 3, S: 4}}}
							}
							c.Gaps[gap] = ub
							b.Evals++
							b.Distinct++
							b.Nontrivial++
							if d <= 63 {
								var cv cov
								if v := checkFastCodec(c, &cv); v != nil {
									failEnum(t, rec, "c11_fastcodec", c, v)
									rec.Merge(b)
									return
								}
								continue
							}
							// d == 64: build the image by hand and compare outcomes across positions
							m := c.model()
							known := knownFields(kind, &m)
							if ef, ok := extraField(kind, &c, &m); ok {
								known = append(known, ef)
							}
							var img []byte
							for i, f := range known {
								if i == gap {
									img = append(img, ub...)
								}
								img = append(img, byte(f.V.T))
								img = ref.Put16(img, uint16(f.ID))
								img = ref.Append(img, &f.V, nil)
							}
							if gap == len(known) {
								img = append(img, ub...)
							}
							img = append(img, 0)
							y := newFC(kind, nil)
							var o outcome
							var err error
							p, st := evid.Safe(func() { o.n, err = y.FastRead(img) })
							if p != nil {
								failEnum(t, rec, "c11_fastcodec", c, &evid.Violation{Msg: fmt.Sprintf("%s.FastRead panicked on an unknown field nested %d levels: %v", kindNames[kind], d, p), Stack: st})
								rec.Merge(b)
								return
							}
							o.ok = err == nil
							if o.ok {
								got := readBack(kind, y)
								o.d = eqModel(kind, &got, &m)
								if o.n != len(img) || o.d != "" {
									failEnum(t, rec, "c11_fastcodec", c, evid.Failf("%s.FastRead accepted an image with an unknown field nested %d levels at position %d but consumed %d of %d bytes / decoded wrongly: %s", kindNames[kind], d, gap, o.n, len(img), o.d))
									rec.Merge(b)
									return
								}
							} else {
								o.n = 0
							}
							if gap == 0 {
								first = o
							} else if o.ok != first.ok {
								failEnum(t, rec, "c11_fastcodec", c, evid.Failf("%s.FastRead depends on field order: an unknown field (id 77, %d nested containers of kind %d) is accepted=%v before the first known field but accepted=%v at position %d of %d (err=%v)", kindNames[kind], d, a, first.ok, o.ok, gap, nk, err))
								rec.Merge(b)
								return
							}
						}
					}
				}
			}
		}
	}
	rec.Merge(b)
	rec.Sample(map[string]interface{}{"struct": "ApplicationException", "unknown_field_depth": 64, "positions": 3})
	rec.SetExhaustive()
}

// ---- the states of the optional map: absent / empty / filled, across reads into one receiver ----------------

// mapStatesScenario runs the fixed enumeration of c11_map_states and counts its evaluations in b.
func mapStatesScenario(b *evid.Batch) (viol *evid.Violation) {
	type rcv interface {
		FastRead([]byte) (int, error)
	}
	kinds := []struct {
		name  string
		id    byte
		mk    func() rcv
		extra func(rcv) map[string]string
	}{
		{"Base", 6, func() rcv { return &base.Base{} }, func(r rcv) map[string]string { return r.(*base.Base).Extra }},
		{"BaseResp", 3, func() rcv { return &base.BaseResp{} }, func(r rcv) map[string]string { return r.(*base.BaseResp).Extra }},
	}
	str := func(s string) []byte { return append([]byte{0, 0, 0, byte(len(s))}, s...) }
	for _, k := range kinds {
		two := append([]byte{0x0d, 0, k.id, 0x0b, 0x0b, 0, 0, 0, 2}, append(append(str("k1"), str("v1")...), append(str("k2"), str("v2")...)...)...)
		two = append(two, 0)
		empty := []byte{0x0d, 0, k.id, 0x0b, 0x0b, 0, 0, 0, 0, 0}
		// (a)
		for cut := 0; cut < len(two); cut++ {
			x := k.mk()
			if _, err := x.FastRead(two[:cut:cut]); err == nil {
				viol = evid.Failf("%s.FastRead accepted a message cut to %d of %d bytes", k.name, cut, len(two))
				break
			}
			reached := cut >= 9 // the 3-byte field header and the 6-byte map header are complete
			if _, err := x.FastRead([]byte{0}); err != nil {
				viol = evid.Failf("%s.FastRead of a message without fields: %v", k.name, err)
				break
			}
			if m := k.extra(x); !reached && m != nil {
				viol = evid.Failf("%s: a read was rejected %d bytes into a message (before the header of the Extra map was complete), then a message without the field was read into the same receiver: Extra is a map of %d entries, want it absent (nil)", k.name, cut, len(m))
				break
			}
			b.Evals++
			b.Distinct++
			b.Nontrivial++
		}
		if viol != nil {
			break
		}
		// (d) a read rejected inside the map after one entry had been decoded, then at once another message with
		// other keys into a fresh receiver; 300 times in a row (whatever the library keeps of a rejected read
		// must not reach the next one)
		other := append([]byte{0x0d, 0, k.id, 0x0b, 0x0b, 0, 0, 0, 1}, append(str("zz"), str("yy")...)...)
		other = append(other, 0)
		for rep := 0; rep < 300 && viol == nil; rep++ {
			x := k.mk()
			cut := 9 + 12 + 3 + rep%9 // inside the second entry
			if _, err := x.FastRead(two[:cut:cut]); err == nil {
				viol = evid.Failf("%s.FastRead accepted a message cut to %d of %d bytes", k.name, cut, len(two))
				break
			}
			y := k.mk()
			if _, err := y.FastRead(other); err != nil {
				viol = evid.Failf("%s.FastRead of a one-entry message: %v", k.name, err)
				break
			}
			if m := k.extra(y); len(m) != 1 || m["zz"] != "yy" {
				viol = evid.Failf("%s: right after a read that was rejected inside the Extra map (one entry already decoded), a message with the single entry zz=yy read into a fresh receiver gives a map of %d entries: %v", k.name, len(m), m)
				break
			}
		}
		if viol != nil {
			break
		}
		b.Evals++
		b.Distinct++
		b.Nontrivial++
		// (b) and (c)
		for _, order := range [][2][]byte{{empty, two}, {two, empty}, {empty, empty}, {two, two}} {
			x := k.mk()
			if _, err := x.FastRead(order[0]); err != nil {
				viol = evid.Failf("%s.FastRead: %v", k.name, err)
				break
			}
			held := k.extra(x)
			n0 := len(held)
			snapshot := map[string]string{}
			for kk, vv := range held {
				snapshot[kk] = vv
			}
			if _, err := x.FastRead(order[1]); err != nil {
				viol = evid.Failf("%s.FastRead (second message): %v", k.name, err)
				break
			}
			if len(held) != n0 {
				viol = evid.Failf("%s: the map obtained from the first read (%d entries), kept by the caller, has %d entries after the same receiver read another message", k.name, n0, len(held))
				break
			}
			for kk, vv := range snapshot {
				if held[kk] != vv {
					viol = evid.Failf("%s: the map obtained from the first read was changed by the second read into the same receiver", k.name)
				}
			}
			now := k.extra(x)
			wantN := 0
			if len(order[1]) > len(empty) {
				wantN = 2
			}
			if now == nil || len(now) != wantN {
				viol = evid.Failf("%s: after the second read Extra has %d entries (nil: %v), the message holds %d", k.name, len(now), now == nil, wantN)
				break
			}
			// writing into the receiver's current map must not show in the kept one
			now["verif-probe"] = "x"
			if _, leaked := held["verif-probe"]; leaked {
				viol = evid.Failf("%s: the map kept from the first read and the receiver's map after the second read are the same map", k.name)
				break
			}
			// ... nor in the map a fresh receiver gets from the same bytes
			y := k.mk()
			y.FastRead(order[1])
			if _, leaked := k.extra(y)["verif-probe"]; leaked {
				viol = evid.Failf("%s: an entry written into one receiver's decoded map shows up in the map another receiver decoded from the same bytes", k.name)
				break
			}
			b.Evals++
			b.Distinct++
			b.Nontrivial++
		}
		if viol != nil {
			break
		}
	}
	return viol
}

func TestC11_MapStates(t *testing.T) {
	rec := evid.New("C11", "c11_map_states", "enumeration for Base and BaseResp: (a) a read that fails at every cut inside the 6-byte header of the Extra map (or anywhere else in a message that holds only that field), followed by a complete message WITHOUT the field into the same receiver: the map stays absent (nil) unless an earlier read had got as far as the map; (b) a read that yields an empty map, the caller keeps that map, the same receiver then reads a message with two entries: the kept map stays empty and is not the receiver's new map; (c) the same with a filled map kept and an empty one read; (d) 300 times: a read rejected inside the map after one entry was decoded, then another message into a fresh receiver; every (type, scenario, cut) is one evaluation")
	defer rec.Flush()
	b := evid.NewBatch()
	viol := mapStatesScenario(b)
	if viol != nil {
		failEnum(t, rec, "c11_map_states", struct{}{}, viol)
	}
	rec.Merge(b)
	rec.SetExhaustive()
}

func init() {
	register("c11_map_states", func(c struct{}, cv *cov) *evid.Violation {
		// the enumeration is small and fixed: the replay runs all of it
		cv.nontrivial = true
		return mapStatesScenario(evid.NewBatch())
	})
}
