package props

import (
	"bytes"
	"errors"
	"fmt"
	"runtime/debug"
	"testing"
	"unsafe"

	"github.com/cloudwego/gopkg/bufiox"
	"github.com/cloudwego/gopkg/verifharness/evid"
	"github.com/cloudwego/gopkg/verifharness/faultio"
	"pgregory.net/rapid"
)

// ---- C05: buffered writer flushes exactly what was written, once, in order ---------------------

// WOp is one writer operation.
type WOp struct {
	K string `json:"k"` // malloc, lazy (malloc, filled later), fill (fill all lazy regions now), writebin, flush, len
	N int    `json:"n,omitempty"`
}

// WriterCase is a writer history.
type WriterCase struct {
	Bytes   bool  `json:"bytes,omitempty"` // NewBytesWriter
	InitLen int   `json:"init_len,omitempty"`
	InitCap int   `json:"init_cap,omitempty"`
	NilInit bool  `json:"nil_init,omitempty"`
	FailAt  int   `json:"fail_at,omitempty"` // sink fails at the k-th Write (0 = never)
	Short   int   `json:"short,omitempty"`
	SinkErr int   `json:"sink_err,omitempty"` // error value of the failing sink (faultio.SinkErr)
	Decoy   bool  `json:"decoy,omitempty"`    // the sink also has WriteBinary/Flush/Malloc/ReadFrom... methods (only Write counts)
	Ops     []WOp `json:"ops"`
	Pow2    bool  `json:"pow2,omitempty"`   // C09: WriteBinary payloads live in power-of-two capacity caller buffers
	Tenant  int   `json:"tenant,omitempty"` // C09 only
}

type wregion struct {
	b      []byte // nil for WriteBinary payloads
	want   []byte
	filled bool
	step   int
}

func regionContent(step, n int) []byte {
	b := make([]byte, n)
	for i := range b {
		b[i] = byte(step*37 + i*11 + i>>8 + 1)
	}
	return b
}

type writerHooks struct {
	afterOp func(step int, op WOp, live [][]byte, owned [][]byte) *evid.Violation
	target  []byte // set by the interpreter: the caller's initial slice of a bytes writer (full capacity)
}

func overlaps(a, b []byte) bool {
	if len(a) == 0 || len(b) == 0 {
		return false
	}
	pa, pb := uintptr(unsafe.Pointer(&a[0])), uintptr(unsafe.Pointer(&b[0]))
	return pa < pb+uintptr(len(b)) && pb < pa+uintptr(len(a))
}

func runWriterHistory(c *WriterCase, cv *cov, hooks *writerHooks) (v *evid.Violation) {
	sink := &faultio.ScriptWriter{FailAt: c.FailAt, Short: c.Short, ErrKind: c.SinkErr}
	var w bufiox.Writer
	var target, initial []byte
	if c.Bytes {
		if !c.NilInit || c.InitCap > 0 {
			cp := c.InitCap
			if cp < c.InitLen {
				cp = c.InitLen
			}
			target = make([]byte, c.InitLen, cp)
			for i := range target {
				target[i] = byte(0xC0 + i%7)
			}
		}
		initial = append([]byte(nil), target...)
		if hooks != nil {
			hooks.target = target[:cap(target)]
		}
		w = bufiox.NewBytesWriter(&target)
	} else {
		if c.Decoy {
			w = bufiox.NewDefaultWriter(&faultio.DecoySink{ScriptWriter: sink})
		} else {
			w = bufiox.NewDefaultWriter(sink)
		}
	}
	var pending []wregion
	var owned [][]byte    // caller-owned WriteBinary payload buffers (full capacity) and pristine copies
	var pristine [][]byte //
	var failed error
	// bytes writer: what a Flush published through the target now belongs to the caller; later operations
	// of the writer must not change it
	var published, publishedWant []byte
	var pubSpare []byte   // spare capacity of the slice published by the latest Flush of a bytes writer
	var bytesSoFar []byte // bytes writer: initial contents and everything flushed so far
	flushes := 0
	unflushed := len(initial)
	var sawGrowth, sawLazyGrowth, sawFailThenCalls, sawMultiFlush bool
	hasLazy := false
	var step int
	var op WOp
	fillAll := func() {
		for j := len(pending) - 1; j >= 0; j-- { // reverse order on purpose
			r := &pending[j]
			if r.b != nil && !r.filled {
				copy(r.b, r.want)
				r.filled = true
			}
		}
		hasLazy = false
	}
	liveRegions := func() [][]byte {
		var out [][]byte
		for i := range pending {
			if pending[i].b != nil {
				out = append(out, pending[i].b)
			}
		}
		return out
	}
	checkOwned := func(when string) *evid.Violation {
		for i := range owned {
			if !bytes.Equal(owned[i][:cap(owned[i])], pristine[i]) {
				return evid.Failf("%s: a caller-owned WriteBinary payload buffer (len %d cap %d) was modified", when, len(owned[i]), cap(owned[i]))
			}
		}
		return nil
	}
	body := func() {
		for step, op = range c.Ops {
			switch op.K {
			case "malloc", "lazy":
				b, err := w.Malloc(op.N)
				if failed != nil {
					sawFailThenCalls = true
					if !errors.Is(err, failed) {
						v = evid.Failf("step %d Malloc(%d) after a sink failure returned err=%v, want the sink error", step, op.N, err)
						return
					}
					continue
				}
				if op.N < 0 {
					if err == nil {
						v = evid.Failf("step %d Malloc(%d): negative count accepted", step, op.N)
						return
					}
					break
				}
				if err != nil || len(b) != op.N {
					v = evid.Failf("step %d Malloc(%d): len=%d err=%v", step, op.N, len(b), err)
					return
				}
				for i := range pending {
					if pending[i].b != nil && overlaps(pending[i].b, b) {
						v = evid.Failf("step %d Malloc(%d): region overlaps the live region handed out at step %d", step, op.N, pending[i].step)
						return
					}
				}
				if unflushed+op.N > 4096 && op.N > 0 {
					sawGrowth = true
					if hasLazy {
						sawLazyGrowth = true
					}
				}
				r := wregion{b: b, want: regionContent(step, op.N), step: step}
				if op.K == "malloc" {
					copy(r.b, r.want)
					r.filled = true
				} else if op.N > 0 {
					hasLazy = true
				}
				pending = append(pending, r)
				unflushed += op.N
			case "fill":
				if failed == nil {
					fillAll()
				}
			case "writebin":
				if op.N < 0 {
					continue
				}
				content := regionContent(step, op.N)
				var p []byte
				if c.Pow2 {
					p = make([]byte, op.N, nextPow2(op.N))
				} else {
					p = make([]byte, op.N, op.N+step%5)
				}
				copy(p, content)
				full := p[:cap(p)]
				for i := op.N; i < len(full); i++ {
					full[i] = 0x5A
				}
				n, err := w.WriteBinary(p)
				if failed != nil {
					sawFailThenCalls = true
					if !errors.Is(err, failed) {
						v = evid.Failf("step %d WriteBinary(%d bytes) after a sink failure returned err=%v, want the sink error", step, op.N, err)
						return
					}
					continue
				}
				if err != nil || n != op.N {
					v = evid.Failf("step %d WriteBinary(%d bytes): n=%d err=%v", step, op.N, n, err)
					return
				}
				if unflushed+op.N > 4096 && op.N > 0 {
					sawGrowth = true
					if hasLazy {
						sawLazyGrowth = true
					}
				}
				owned = append(owned, p)
				pristine = append(pristine, append([]byte(nil), full...))
				pending = append(pending, wregion{want: content, filled: true, step: step})
				unflushed += op.N
			case "flush":
				if failed == nil {
					fillAll()
					// regions must still hold what the caller stored in them (writable, disjoint)
					for i := range pending {
						if pending[i].b != nil && !bytes.Equal(pending[i].b, pending[i].want) {
							v = evid.Failf("step %d before Flush: region handed out at step %d no longer holds what was stored in it", step, pending[i].step)
							return
						}
					}
				}
				for i := range pubSpare {
					pubSpare[i] = 0xCD // the caller appends to the slice an earlier Flush gave back
				}
				before := len(sink.Writes)
				wasFailed := sink.Failed
				err := w.Flush()
				if failed != nil {
					sawFailThenCalls = true
					if !errors.Is(err, failed) {
						v = evid.Failf("step %d Flush after a sink failure returned err=%v, want the sink error", step, err)
						return
					}
					if len(sink.Writes) != before || sink.After > 0 {
						v = evid.Failf("step %d Flush after a sink failure (%v) wrote to the sink again", step, failed)
						return
					}
					continue
				}
				if !c.Bytes && sink.Failed && !wasFailed {
					if err == nil || !errors.Is(err, sink.Err()) {
						v = evid.Failf("step %d Flush: the sink failed with %v but Flush returned err=%v", step, sink.Err(), err)
						return
					}
					failed = sink.Err()
					// nothing of this flush interval reached the sink (the failing Write accepted no byte): every
					// byte is still unflushed, and WrittenLen counts the unflushed bytes
					if c.Short == 0 {
						if got := w.WrittenLen(); got != unflushed {
							v = evid.Failf("step %d: after a Flush that failed (%v) without the sink accepting a byte, WrittenLen=%d; the unflushed byte count is %d", step, failed, got, unflushed)
							return
						}
					}
					continue
				}
				if err != nil {
					v = evid.Failf("step %d Flush: err=%v but the sink did not fail", step, err)
					return
				}
				var exp []byte
				if c.Bytes && flushes == 0 {
					exp = append(exp, initial...)
				}
				for i := range pending {
					exp = append(exp, pending[i].want...)
				}
				if c.Bytes {
					if flushes == 0 && !bytes.Equal(target, exp) {
						v = evid.Failf("step %d first Flush of a bytes writer: target has %d bytes, want initial(%d)+written(%d); first difference at %d", step, len(target), len(initial), len(exp)-len(initial), firstDiff(target, exp))
						return
					}
					// every Flush: the target holds the initial contents followed by everything written so far
					// (the harness never shortens the target between flushes)
					if flushes > 0 && len(exp) > 0 {
						all := append(append([]byte(nil), bytesSoFar...), exp...)
						if !bytes.Equal(target, all) {
							v = evid.Failf("step %d Flush number %d of a bytes writer: the target holds %d bytes, want the initial contents and everything written so far (%d bytes: %d from before this cycle + %d new); the target ends with the new bytes: %v; first difference at %d", step, flushes+1, len(target), len(all), len(bytesSoFar), len(exp), bytes.HasSuffix(target, exp), firstDiff(target, all))
							return
						}
					}
				} else {
					var got []byte
					for _, g := range sink.Writes[before:] {
						got = append(got, g...)
					}
					if !bytes.Equal(got, exp) {
						v = evid.Failf("step %d Flush: sink received %d bytes, want %d (first difference at offset %d)", step, len(got), len(exp), firstDiff(got, exp))
						return
					}
				}
				if got := w.WrittenLen(); got != 0 {
					v = evid.Failf("step %d: WrittenLen=%d right after a successful Flush", step, got)
					return
				}
				if c.Bytes {
					bytesSoFar = append(bytesSoFar, exp...)
				}
				if c.Bytes && len(exp) > 0 {
					published = target // alias, on purpose
					publishedWant = append([]byte(nil), target...)
				}
				if c.Bytes {
					// the target slice, with its capacity, is the caller's again: the caller may append to it,
					// now and at any later time (it is done again right before every later Flush)
					pubSpare = target[len(target):cap(target)]
					for i := range pubSpare {
						pubSpare[i] = 0xCC
					}
				}
				if flushes > 0 {
					sawMultiFlush = true
				}
				flushes++
				pending = nil
				unflushed = 0
			case "len":
			default:
				continue
			}
			if published != nil && !bytes.Equal(published, publishedWant) {
				v = evid.Failf("step %d %s(%d): the bytes published through the target by an earlier Flush were changed by a later operation of the writer (first difference at %d)", step, op.K, op.N, firstDiff(published, publishedWant))
				return
			}
			if failed == nil {
				if got := w.WrittenLen(); got != unflushed {
					v = evid.Failf("step %d %s(%d): WrittenLen=%d, unflushed byte count is %d", step, op.K, op.N, got, unflushed)
					return
				}
			}
			if v = checkOwned(fmt.Sprintf("after step %d %s(%d)", step, op.K, op.N)); v != nil {
				return
			}
			if hooks != nil && hooks.afterOp != nil {
				if v = hooks.afterOp(step, op, liveRegions(), owned); v != nil {
					return
				}
				// after the co-tenant: filled regions must be intact
				for i := range pending {
					if pending[i].b != nil && pending[i].filled && !bytes.Equal(pending[i].b, pending[i].want) {
						v = evid.Failf("after step %d and the co-tenant: region handed out at step %d changed", step, pending[i].step)
						return
					}
				}
			}
		}
		if failed != nil {
			// "sticks for every later call": also the calls with nothing to do, and in any order
			before := len(sink.Writes)
			calls := []struct {
				name string
				f    func() error
			}{
				{"WriteBinary(nil)", func() error { _, e := w.WriteBinary(nil); return e }},
				{"WriteBinary(empty)", func() error { _, e := w.WriteBinary([]byte{}); return e }},
				{"Malloc(0)", func() error { _, e := w.Malloc(0); return e }},
				{"Malloc(-1)", func() error { _, e := w.Malloc(-1); return e }},
				{"Flush", func() error { return w.Flush() }},
				{"Malloc(1)", func() error { _, e := w.Malloc(1); return e }},
				{"WriteBinary(nil) again", func() error { _, e := w.WriteBinary(nil); return e }},
				{"Flush again", func() error { return w.Flush() }},
			}
			for _, cl := range calls {
				if err := cl.f(); !errors.Is(err, failed) {
					v = evid.Failf("after the history: %s after a sink failure (%v) returned err=%v, want the sink error", cl.name, failed, err)
					return
				}
			}
			if len(sink.Writes) != before || sink.After > 0 {
				v = evid.Failf("calls after a sink failure (%v) wrote to the sink again", failed)
				return
			}
		}
	}
	if p, st := evid.Safe(body); p != nil {
		return &evid.Violation{Msg: fmt.Sprintf("panic at step %d %s(%d): %v", step, op.K, op.N, p), Stack: st}
	}
	if v != nil {
		return v
	}
	cv.nontrivial = sawLazyGrowth || sawFailThenCalls
	cv.labelIf(sawGrowth, "unflushed_gt_4096")
	cv.labelIf(sawLazyGrowth, "lazy_region_across_growth")
	cv.labelIf(sawFailThenCalls, "calls_after_sink_failure")
	cv.labelIf(sawMultiFlush, "multiple_flushes")
	cv.labelIf(c.Bytes, "bytes_writer")
	cv.labelIf(c.Bytes && c.NilInit && c.InitCap == 0, "bytes_writer_nil_target")
	cv.labelIf(c.Bytes && c.InitLen > 0 && c.InitLen == c.InitCap, "bytes_writer_full_target")
	return nil
}

func firstDiff(a, b []byte) int {
	n := len(a)
	if len(b) < n {
		n = len(b)
	}
	for i := 0; i < n; i++ {
		if a[i] != b[i] {
			return i
		}
	}
	return n
}

func checkWriterCase(c WriterCase, cv *cov) *evid.Violation { return runWriterHistory(&c, cv, nil) }

func init() { register("c05_writer_history", checkWriterCase) }

var writerSizes = []int{0, 1, 3, 100, 4095, 4096, 4097, 8192, 12289, 40000, 16384, 65536, 131072}

func genWriterOps(t *rapid.T, maxOps int) []WOp {
	sizes := rapid.OneOf(rapid.SampledFrom(writerSizes), rapid.SampledFrom(writerSizes), rapid.IntRange(0, 20000), rapid.IntRange(-1, 9000))
	return rapid.SliceOfN(rapid.Custom(func(t *rapid.T) WOp {
		k := rapid.SampledFrom([]string{"malloc", "malloc", "lazy", "lazy", "fill", "writebin", "writebin", "flush", "len"}).Draw(t, "k")
		o := WOp{K: k}
		if k == "malloc" || k == "lazy" || k == "writebin" {
			o.N = sizes.Draw(t, "n")
		}
		return o
	}), 1, maxOps).Draw(t, "ops")
}

func genWriterCase(t *rapid.T) WriterCase {
	var c WriterCase
	c.Bytes = rapid.IntRange(0, 2).Draw(t, "bytesWriter") == 0
	if c.Bytes {
		switch rapid.IntRange(0, 4).Draw(t, "init") {
		case 0:
			c.NilInit = true
		case 1: // empty non-nil with capacity
			c.InitCap = rapid.SampledFrom([]int{1, 16, 4096, 5000, 8192}).Draw(t, "cap")
		case 2: // partially filled
			c.InitLen = rapid.IntRange(1, 5000).Draw(t, "len")
			c.InitCap = c.InitLen + rapid.IntRange(1, 5000).Draw(t, "spare")
		case 3: // full
			c.InitLen = rapid.SampledFrom([]int{1, 8, 4096, 5000}).Draw(t, "len")
			c.InitCap = c.InitLen
		default: // power-of-two capacity
			c.InitLen = rapid.IntRange(0, 4096).Draw(t, "len")
			c.InitCap = nextPow2(c.InitLen + 1)
		}
	} else {
		c.FailAt = rapid.SampledFrom([]int{0, 0, 1, 2, 3, 4}).Draw(t, "failAt")
		c.Short = rapid.SampledFrom([]int{0, 1, 100, -1}).Draw(t, "short")
		c.SinkErr = rapid.SampledFrom([]int{0, 0, 1, 2, 3, 4, 5}).Draw(t, "sinkErr")
		c.Decoy = rapid.IntRange(0, 3).Draw(t, "decoy") == 0
	}
	c.Ops = genWriterOps(t, rapid.SampledFrom([]int{12, 30, 30, 80}).Draw(t, "maxOps"))
	return c
}

func TestC05_Random(t *testing.T) {
	rec := evid.New("C05", "c05_random", "rapid: writer histories of 1..80 ops {Malloc n (filled at once), Malloc n filled lazily (in reverse order, by a later fill op or right before Flush), WriteBinary, Flush, WrittenLen} with n from {0,1,3,100,4095,4096,4097,8192,12289,40000,-1,uniform}; io.Writer sinks failing at the k-th Write (k=0..4, short counts; error values: plain, timeout/temporary net-style errors, os.ErrDeadlineExceeded, io.ErrShortWrite, io.EOF), 1 in 4 sinks also carrying the method set of zero-copy/buffered writers (WriteBinary, Flush, Malloc, ReadFrom, ...; only Write counts) and bytes-backed writers over nil / empty / partially filled / full / power-of-two targets; non-trivial = a lazily filled region was live while the unflushed size crossed 4096 (growth), or calls were made after a sink failure")
	defer rec.Flush()
	runRapid(t, rec, "c05_writer_history", evid.Pick(30000, 300000), genWriterCase, checkWriterCase)
}

func TestC05_Exhaustive(t *testing.T) {
	L := evid.Pick(3, 5)
	rec := evid.New("C05", "c05_exhaustive", fmt.Sprintf("all programs of length 1..%d over a 12-symbol alphabet {malloc 0/1/4096/4097/12289, lazy 3/4096, writebin 0/1/4097, flush, fill} x (io.Writer sink failing at Write k for every k = 0..number of flushes, short count 0/1) and x 5 bytes-writer targets (nil, empty cap 16, partial 5/16, full 8/8, partial 100/8192); distinct by construction", L))
	defer rec.Flush()
	alpha := []WOp{{"malloc", 0}, {"malloc", 1}, {"malloc", 4096}, {"malloc", 4097}, {"malloc", 12289}, {"lazy", 3}, {"lazy", 4096},
		{"writebin", 0}, {"writebin", 1}, {"writebin", 4097}, {"flush", 0}, {"fill", 0}}
	var progs [][]WOp
	var gen func(prefix []WOp)
	gen = func(prefix []WOp) {
		if len(prefix) > 0 {
			progs = append(progs, append([]WOp(nil), prefix...))
		}
		if len(prefix) == L {
			return
		}
		for _, s := range alpha {
			gen(append(prefix, s))
		}
	}
	gen(nil)
	type target struct {
		nilInit   bool
		ilen, cap int
	}
	targets := []target{{true, 0, 0}, {false, 0, 16}, {false, 5, 16}, {false, 8, 8}, {false, 100, 8192}}
	var failed bool
	lock := make(chan struct{}, 1)
	run := func(c WriterCase, b *evid.Batch) {
		if failed {
			return
		}
		var cv cov
		v := checkWriterCase(c, &cv)
		b.Evals++
		if cv.nontrivial {
			b.Distinct++
			b.Nontrivial++
		}
		for _, l := range cv.labels {
			b.Labels[l]++
		}
		if v != nil {
			lock <- struct{}{}
			if !failed {
				failed = true
				failEnum(t, rec, "c05_writer_history", c, v)
			}
			<-lock
		}
	}
	parallelFor(len(progs), func(i int, b *evid.Batch) {
		nfl := 0
		for _, o := range progs[i] {
			if o.K == "flush" {
				nfl++
			}
		}
		for k := 0; k <= nfl; k++ {
			for _, short := range []int{0, 1, -1} {
				if k == 0 && short != 0 {
					continue
				}
				run(WriterCase{FailAt: k, Short: short, Ops: progs[i]}, b)
			}
		}
		for _, tg := range targets {
			run(WriterCase{Bytes: true, NilInit: tg.nilInit, InitLen: tg.ilen, InitCap: tg.cap, Ops: progs[i]}, b)
		}
	}, rec)
	rec.Sample(WriterCase{FailAt: 1, Ops: progs[len(progs)/2]})
	rec.Sample(WriterCase{Bytes: true, InitLen: 5, InitCap: 16, Ops: progs[len(progs)/3]})
	rec.Label("programs", int64(len(progs)))
	rec.SetExhaustive()
}

// TestC05_Ladder: short histories over sizes around every power of two from 2^12 to 2^21.
func TestC05_Ladder(t *testing.T) {
	rec := evid.New("C05", "c05_ladder", "enumeration: histories {Malloc a (lazy); WriteBinary b; Flush}, {WriteBinary a; Flush; Malloc b; Flush}, {Malloc a; Malloc b (lazy); Flush; WriteBinary a; Flush} for all a, b in {2^k-1, 2^k, 2^k+1, 2^k+2^(k-1) : k = 12..21} with a+b <= 5 MiB, on an io.Writer-backed and a bytes-backed writer; distinct by construction")
	defer rec.Flush()
	var sizes []int
	for k := 12; k <= 21; k++ {
		sizes = append(sizes, 1<<k-1, 1<<k, 1<<k+1, 1<<k+1<<(k-1))
	}
	type pair struct{ a, b int }
	var pairs []pair
	for _, a := range sizes {
		for _, b := range sizes {
			if a+b <= 5<<20 {
				pairs = append(pairs, pair{a, b})
			}
		}
	}
	var failed bool
	lock := make(chan struct{}, 1)
	parallelFor(len(pairs), func(i int, bt *evid.Batch) {
		if failed {
			return
		}
		a, b := pairs[i].a, pairs[i].b
		progs := [][]WOp{
			{{"lazy", a}, {"writebin", b}, {"flush", 0}},
			{{"writebin", a}, {"flush", 0}, {"malloc", b}, {"flush", 0}},
			{{"malloc", a}, {"lazy", b}, {"flush", 0}, {"writebin", a}, {"flush", 0}},
		}
		for _, ops := range progs {
			for _, bw := range []bool{false, true} {
				c := WriterCase{Bytes: bw, InitLen: 3, InitCap: 64, Ops: ops}
				var cv cov
				v := checkWriterCase(c, &cv)
				bt.Evals++
				bt.Distinct++
				bt.Nontrivial++
				if v != nil {
					lock <- struct{}{}
					if !failed {
						failed = true
						failEnum(t, rec, "c05_writer_history", c, v)
					}
					<-lock
					return
				}
			}
		}
	}, rec)
	rec.Sample(WriterCase{Ops: []WOp{{"lazy", 1 << 20}, {"writebin", 1<<20 + 1<<19}, {"flush", 0}}})
	rec.SetExhaustive()
}

// TestC05_Huge: single regions / payloads of 4..64 MiB.
func TestC05_Huge(t *testing.T) {
	rec := evid.New("C05", "c05_huge", "enumeration: histories {malloc p; lazy n; flush} / {malloc p; writebin n; flush} / {writebin n; malloc p; flush; malloc p; flush} for p in {0, 1000} and n in {2^k-1, 2^k, 2^k+1, 2^k+2^(k-1)+777 : k = 22..25 (thorough: ..26)}, stream-backed and bytes-backed writers; run one at a time; distinct by construction")
	defer rec.Flush()
	bt := evid.NewBatch()
	shard, nshards := evid.Shard()
	idx := 0
	for _, n := range hugeSizes() {
		for _, p := range []int{0, 1000} {
			progs := [][]WOp{
				{{"malloc", p}, {"lazy", n}, {"flush", 0}},
				{{"malloc", p}, {"writebin", n}, {"flush", 0}},
				{{"writebin", n}, {"malloc", p}, {"flush", 0}, {"malloc", p}, {"flush", 0}},
			}
			for _, ops := range progs {
				for _, bw := range []bool{false, true} {
					idx++
					if idx%nshards != shard {
						continue
					}
					c := WriterCase{Bytes: bw, InitLen: 3, InitCap: 64, Ops: ops}
					var cv cov
					v := checkWriterCase(c, &cv)
					bt.Evals++
					bt.Distinct++
					bt.Nontrivial++
					if v != nil {
						failEnum(t, rec, "c05_writer_history", c, v)
						rec.Merge(bt)
						return
					}
				}
			}
		}
		debug.FreeOSMemory()
	}
	rec.Merge(bt)
	rec.Sample(WriterCase{Bytes: true, InitLen: 3, InitCap: 64, Ops: []WOp{{"malloc", 1000}, {"writebin", 1<<24 + 1}, {"flush", 0}}})
	rec.SetExhaustive()
}

// TestC05_LongLived: one writer used for thousands of write/Flush rounds of constant size.
func TestC05_LongLived(t *testing.T) {
	rec := evid.New("C05", "c05_long_lived", "enumeration: one writer (stream-backed and bytes-backed over targets of capacity 0, 64 and 4096) used for 2300 rounds of {Malloc n (filled lazily every third round); WriteBinary m; Flush} with (n, m) in {(100, 40), (5000, 0), (3, 9000)}; after every operation the region model, WrittenLen and - for bytes writers - the bytes published by the previous Flush are checked; distinct by construction")
	defer rec.Flush()
	type job struct {
		n, m, cap int
		bw        bool
	}
	var jobs []job
	for _, nm := range [][2]int{{100, 40}, {5000, 0}, {3, 9000}} {
		jobs = append(jobs, job{nm[0], nm[1], 0, false})
		for _, cp := range []int{0, 64, 4096} {
			jobs = append(jobs, job{nm[0], nm[1], cp, true})
		}
	}
	var failed bool
	lock := make(chan struct{}, 1)
	parallelFor(len(jobs), func(i int, b *evid.Batch) {
		if failed {
			return
		}
		j := jobs[i]
		var ops []WOp
		for r := 0; r < 2300; r++ {
			k := "malloc"
			if r%3 == 2 {
				k = "lazy"
			}
			ops = append(ops, WOp{k, j.n})
			if j.m > 0 {
				ops = append(ops, WOp{"writebin", j.m})
			}
			ops = append(ops, WOp{"flush", 0})
		}
		c := WriterCase{Bytes: j.bw, InitCap: j.cap, NilInit: j.cap == 0, Ops: ops}
		var cv cov
		v := checkWriterCase(c, &cv)
		b.Evals++
		b.Distinct++
		b.Nontrivial++
		if v != nil {
			lock <- struct{}{}
			if !failed {
				failed = true
				failEnum(t, rec, "c05_writer_history", WriterCase{Bytes: j.bw, InitCap: j.cap, NilInit: j.cap == 0, Ops: ops[:9]}, evid.Failf("writer used for 2300 rounds of {Malloc %d; WriteBinary %d; Flush} (bytes-backed: %v, target capacity %d): %s", j.n, j.m, j.bw, j.cap, v.Msg))
			}
			<-lock
		}
	}, rec)
	rec.Sample(map[string]interface{}{"rounds": 2300, "malloc": 100, "writebin": 40, "bytes_writer": true, "target_cap": 4096})
	rec.SetExhaustive()
}

// TestC05_ManyGrowths: many growths of the buffer within ONE flush interval, with regions that were handed out
// before the growths and are filled only afterwards. A bytes writer over a tiny slice doubles its buffer once
// per Malloc when the sizes double, so 22 Mallocs give 22 growths with a few MiB in total.
func TestC05_ManyGrowths(t *testing.T) {
	rec := evid.New("C05", "c05_many_growths", "enumeration: bytes writers over initial slices of capacity {0 (nil), 1, 2, 3, 8, 64} (length 0 or 1) and a stream writer: g in {1..24} Mallocs of 1, 2, 4, ... 2^(g-1) bytes (stream writer: 4096 << i, g <= 12) in one flush interval, every second region filled only after the last growth (in reverse order), then Flush; then a second, shorter interval on the same writer; full C05 oracle; every (initial slice, g) is one evaluation; distinct by construction")
	defer rec.Flush()
	bt := evid.NewBatch()
	type init struct {
		bytes    bool
		nilInit  bool
		ilen, ic int
	}
	inits := []init{{true, true, 0, 0}, {true, false, 0, 1}, {true, false, 1, 1}, {true, false, 1, 2}, {true, false, 0, 3}, {true, false, 1, 8}, {true, false, 1, 64}, {false, false, 0, 0}}
	for _, in := range inits {
		maxG := 24
		if !in.bytes {
			maxG = 12
		}
		for g := 1; g <= maxG; g++ {
			var ops []WOp
			for i := 0; i < g; i++ {
				n := 1 << uint(i)
				if !in.bytes {
					n = 4096 << uint(i)
				}
				k := "malloc"
				if i%2 == 0 {
					k = "lazy"
				}
				ops = append(ops, WOp{k, n})
			}
			ops = append(ops, WOp{"flush", 0}, WOp{"lazy", 3}, WOp{"malloc", 5000}, WOp{"lazy", 70000}, WOp{"flush", 0})
			c := WriterCase{Bytes: in.bytes, NilInit: in.nilInit, InitLen: in.ilen, InitCap: in.ic, Ops: ops}
			var cv cov
			v := checkWriterCase(c, &cv)
			bt.Evals++
			bt.Distinct++
			bt.Nontrivial++
			if v != nil {
				failEnum(t, rec, "c05_writer_history", c, v)
				rec.Merge(bt)
				return
			}
		}
	}
	rec.Merge(bt)
	rec.SetExhaustive()
}

// TestC05_HugeInterval (thorough tier, one shard): more than 256 MiB queued in ONE flush interval of a
// stream-backed writer, every region filled only after the last growth (a writer that copies a large
// buffer at growth time instead of keeping it until Flush would pass the sink a stale snapshot).
func TestC05_HugeInterval(t *testing.T) {
	rec := evid.New("C05", "c05_huge_interval", "thorough tier only: one flush interval of a stream-backed writer holding regions of 257 MiB, 100 bytes, 300 MiB and 64 bytes (and the same with 129 MiB / 140 MiB), all filled only after the last growth, then Flush and a second short interval; full C05 oracle; about 3 GiB resident, run in one shard; distinct by construction")
	defer rec.Flush()
	shard, _ := evid.Shard()
	if !evid.Thorough() || shard != 0 {
		rec.Label("huge_interval_skipped_in_this_tier_or_shard", 1)
		return
	}
	bt := evid.NewBatch()
	for _, sz := range [][2]int{{129 << 20, 140 << 20}, {257 << 20, 300 << 20}} {
		ops := []WOp{{"lazy", sz[0]}, {"lazy", 100}, {"lazy", sz[1]}, {"lazy", 64}, {"flush", 0}, {"lazy", 3}, {"malloc", 5000}, {"flush", 0}}
		c := WriterCase{Bytes: false, Ops: ops}
		var cv cov
		v := checkWriterCase(c, &cv)
		bt.Evals++
		bt.Distinct++
		bt.Nontrivial++
		debug.FreeOSMemory()
		if v != nil {
			failEnum(t, rec, "c05_writer_history", c, v)
			rec.Merge(bt)
			return
		}
	}
	rec.Merge(bt)
	rec.SetExhaustive()
}
