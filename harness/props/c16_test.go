package props

import (
	"bytes"
	"fmt"
	"os"
	"testing"

	"github.com/cloudwego/gopkg/bufiox"
	"github.com/cloudwego/gopkg/protocol/thrift"
	"github.com/cloudwego/gopkg/protocol/thrift/base"
	"github.com/cloudwego/gopkg/verifharness/evid"
	"github.com/cloudwego/gopkg/verifharness/faultio"
	"pgregory.net/rapid"
)

// ---- C16: decoded values are independent of the input buffer and allocator config ---------------

// IndepCase: a run of string/binary decodes from one reused input buffer.
type IndepCase struct {
	Lens []int `json:"lens"` // value lengths, decoded one after another
	Mode []int `json:"mode"` // per value: 0 Binary.ReadString, 1 Binary.ReadBinary, 2 BufferReader.ReadBinary, 3 BufferReader.ReadString (bytes reader), 4/5 same over a stream reader, 6 method name from BufferReader.ReadMessageBegin,
	// 8 message headers cut inside the sequence id / the name (the decode fails, nothing is kept), 9 a BufferReader.ReadBinary whose data
	// is cut short (fails; the slice it returns is kept and written to at the end), 10 a nested payload: a binary is decoded and a string is
	// then decoded out of that returned slice (both kept; the outer slice is overwritten at the end), 11 an ApplicationException / Base whose
	// FastRead decodes the string and then fails on a later field (what the receiver holds is kept)
}

type keptVal struct {
	s    string
	b    []byte
	isB  bool
	want []byte
	idx  int
}

func valByte(i, j int) byte { return byte(i*31 + j*7 + j>>8 + 1) }

// runIndep decodes the run with the current span cache setting and returns the decoded values.
func runIndep(c *IndepCase) (out [][]byte, v *evid.Violation) {
	maxLen := 0
	for _, l := range c.Lens {
		if l > maxLen {
			maxLen = l
		}
	}
	in := make([]byte, 0, 4+maxLen+16)
	var kept []keptVal
	var junk [][]byte // slices handed back by failed calls
	for i, l := range c.Lens {
		in = in[:4+l]
		in[0], in[1], in[2], in[3] = byte(l>>24), byte(l>>16), byte(l>>8), byte(l)
		for j := 0; j < l; j++ {
			in[4+j] = valByte(i, j)
		}
		want := append([]byte(nil), in[4:]...)
		mode := c.Mode[i%len(c.Mode)]
		k := keptVal{want: want, idx: i}
		var err error
		skipKeep := false
		switch mode {
		case 8:
			// rejected message headers: name of l bytes and of 128 + l%300 bytes, cut inside the sequence id and inside the name
			for _, nl := range []int{l % 5000, 128 + l%300} {
				name := make([]byte, nl)
				for j := range name {
					name[j] = valByte(i, j)
				}
				hdr := refMsgHeader(string(name), 1, int32(i))
				for _, cut := range []int{len(hdr) - 1 - i%4, 8 + nl/2} {
					if cut < 0 || cut >= len(hdr) {
						continue
					}
					if _, _, _, _, e := thrift.Binary.ReadMessageBegin(hdr[:cut:cut]); e == nil {
						return nil, evid.Failf("decode %d: Binary.ReadMessageBegin accepted a header cut to %d of %d bytes", i, cut, len(hdr))
					}
					rd := bufiox.NewBytesReader(hdr[:cut:cut])
					r := thrift.NewBufferReader(rd)
					if _, _, _, e := r.ReadMessageBegin(); e == nil {
						return nil, evid.Failf("decode %d: BufferReader.ReadMessageBegin accepted a header cut to %d of %d bytes", i, cut, len(hdr))
					}
					r.Recycle()
					rd.Release(nil)
				}
			}
			skipKeep = true
		case 9:
			// a binary whose data stops short: the call fails; whatever slice it hands back is the caller's to scribble on
			short := in[: 4+l/2 : 4+l/2]
			if l == 0 {
				skipKeep = true
				break
			}
			rd := bufiox.NewBytesReader(short)
			r := thrift.NewBufferReader(rd)
			jb, e := r.ReadBinary()
			if e == nil {
				return nil, evid.Failf("decode %d: BufferReader.ReadBinary accepted %d of %d declared bytes", i, l/2, l)
			}
			if jb != nil {
				junk = append(junk, jb)
			}
			r.Recycle()
			rd.Release(nil)
			skipKeep = true
		case 10:
			// nested payload: outer binary = [len][bytes]; the string is decoded out of the returned outer slice
			outerIn := append([]byte{byte((l + 4) >> 24), byte((l + 4) >> 16), byte((l + 4) >> 8), byte(l + 4)}, in...)
			outer, _, e := thrift.Binary.ReadBinary(outerIn)
			if e != nil {
				return nil, evid.Failf("decode %d: outer binary: %v", i, e)
			}
			for j := range outerIn {
				outerIn[j] = 0xEE
			}
			kept = append(kept, keptVal{b: outer, isB: true, want: append([]byte(nil), in...), idx: i})
			k.s, _, err = thrift.Binary.ReadString(outer)
		case 11:
			// a struct whose first string field is decoded and whose body is then rejected (an unknown string
			// field with a negative size): whatever string the receiver holds afterwards is the caller's to read,
			// and must not change when the input is reused
			body := append(append([]byte{0x0b, 0, 1}, in...), 0x0b, 0, 9, 0xff, 0xff, 0xff, 0xff, 0)
			var held string
			if i%2 == 0 {
				var ae thrift.ApplicationException
				if _, e := ae.FastRead(body); e == nil {
					return nil, evid.Failf("decode %d: ApplicationException.FastRead accepted a field with a negative size", i)
				}
				held = ae.Msg()
			} else {
				var bs base.Base
				if _, e := bs.FastRead(body); e == nil {
					return nil, evid.Failf("decode %d: Base.FastRead accepted a field with a negative size", i)
				}
				held = bs.LogID
			}
			k.s, k.want = held, []byte(held) // a snapshot of what the receiver holds right after the failed read
			for j := range body {
				body[j] = 0xEE
			}
		case 0:
			k.s, _, err = thrift.Binary.ReadString(in)
		case 1:
			k.b, _, err = thrift.Binary.ReadBinary(in)
			k.isB = true
		case 2, 3:
			rd := bufiox.NewBytesReader(in)
			r := thrift.NewBufferReader(rd)
			if mode == 2 {
				k.b, err = r.ReadBinary()
				k.isB = true
			} else {
				k.s, err = r.ReadString()
			}
			r.Recycle()
			rd.Release(nil)
		case 6: // method name of a message header read by the stream reader, with more data buffered behind it
			msg := append([]byte{0x80, 0x01, 0, 1}, in...)
			msg = append(msg, 0, 0, 0, 9, 0xAA, 0xBB, 0xCC, 0xDD, 0xAA, 0xBB, 0xCC, 0xDD)
			rd := bufiox.NewDefaultReader(faultio.NewScriptReader(msg, faultio.Plan{Chunks: []int{0}, ErrAt: -1}))
			r := thrift.NewBufferReader(rd)
			k.s, _, _, err = r.ReadMessageBegin()
			rd.Release(nil) // unread bytes are moved to the front of the buffer
			if err == nil {
				_, err = rd.Next(8)
			}
			r.Recycle()
			rd.Release(nil)
			for j := range msg {
				msg[j] = 0xEE
			}
		default:
			rd := bufiox.NewDefaultReader(faultio.NewScriptReader(in, faultio.Plan{Chunks: []int{4096, 100}, ErrAt: -1}))
			r := thrift.NewBufferReader(rd)
			if mode == 4 {
				k.b, err = r.ReadBinary()
				k.isB = true
			} else {
				k.s, err = r.ReadString()
			}
			r.Recycle()
			rd.Release(nil) // the reader's buffers go back to the pool and may be reused
		}
		if err != nil {
			return nil, evid.Failf("decode %d (mode %d, %d bytes): %v", i, mode, l, err)
		}
		if !skipKeep {
			kept = append(kept, k)
		}
		// (a) overwrite / reuse the whole input buffer
		full := in[:cap(in)]
		for j := range full {
			full[j] = 0xEE
		}
	}
	cur := func(k *keptVal) []byte {
		if k.isB {
			return k.b
		}
		return []byte(k.s)
	}
	verify := func(when string) *evid.Violation {
		for i := range kept {
			if !bytes.Equal(cur(&kept[i]), kept[i].want) {
				return evid.Failf("%s: value %d (%d bytes, mode %d) no longer equals what was decoded; first difference at %d", when, kept[i].idx, len(kept[i].want), c.Mode[kept[i].idx%len(c.Mode)], firstDiff(cur(&kept[i]), kept[i].want))
			}
		}
		return nil
	}
	if v := verify("after overwriting the input buffer"); v != nil {
		return nil, v
	}
	for i := range kept {
		out = append(out, append([]byte(nil), cur(&kept[i])...))
	}
	// (b) append to every returned byte slice: must not reach a sibling or the input
	for i := range kept {
		if kept[i].isB {
			_ = append(kept[i].b, 0x77, 0x77, 0x77, 0x77)
		}
	}
	if v := verify("after appending to every returned byte slice"); v != nil {
		return nil, v
	}
	for j, x := range in[:cap(in)] {
		if x != 0xEE {
			return nil, evid.Failf("appending to a returned byte slice wrote into the input buffer (offset %d became %#x)", j, x)
		}
	}
	// (b2) slices that failed calls handed back: written over their whole capacity
	for _, jb := range junk {
		jb = jb[:cap(jb)]
		for j := range jb {
			jb[j] = 0x99
		}
	}
	if v := verify("after writing to the slices that failed ReadBinary calls had returned"); v != nil {
		return nil, v
	}
	// (c) overwrite returned byte slices one at a time: siblings must not change
	for i := range kept {
		if !kept[i].isB {
			continue
		}
		for j := range kept[i].b {
			kept[i].b[j] = 0x11
		}
		kept[i].want = bytes.Repeat([]byte{0x11}, len(kept[i].b))
		if v := verify(fmt.Sprintf("after overwriting returned slice %d", kept[i].idx)); v != nil {
			return nil, v
		}
	}
	return out, nil
}

func spanEnabled() bool { return os.Getenv("VERIF_SPAN") == "1" }

// runIndepDelayed decodes every value from a buffer of its own, with contents repeating every third value
// (so that caches keyed on content are hit), keeps all buffers intact until the end and only then
// overwrites them one at a time, re-verifying every value after each. In between the allocator switch is
// flipped off and on when flip is set.
func runIndepDelayed(c *IndepCase, flip bool) *evid.Violation {
	type item struct {
		in   []byte
		s    string
		b    []byte
		isB  bool
		want []byte
	}
	var items []item
	n := len(c.Lens)
	if n > 40 {
		n = 40
	}
	for i := 0; i < n; i++ {
		l := c.Lens[i]
		if l > 70000 {
			l = l % 70000
		}
		content := i % 3 // repeated contents
		mode := c.Mode[i%len(c.Mode)]
		var in []byte
		it := item{}
		if mode == 6 || mode == 7 {
			// message header whose method name is the value
			if l > 200 {
				l = l % 200
			}
			name := make([]byte, l)
			for j := range name {
				name[j] = valByte(content, j)
			}
			in = refMsgHeader(string(name), 1, int32(i))
			it.want = name
			var err error
			if mode == 6 {
				rd := bufiox.NewBytesReader(in)
				r := thrift.NewBufferReader(rd)
				it.s, _, _, err = r.ReadMessageBegin()
				r.Recycle()
			} else {
				it.s, _, _, _, err = thrift.Binary.ReadMessageBegin(in)
			}
			if err != nil {
				return evid.Failf("delayed pass: ReadMessageBegin %d failed: %v", i, err)
			}
		} else {
			in = make([]byte, 4+l)
			in[0], in[1], in[2], in[3] = byte(l>>24), byte(l>>16), byte(l>>8), byte(l)
			for j := 0; j < l; j++ {
				in[4+j] = valByte(content, j)
			}
			it.want = append([]byte(nil), in[4:]...)
			var err error
			if mode%2 == 0 {
				it.s, _, err = thrift.Binary.ReadString(in)
			} else {
				it.b, _, err = thrift.Binary.ReadBinary(in)
				it.isB = true
			}
			if err != nil {
				return evid.Failf("delayed pass: decode %d failed: %v", i, err)
			}
		}
		it.in = in
		items = append(items, it)
		if mode != 6 && mode != 7 {
			// the twin: the same payload from a buffer of its own, decoded right afterwards by the other function
			in2 := append([]byte(nil), in...)
			tw := item{in: in2, want: append([]byte(nil), in2[4:]...)}
			var err error
			if mode%2 == 0 {
				tw.b, _, err = thrift.Binary.ReadBinary(in2)
				tw.isB = true
			} else {
				tw.s, _, err = thrift.Binary.ReadString(in2)
			}
			if err != nil {
				return evid.Failf("delayed pass: twin decode %d failed: %v", i, err)
			}
			items = append(items, tw)
		}
		if flip && i == n/2 {
			thrift.SetSpanCache(false)
			thrift.SetSpanCache(true)
		}
	}
	verify := func(when string) *evid.Violation {
		for i := range items {
			got := []byte(items[i].s)
			if items[i].isB {
				got = items[i].b
			}
			if !bytes.Equal(got, items[i].want) {
				return evid.Failf("%s: value %d (%d bytes) changed; first difference at %d", when, i, len(items[i].want), firstDiff(got, items[i].want))
			}
		}
		return nil
	}
	if v := verify("delayed pass, before any buffer was touched"); v != nil {
		return v
	}
	for i := range items {
		for j := range items[i].in {
			items[i].in[j] = 0xEE
		}
		if v := verify(fmt.Sprintf("delayed pass, after overwriting only the input buffer of decode %d", i)); v != nil {
			return v
		}
	}
	// finally the returned byte slices themselves are written to, one at a time: no other value may follow
	for i := range items {
		if !items[i].isB {
			continue
		}
		for j := range items[i].b {
			items[i].b[j] = 0x22
		}
		items[i].want = bytes.Repeat([]byte{0x22}, len(items[i].b))
		if v := verify(fmt.Sprintf("delayed pass, after writing to the byte slice returned by decode %d", i)); v != nil {
			return v
		}
	}
	return nil
}

func checkIndep(c IndepCase, cv *cov) (v *evid.Violation) {
	if len(c.Lens) == 0 || len(c.Mode) == 0 {
		return nil
	}
	total := 0
	for _, l := range c.Lens {
		if l < 0 || l > 1<<20 {
			return nil
		}
		total += l
	}
	if total > 64<<20 {
		return nil
	}
	var off, on [][]byte
	body := func() {
		// both settings of the span cache; the switch is a process global, flipped only between runs
		thrift.SetSpanCache(false)
		if off, v = runIndep(&c); v != nil {
			v.Msg = "span cache disabled: " + v.Msg
			return
		}
		if v = runIndepDelayed(&c, false); v != nil {
			v.Msg = "span cache disabled: " + v.Msg
			return
		}
		thrift.SetSpanCache(true)
		defer thrift.SetSpanCache(false)
		if on, v = runIndep(&c); v != nil {
			v.Msg = "span cache enabled: " + v.Msg
			return
		}
		if v = runIndepDelayed(&c, true); v != nil {
			v.Msg = "span cache enabled (switched off and on again between decodes): " + v.Msg
			return
		}
		if len(on) != len(off) {
			v = evid.Failf("span cache on/off: %d vs %d results", len(on), len(off))
			return
		}
		for i := range on {
			if !bytes.Equal(on[i], off[i]) {
				v = evid.Failf("value %d differs between span cache enabled and disabled", i)
				return
			}
		}
	}
	if p, st := evid.Safe(body); p != nil {
		thrift.SetSpanCache(false)
		return &evid.Violation{Msg: fmt.Sprintf("panic: %v", p), Stack: st}
	}
	if v != nil {
		return v
	}
	classes := map[int]int{}
	wraps := false
	for _, l := range c.Lens {
		cl := 0
		for x := l; x > 0; x >>= 1 {
			cl++
		}
		classes[cl] += l
		if classes[cl] > 1<<20 {
			wraps = true
		}
	}
	cv.nontrivial = wraps || len(classes) >= 3
	cv.labelIf(wraps, "wraps_1MiB_span")
	cv.labelIf(len(classes) >= 3, ">=3_size_classes")
	return nil
}

func init() { register("c16_independence", checkIndep) }

var indepLens = []int{0, 1, 2, 64, 100, 127, 128, 129, 255, 256, 1000, 4095, 4096, 4097, 16384, 65536, 70000, 131071, 131072, 131073, 200000}

func genIndepCase(t *rapid.T) IndepCase {
	var c IndepCase
	switch rapid.IntRange(0, 4).Draw(t, "shape") {
	case 4: // many small values (below the smallest span class) with a few larger ones in between
		n := rapid.IntRange(10, 120).Draw(t, "nsmall")
		for i := 0; i < n; i++ {
			c.Lens = append(c.Lens, rapid.OneOf(rapid.IntRange(0, 127), rapid.IntRange(0, 127), rapid.IntRange(100, 400)).Draw(t, "slen"))
		}
	case 0: // long run in one size class to wrap the 1 MiB span
		base := rapid.SampledFrom([]int{128, 300, 1000, 5000, 20000, 70000, 131000}).Draw(t, "base")
		n := (1<<20)/base + rapid.IntRange(2, 12).Draw(t, "extra")
		if n > 400 {
			n = 400 + rapid.IntRange(0, 50).Draw(t, "more")
			if base < 3000 {
				base = 3000
			}
		}
		for i := 0; i < n; i++ {
			c.Lens = append(c.Lens, base+i%17)
		}
	default:
		n := rapid.IntRange(1, 60).Draw(t, "n")
		for i := 0; i < n; i++ {
			c.Lens = append(c.Lens, rapid.OneOf(rapid.SampledFrom(indepLens), rapid.IntRange(0, 3000)).Draw(t, "len"))
		}
	}
	c.Mode = rapid.SliceOfN(rapid.IntRange(0, 11), 1, 7).Draw(t, "modes")
	return c
}

func TestC16_Random(t *testing.T) {
	rec := evid.New("C16", "c16_random", "rapid: runs of 1..450 decodes of strings/binaries through Binary.ReadString/ReadBinary and BufferReader.ReadString/ReadBinary (bytes-backed and stream-backed), interleaved with rejected message headers (cut inside the sequence id / the name), BufferReader.ReadBinary calls on data cut short (the slice they hand back is kept and written to later) nested payloads (a string decoded out of a previously returned byte slice, which is overwritten later) and FastRead calls of ApplicationException / Base that decode the string and then reject a later field (the string left in the receiver is kept); lengths from every span-allocator class (0, 1..127, 128..255, ... 64Ki..128Ki-1, >=128Ki) incl. long runs in one class that wrap the 1 MiB span; after each decode the whole input buffer is overwritten and reused; afterwards every returned byte slice is appended to and overwritten one at a time while all other values are re-verified; each case runs with the span cache disabled and enabled and the two result lists must be equal; non-trivial = a run wrapping a span or mixing >= 3 size classes")
	defer rec.Flush()
	rec.Assume("the span-cache switch is a process global; it is flipped only between runs inside one goroutine, never concurrently")
	runRapid(t, rec, "c16_independence", evid.Pick(1000, 6000), genIndepCase, checkIndep)
}
