package props

import (
	"errors"
	"fmt"
	"io"
	"testing"

	"github.com/cloudwego/gopkg/bufiox"
	"github.com/cloudwego/gopkg/protocol/thrift"
	"github.com/cloudwego/gopkg/verifharness/evid"
	"github.com/cloudwego/gopkg/verifharness/faultio"
	"github.com/cloudwego/gopkg/verifharness/ref"
	"pgregory.net/rapid"
)

// ---- C17: decode failures carry the Thrift exception type for their cause ------------------------

// ErrMemCase: an in-memory function applied to bytes.
type ErrMemCase struct {
	Fn   string   `json:"fn"` // skip bool byte i16 i32 i64 double string binary field map list set msg
	T    int8     `json:"t,omitempty"`
	Data evid.Hex `json:"data"`
}

const (
	causeNone = iota
	causeInvalid
	causeNegative
	causeBadVersion
	causeDepth
)

var causeTypeID = map[int]int32{causeInvalid: thrift.INVALID_DATA, causeNegative: thrift.NEGATIVE_SIZE, causeBadVersion: thrift.BAD_VERSION, causeDepth: thrift.DEPTH_LIMIT}
var causeName = map[int]string{causeNone: "none", causeInvalid: "INVALID_DATA", causeNegative: "NEGATIVE_SIZE", causeBadVersion: "BAD_VERSION", causeDepth: "DEPTH_LIMIT"}

// refCause returns the set of acceptable causes for fn on b (empty = the reference sees no failure).
func refCause(fn string, t int8, b []byte) (causes []int, detail string) {
	strCause := func(b []byte) []int {
		if len(b) < 4 {
			return []int{causeInvalid}
		}
		sz := int64(be32at(b, 0))
		if sz >= 1<<31 {
			return []int{causeNegative}
		}
		if int64(len(b)) < 4+sz {
			return []int{causeInvalid}
		}
		return nil
	}
	need := map[string]int{"bool": 1, "byte": 1, "i16": 2, "i32": 4, "i64": 8, "double": 8, "map": 6, "list": 5, "set": 5}
	switch fn {
	case "skip":
		r := ref.Walk(b, t)
		detail = refDesc(r)
		var c []int
		switch r.Class {
		case ref.OK:
			return nil, detail
		case ref.TRUNCATED, ref.UNKNOWN_TYPE:
			c = []int{causeInvalid}
		case ref.NEGATIVE_SIZE:
			c = []int{causeNegative}
		case ref.DEPTH:
			c = []int{causeDepth}
			if r.FailOff >= len(b) {
				c = append(c, causeInvalid) // no byte of the too-deep value exists: truncation is an equally valid cause
			}
		}
		if r.MaxLevel >= 64 && r.Class != ref.DEPTH {
			c = append(c, causeDepth) // boundary zone
		}
		return c, detail
	case "string", "binary":
		return strCause(b), ""
	case "field":
		if len(b) < 1 || (b[0] != 0 && len(b) < 3) {
			return []int{causeInvalid}, ""
		}
		return nil, ""
	case "msg":
		if len(b) < 4 {
			return []int{causeInvalid}, ""
		}
		if be32at(b, 0)&0xffff0000 != 0x80010000 {
			return []int{causeBadVersion}, ""
		}
		if c := strCause(b[4:]); c != nil {
			if c[0] == causeNegative {
				return c, "negative name length"
			}
			return c, ""
		}
		nl := int(be32at(b, 4))
		if len(b) < 8+nl+4 {
			return []int{causeInvalid}, ""
		}
		return nil, ""
	default:
		if n, ok := need[fn]; ok && len(b) < n {
			return []int{causeInvalid}, ""
		}
		return nil, ""
	}
}

func callMem(fn string, t int8, b []byte) error {
	x := thrift.Binary
	var err error
	switch fn {
	case "skip":
		_, err = x.Skip(b, t)
	case "bool":
		_, _, err = x.ReadBool(b)
	case "byte":
		_, _, err = x.ReadByte(b)
	case "i16":
		_, _, err = x.ReadI16(b)
	case "i32":
		_, _, err = x.ReadI32(b)
	case "i64":
		_, _, err = x.ReadI64(b)
	case "double":
		_, _, err = x.ReadDouble(b)
	case "string":
		_, _, err = x.ReadString(b)
	case "binary":
		_, _, err = x.ReadBinary(b)
	case "field":
		_, _, _, err = x.ReadFieldBegin(b)
	case "map":
		_, _, _, _, err = x.ReadMapBegin(b)
	case "list":
		_, _, _, err = x.ReadListBegin(b)
	case "set":
		_, _, _, err = x.ReadSetBegin(b)
	case "msg":
		_, _, _, _, err = x.ReadMessageBegin(b)
	}
	return err
}

func checkErrMem(c ErrMemCase, cv *cov) *evid.Violation {
	b := []byte(c.Data)
	causes, detail := refCause(c.Fn, c.T, b)
	var err error
	if p, st := evid.Safe(func() { err = callMem(c.Fn, c.T, b) }); p != nil {
		return &evid.Violation{Msg: fmt.Sprintf("%s panicked: %v", c.Fn, p), Stack: st}
	}
	if err == nil {
		cv.label("no_error")
		return nil
	}
	if len(causes) == 0 {
		cv.label("impl_failed_where_reference_sees_no_failure")
		return nil // not this property's business (C01/C08)
	}
	var pe *thrift.ProtocolException
	if !errors.As(err, &pe) || pe == nil {
		return evid.Failf("%s(type %d, %s): error %q (%T) is not a *ProtocolException", c.Fn, c.T, hx(b), err, err)
	}
	okc := false
	var names []string
	for _, cs := range causes {
		names = append(names, causeName[cs])
		if pe.TypeId() == causeTypeID[cs] {
			okc = true
		}
	}
	if !okc {
		return evid.Failf("%s(type %d, %s): protocol exception has type id %d (%q); the cause is %v %s", c.Fn, c.T, hx(b), pe.TypeId(), err.Error(), names, detail)
	}
	cv.label("cause_" + names[0])
	cv.label("fn_" + c.Fn)
	cv.nontrivial = !(c.Fn == "skip" && len(b) == 0) && (len(b) >= 4 || causes[0] != causeInvalid)
	cv.key = append([]byte(c.Fn+string([]byte{byte(c.T)})), b...)
	return nil
}

func init() { register("c17_mem", checkErrMem) }

var memFns = []string{"bool", "byte", "i16", "i32", "i64", "double", "string", "binary", "field", "map", "list", "set", "msg"}

func genErrMemCase(t *rapid.T) ErrMemCase {
	if rapid.IntRange(0, 2).Draw(t, "which") > 0 {
		sc := genSkipCase(t)
		return ErrMemCase{Fn: "skip", T: sc.T, Data: sc.Data}
	}
	c := ErrMemCase{Fn: rapid.SampledFrom(memFns).Draw(t, "fn")}
	switch c.Fn {
	case "string", "binary":
		n := rapid.IntRange(0, 20).Draw(t, "n")
		b := ref.Put32(nil, uint32(n))
		b = append(b, patternBytes(3, n)...)
		switch rapid.IntRange(0, 3).Draw(t, "m") {
		case 0:
			b = b[:rapid.IntRange(0, len(b)-1).Draw(t, "cut")]
		case 1:
			v := rapid.SampledFrom(hostileSizes).Draw(t, "sz")
			b[0], b[1], b[2], b[3] = byte(v>>24), byte(v>>16), byte(v>>8), byte(v)
		case 2:
			b[3]++
		}
		c.Data = b
	case "msg":
		name := patternBytes(9, rapid.IntRange(0, 10).Draw(t, "nl"))
		b := refMsgHeader(string(name), 1, 5)
		switch rapid.IntRange(0, 3).Draw(t, "m") {
		case 0:
			b = b[:rapid.IntRange(0, len(b)-1).Draw(t, "cut")]
		case 1:
			w := rapid.OneOf(rapid.Uint32(), rapid.SampledFrom([]uint32{0, 0x80000000, 0x80020000, 0x00010000})).Draw(t, "word")
			b[0], b[1], b[2], b[3] = byte(w>>24), byte(w>>16), byte(w>>8), byte(w)
			if rapid.Bool().Draw(t, "alsoCut") {
				b = b[:rapid.IntRange(0, len(b)-1).Draw(t, "cut")]
			}
		case 2:
			v := rapid.SampledFrom(hostileSizes).Draw(t, "sz")
			b[4], b[5], b[6], b[7] = byte(v>>24), byte(v>>16), byte(v>>8), byte(v)
		}
		c.Data = b
	default:
		c.Data = rapid.SliceOfN(rapid.Byte(), 0, 8).Draw(t, "bytes")
	}
	return c
}

// ErrStreamCase: a stream reader call on a valid encoding whose source fails early.
type ErrStreamCase struct {
	Fn   string       `json:"fn"` // skip or an item kind
	T    int8         `json:"t,omitempty"`
	Data evid.Hex     `json:"data"` // complete valid encoding
	Plan faultio.Plan `json:"plan"` // ErrAt < len(Data)
}

func checkErrStream(c ErrStreamCase, cv *cov) *evid.Violation {
	b := []byte(c.Data)
	if c.Plan.ErrAt < 0 || c.Plan.ErrAt >= len(b) {
		return nil
	}
	// domain: data is a complete valid encoding for fn, so the only cause of failure is the source
	if causes, _ := refCause(c.Fn, c.T, b); len(causes) != 0 {
		return nil
	}
	if c.Fn == "skip" {
		if r := ref.Walk(b, c.T); r.MaxLevel >= 64 || r.N != len(b) {
			return nil
		}
	}
	sr := faultio.NewScriptReader(b, c.Plan)
	injected := sr.Plan.Err()
	br := bufiox.NewDefaultReader(sr)
	r := thrift.NewBufferReader(br)
	var err error
	p, st := evid.Safe(func() {
		switch c.Fn {
		case "skip":
			err = r.Skip(c.T)
		case "bool":
			_, err = r.ReadBool()
		case "byte":
			_, err = r.ReadByte()
		case "i16":
			_, err = r.ReadI16()
		case "i32":
			_, err = r.ReadI32()
		case "i64":
			_, err = r.ReadI64()
		case "double":
			_, err = r.ReadDouble()
		case "string":
			_, err = r.ReadString()
		case "binary":
			_, err = r.ReadBinary()
		case "field":
			_, _, err = r.ReadFieldBegin()
		case "map":
			_, _, _, err = r.ReadMapBegin()
		case "list":
			_, _, err = r.ReadListBegin()
		case "set":
			_, _, err = r.ReadSetBegin()
		case "msg":
			_, _, _, err = r.ReadMessageBegin()
		}
	})
	r.Recycle()
	if p != nil {
		return &evid.Violation{Msg: fmt.Sprintf("BufferReader %s panicked: %v", c.Fn, p), Stack: st}
	}
	if err != nil {
		// the pooled reader object is used again on a stream that fails with a different error; the error
		// returned earlier is a value the caller may still hold and must keep matching its own cause
		other := faultio.Plan{Chunks: []int{0}, ErrAt: 0, ErrKind: (sr.Plan.ErrKind + 1) % 4}
		sr2 := faultio.NewScriptReader(b, other)
		r2 := thrift.NewBufferReader(bufiox.NewDefaultReader(sr2))
		_, err2 := r2.ReadI64()
		r2.Recycle()
		if err2 == nil || !errors.Is(err2, sr2.Plan.Err()) {
			return evid.Failf("BufferReader.ReadI64 on a source failing at once with %q returned %v", sr2.Plan.Err(), err2)
		}
		if !errors.Is(err, injected) {
			return evid.Failf("the error returned by BufferReader %s (source error %q) stopped matching its source error after the pooled reader was recycled and failed again with %q: it now reads %q", c.Fn, injected, sr2.Plan.Err(), err)
		}
	}
	if err == nil {
		// a field begin may legitimately succeed on STOP etc.; needing fewer bytes than errAt is fine
		cv.label("call_needed_fewer_bytes")
		return nil
	}
	if !errors.Is(err, injected) {
		return evid.Failf("BufferReader %s on a valid %d-byte encoding whose source fails at byte %d with %q: returned error %q (%T) does not match the source error under errors.Is", c.Fn, len(b), sr.Plan.ErrAt, injected, err, err)
	}
	// ... and whatever the source error itself matches (its own chain of causes, e.g. io.EOF at the bottom)
	for e, depth := errors.Unwrap(injected), 1; e != nil && depth < 6; e, depth = errors.Unwrap(e), depth+1 {
		if errors.Is(injected, e) && !errors.Is(err, e) {
			return evid.Failf("BufferReader %s: the source failed with %q (%T), which matches its cause %q (%T) under errors.Is; the returned error %q (%T) does not match that cause any more", c.Fn, injected, injected, e, e, err, err)
		}
	}
	if se, ok := injected.(*srcExc); ok {
		var got *srcExc
		if !errors.As(err, &got) || got != se {
			return evid.Failf("BufferReader %s: the source failed with a %T; errors.As on the returned error %q (%T) does not find it", c.Fn, injected, err, err)
		}
	}
	// the caller hands its own failure to Release and goes on reading what is still buffered: the read
	// that then runs out of data still fails because of the source, and must keep matching the source error
	_ = br.Release(errors.New("the caller's own failure, passed to Release"))
	r3 := thrift.NewBufferReader(br)
	var err3 error
	for k := 0; k <= len(b) && err3 == nil; k++ {
		_, err3 = r3.ReadByte()
	}
	r3.Recycle()
	if err3 == nil || !errors.Is(err3, injected) {
		return evid.Failf("BufferReader %s failed with the source error %q; after Release(<another error>) on the bufiox reader, the ReadByte that ran out of data returned %v (%T), which does not match the source error", c.Fn, injected, err3, err3)
	}
	cv.nontrivial = sr.Plan.ErrKind != 0 || sr.Plan.ErrAt > 0
	cv.label("fn_" + c.Fn)
	cv.label(fmt.Sprintf("errkind_%d", sr.Plan.ErrKind))
	cv.labelIf(sr.Plan.WithData, "err_with_data")
	return nil
}

func init() { register("c17_stream", checkErrStream) }

func validFor(t *rapid.T, fn string) ([]byte, int8) {
	switch fn {
	case "skip":
		v := genValue(t, 0, rapid.IntRange(0, 3).Draw(t, "d"), false, false)
		b, _ := ref.Encode(&v)
		return b, v.T
	case "string", "binary":
		n := rapid.SampledFrom([]int{0, 1, 5, 100, 5000}).Draw(t, "n")
		return append(ref.Put32(nil, uint32(n)), patternBytes(1, n)...), 0
	case "msg":
		return refMsgHeader(string(patternBytes(2, rapid.IntRange(0, 9).Draw(t, "nl"))), 2, 77), 0
	case "field":
		return []byte{11, 0, 1}, 0
	case "map":
		return []byte{11, 12, 0, 0, 0, 1}, 0
	case "list", "set":
		return []byte{11, 0, 0, 0, 1}, 0
	case "bool", "byte":
		return []byte{1}, 0
	case "i16":
		return []byte{1, 2}, 0
	case "i32":
		return []byte{1, 2, 3, 4}, 0
	default:
		return []byte{1, 2, 3, 4, 5, 6, 7, 8}, 0
	}
}

func genErrStreamCase(t *rapid.T) ErrStreamCase {
	fn := rapid.SampledFrom(append([]string{"skip", "skip", "skip"}, memFns...)).Draw(t, "fn")
	b, ty := validFor(t, fn)
	c := ErrStreamCase{Fn: fn, T: ty, Data: b}
	c.Plan = faultio.Plan{
		Chunks:   rapid.SliceOfN(rapid.SampledFrom([]int{0, 1, 3, 7}), 1, 2).Draw(t, "chunks"),
		Zeros:    []int{rapid.SampledFrom([]int{0, 0, 1, 3}).Draw(t, "z")},
		WithData: rapid.Bool().Draw(t, "wd"),
		ErrKind:  rapid.IntRange(0, nErrKinds-1).Draw(t, "ek"),
	}
	if len(b) > 0 {
		c.Plan.ErrAt = rapid.IntRange(0, len(b)-1).Draw(t, "errAt")
	}
	return c
}

func TestC17_Mem(t *testing.T) {
	rec := evid.New("C17", "c17_mem", "rapid: the C08 malformed-input generator for Binary.Skip (cuts, structural/size perturbations, nesting 1..70, arbitrary type tags) and cut/hostile-size/bad-version variants of valid inputs for every Binary.Read* and ReadMessageBegin; each failing call must return a *ProtocolException whose TypeId is the one Thrift assigns to the cause found by the reference (truncation/unknown type -> INVALID_DATA, negative size -> NEGATIVE_SIZE, version -> BAD_VERSION, nesting -> DEPTH_LIMIT; a negative name length in a message header is a negative size like any other; tolerances: nesting level 64, a too-deep value of which no byte exists); non-trivial = failing input of >= 4 bytes or a cause other than INVALID_DATA")
	defer rec.Flush()
	runRapid(t, rec, "c17_mem", evid.Pick(60000, 500000), genErrMemCase, checkErrMem)
}

func TestC17_MemExhaustive(t *testing.T) {
	k := evid.Pick(5, 6)
	rec := evid.New("C17", "c17_mem_exhaustive", fmt.Sprintf("bounded-exhaustive: every byte string of length 0..%d over the grammar alphabet x (11 valid type tags + 8 others) through Binary.Skip, and through every Binary.Read*/ReadMessageBegin (prefixed with the strict version word for msg); distinct by construction", k))
	defer rec.Flush()
	types := append([]int8{0, 1, 5, 16, 0x7f, -128, -117, -1}, ref.Types...)
	na := len(grammarAlphabet)
	var failed bool
	lock := make(chan struct{}, 1)
	for L := 0; L <= k; L++ {
		cnt := 1
		for i := 0; i < L; i++ {
			cnt *= na
		}
		parallelFor(cnt, func(idx int, bt *evid.Batch) {
			if failed {
				return
			}
			buf := make([]byte, L)
			x := idx
			for i := 0; i < L; i++ {
				buf[i] = grammarAlphabet[x%na]
				x /= na
			}
			one := func(c ErrMemCase) {
				var cv cov
				v := checkErrMem(c, &cv)
				bt.Evals++
				if cv.nontrivial {
					bt.Distinct++
					bt.Nontrivial++
				}
				for _, l := range cv.labels {
					bt.Labels[l]++
				}
				if v != nil {
					lock <- struct{}{}
					if !failed {
						failed = true
						c.Data = append([]byte(nil), c.Data...)
						failEnum(t, rec, "c17_mem", c, v)
					}
					<-lock
				}
			}
			for _, ty := range types {
				one(ErrMemCase{Fn: "skip", T: ty, Data: buf})
			}
			for _, fn := range memFns {
				one(ErrMemCase{Fn: fn, Data: buf})
			}
			one(ErrMemCase{Fn: "msg", Data: append([]byte{0x80, 0x01, 0x00, 0x02}, buf...)})
		}, rec)
	}
	rec.Sample(ErrMemCase{Fn: "skip", T: ref.LIST, Data: []byte{0x0b, 0, 0, 0, 1, 0xff, 0xff, 0xff, 0xff}})
	rec.SetExhaustive()
}

func TestC17_Stream(t *testing.T) {
	rec := evid.New("C17", "c17_stream", "rapid + enumeration: valid encodings (generated values for Skip; fixed small inputs for every BufferReader.Read*) read through BufferReader over a source that fails at a position before the end of the encoding, with every error value (io.EOF, io.ErrUnexpectedEOF, a sentinel, a wrapped sentinel, a wrapper around a protocol exception, and three exception-shaped errors - with a TypeId method - that wrap io.EOF, a sentinel and a wrapped io.ErrUnexpectedEOF), with/after the last data, chunk sizes and zero reads; a failing call must satisfy errors.Is(err, source error), errors.Is(err, every cause in the source error's own chain) and errors.As for the source's type; the enumeration covers every error position of every fixed input x 8 error values x with/after data; non-trivial = error value other than io.EOF or error position > 0")
	defer rec.Flush()
	// enumeration of every error position for the fixed inputs and a few generated values
	b := evid.NewBatch()
	fixed := []ErrStreamCase{}
	for _, fn := range memFns {
		var data []byte
		switch fn {
		case "string", "binary":
			data = append(ref.Put32(nil, 9), []byte("nine byte")...)
		case "msg":
			data = refMsgHeader("method", 1, 3)
		case "field":
			data = []byte{11, 0, 1}
		case "map":
			data = []byte{11, 12, 0, 0, 0, 1}
		case "list", "set":
			data = []byte{11, 0, 0, 0, 1}
		case "bool", "byte":
			data = []byte{1}
		case "i16":
			data = []byte{1, 2}
		case "i32":
			data = []byte{1, 2, 3, 4}
		default:
			data = []byte{1, 2, 3, 4, 5, 6, 7, 8}
		}
		fixed = append(fixed, ErrStreamCase{Fn: fn, Data: data})
	}
	sv := ref.Value{T: ref.STRUCT, Fields: []ref.Field{{ID: 1, V: ref.Value{T: ref.STRING, Str: []byte("abc")}}, {ID: 2, V: ref.Value{T: ref.MAP, KT: ref.I32, ET: ref.LIST, Elems: []ref.Value{{T: ref.I32, Bits: 1}, {T: ref.LIST, ET: ref.I64, Elems: []ref.Value{{T: ref.I64, Bits: 9}}}}}}}}
	enc, _ := ref.Encode(&sv)
	fixed = append(fixed, ErrStreamCase{Fn: "skip", T: ref.STRUCT, Data: enc})
	for _, fc := range fixed {
		for at := 0; at < len(fc.Data); at++ {
			for ek := 0; ek < nErrKinds; ek++ {
				for _, wd := range []bool{false, true} {
					for _, ch := range []int{0, 1, 3} {
						c := fc
						c.Plan = faultio.Plan{Chunks: []int{ch}, ErrAt: at, ErrKind: ek, WithData: wd}
						var cv cov
						if v := checkErrStream(c, &cv); v != nil {
							failEnum(t, rec, "c17_stream", c, v)
							rec.Merge(b)
							return
						}
						b.Evals++
						if cv.nontrivial {
							b.Distinct++
							b.Nontrivial++
						}
						for _, l := range cv.labels {
							b.Labels[l]++
						}
					}
				}
			}
		}
	}
	rec.Merge(b)
	runRapid(t, rec, "c17_stream", evid.Pick(30000, 300000), genErrStreamCase, checkErrStream)
}

// srcExc is a source error that looks like a Thrift exception (it has a type id) and wraps the real cause:
// what a transport layer hands up when a connection ends.
type srcExc struct {
	id    int32
	cause error
}

func (e *srcExc) Error() string { return "transport: " + e.cause.Error() }
func (e *srcExc) TypeId() int32 { return e.id }
func (e *srcExc) Unwrap() error { return e.cause }

const nErrKinds = 8

func init() {
	// ErrKind 5..7: exception-shaped source errors wrapping io.EOF / a sentinel / a wrapped io.ErrUnexpectedEOF
	faultio.ExtraErrs = []error{
		&srcExc{id: 3, cause: io.EOF},
		&srcExc{id: 0, cause: faultio.ErrInjected},
		&srcExc{id: 4, cause: fmt.Errorf("conn reset: %w", io.ErrUnexpectedEOF)},
	}
	// ErrKind 4: a source error that is itself a wrapper around a protocol exception (e.g. a proxy that failed
	// while decoding upstream); the stream reader must still hand back an error matching the outer value
	faultio.CustomErr = fmt.Errorf("upstream conn 7: %w", thrift.NewProtocolException(thrift.INVALID_DATA, "upstream sent garbage"))
}

// ---- a reader whose error changes from call to call ----------------------------------------------------

// ChangingErrCase: a BufferReader over a bufiox.Reader that is not sticky: the first call fails with error A
// (the data is not there yet), then the data arrives and the call succeeds, then the stream ends with error B.
type ChangingErrCase struct {
	Fn   string `json:"fn"`
	KA   int    `json:"ka"`
	KB   int    `json:"kb"`
	Cut1 int    `json:"cut1"`
	Cut2 int    `json:"cut2"`
}

func checkChangingErr(c ChangingErrCase, cv *cov) (v *evid.Violation) {
	data := fixedInputFor(c.Fn)
	if data == nil || c.Cut1 < 0 || c.Cut1 >= len(data) || c.Cut2 < 0 || c.Cut2 >= len(data) || c.KA == c.KB {
		return nil
	}
	pa, pb := faultio.Plan{ErrKind: c.KA}, faultio.Plan{ErrKind: c.KB}
	errA, errB := pa.Err(), pb.Err()
	if errors.Is(errA, errB) {
		return nil // the second failure must be tellable from the first: B may well wrap A (a teardown error wrapping io.EOF after a bare io.EOF), but A must not match B
	}
	if c.Fn == "field" && (c.Cut1 == 0 || c.Cut2 == 0) {
		// fine
	}
	call := func(r *thrift.BufferReader) (err error) {
		switch c.Fn {
		case "bool":
			_, err = r.ReadBool()
		case "byte":
			_, err = r.ReadByte()
		case "i16":
			_, err = r.ReadI16()
		case "i32":
			_, err = r.ReadI32()
		case "i64":
			_, err = r.ReadI64()
		case "double":
			_, err = r.ReadDouble()
		case "string":
			_, err = r.ReadString()
		case "binary":
			_, err = r.ReadBinary()
		case "field":
			_, _, err = r.ReadFieldBegin()
		case "map":
			_, _, _, err = r.ReadMapBegin()
		case "list":
			_, _, err = r.ReadListBegin()
		case "set":
			_, _, err = r.ReadSetBegin()
		case "msg":
			_, _, _, err = r.ReadMessageBegin()
		case "skip":
			err = r.Skip(ref.STRING)
		}
		return
	}
	body := func() {
		src := &faultio.StrictReader{Data: append([]byte(nil), data[:c.Cut1]...), Err: errA}
		r := thrift.NewBufferReader(src)
		defer r.Recycle()
		err1 := call(r)
		if err1 == nil {
			return // needed fewer bytes
		}
		if !errors.Is(err1, errA) {
			v = evid.Failf("BufferReader %s over a reader failing with %q returned %q (%T)", c.Fn, errA, err1, err1)
			return
		}
		// the rest arrives; the same call now succeeds (the failed one consumed nothing from this reader)
		src.Data = append(append(append([]byte(nil), src.Data[:src.Pos]...), data[src.Pos:]...), data[:c.Cut2]...)
		src.Err = errB
		if c.Fn == "string" || c.Fn == "binary" || c.Fn == "skip" || c.Fn == "msg" {
			// these calls consume their length prefix / first part before they fail: start over on a fresh stream
			src.Data, src.Pos = append(append([]byte(nil), data...), data[:c.Cut2]...), 0
		}
		if err2 := call(r); err2 != nil {
			v = evid.Failf("BufferReader %s failed with %q although the reader now holds a complete encoding", c.Fn, err2)
			return
		}
		err3 := call(r)
		if err3 == nil {
			return
		}
		if !errors.Is(err3, errB) {
			v = evid.Failf("BufferReader %s: its reader first failed with %q, then delivered data, then failed with %q; the error returned for the second failure is %q (%T), which does not match %q under errors.Is", c.Fn, errA, errB, err3, err3, errB)
			return
		}
		if !errors.Is(err1, errA) {
			v = evid.Failf("the error returned for the first failure stopped matching %q after later calls", errA)
			return
		}
		cv.nontrivial = true
	}
	if p, st := evid.Safe(body); p != nil {
		return &evid.Violation{Msg: fmt.Sprintf("panic: %v", p), Stack: st}
	}
	return v
}

func fixedInputFor(fn string) []byte {
	switch fn {
	case "string", "binary", "skip":
		return append(ref.Put32(nil, 9), []byte("nine byte")...)
	case "msg":
		return refMsgHeader("method", 1, 3)
	case "field":
		return []byte{11, 0, 1}
	case "map":
		return []byte{11, 12, 0, 0, 0, 1}
	case "list", "set":
		return []byte{11, 0, 0, 0, 1}
	case "bool", "byte":
		return []byte{1}
	case "i16":
		return []byte{1, 2}
	case "i32":
		return []byte{1, 2, 3, 4}
	case "i64", "double":
		return []byte{1, 2, 3, 4, 5, 6, 7, 8}
	}
	return nil
}

func init() { register("c17_changing_errors", checkChangingErr) }

func TestC17_ChangingErrors(t *testing.T) {
	rec := evid.New("C17", "c17_changing_errors", "enumeration: every BufferReader.Read* and Skip over a bufiox.Reader whose error is not sticky (a connection that times out, delivers, and later ends): first failure with error A at every cut of a fixed input, then the complete input is there and the call succeeds, then failure with error B at every cut; A, B over all ordered pairs of the 8 error values that are tellable apart; errors.Is(second failure, B) and errors.Is(first failure, A) must hold; distinct by construction; non-trivial = both failures happened")
	defer rec.Flush()
	b := evid.NewBatch()
	fns := append([]string{"skip"}, memFnsNoSkip()...)
	for _, fn := range fns {
		data := fixedInputFor(fn)
		for ka := 0; ka < nErrKinds; ka++ {
			for kb := 0; kb < nErrKinds; kb++ {
				for c1 := 0; c1 < len(data); c1++ {
					for _, c2 := range []int{0, len(data) / 2, len(data) - 1} {
						c := ChangingErrCase{Fn: fn, KA: ka, KB: kb, Cut1: c1, Cut2: c2}
						var cv cov
						v := checkChangingErr(c, &cv)
						b.Evals++
						if cv.nontrivial {
							b.Distinct++
							b.Nontrivial++
						}
						if v != nil {
							failEnum(t, rec, "c17_changing_errors", c, v)
							rec.Merge(b)
							return
						}
					}
				}
			}
		}
	}
	rec.Merge(b)
	rec.Sample(ChangingErrCase{Fn: "i64", KA: 2, KB: 0, Cut1: 3, Cut2: 4})
}

func memFnsNoSkip() []string {
	var out []string
	for _, f := range memFns {
		if f != "skip" {
			out = append(out, f)
		}
	}
	return out
}

// ---- a source failure that follows a rejection by the grammar, on the same reader ------------------------

// AfterRejectCase: the first call on a BufferReader is rejected for a reason that lies in the bytes (depth limit,
// negative size, unknown type, bad version); later calls on the same reader run into the end of the source,
// which fails with error kind K.
type AfterRejectCase struct {
	Rej   int  `json:"rej"` // 0 depth limit, 1 negative size (ReadString), 2 negative size (Skip), 3 unknown type, 4 bad version
	K     int  `json:"k"`
	Chunk int  `json:"chunk"`
	With  bool `json:"with"`
}

func checkAfterReject(c AfterRejectCase, cv *cov) (v *evid.Violation) {
	var data []byte
	switch c.Rej {
	case 0:
		for i := 0; i < 66; i++ {
			data = append(data, byte(ref.LIST), 0, 0, 0, 1)
		}
		data = append(data, byte(ref.BYTE), 0, 0, 0, 0)
	case 1, 2:
		data = []byte{0xff, 0xff, 0xff, 0xff, 1, 2, 3}
	case 3:
		data = []byte{1, 2, 3, 4, 5}
	case 4:
		data = []byte{0, 0, 0, 1, 0, 0, 0, 1, 'm', 0, 0, 0, 1, 9}
	default:
		return nil
	}
	plan := faultio.Plan{Chunks: []int{c.Chunk}, ErrAt: -1, ErrKind: c.K, WithData: c.With}
	sr := faultio.NewScriptReader(data, plan)
	injected := sr.Plan.Err()
	wantT := []int32{thrift.DEPTH_LIMIT, thrift.NEGATIVE_SIZE, thrift.NEGATIVE_SIZE, thrift.INVALID_DATA, thrift.BAD_VERSION}[c.Rej]
	body := func() {
		r := thrift.NewBufferReader(bufiox.NewDefaultReader(sr))
		defer r.Recycle()
		var err error
		switch c.Rej {
		case 0:
			err = r.Skip(thrift.LIST)
		case 1:
			_, err = r.ReadString()
		case 2:
			err = r.Skip(thrift.STRING)
		case 3:
			err = r.Skip(thrift.TType(0x40))
		default:
			_, _, _, err = r.ReadMessageBegin()
		}
		var pe *thrift.ProtocolException
		if err == nil || !errors.As(err, &pe) || pe.TypeId() != wantT {
			v = evid.Failf("rejection %d: got %v (%T), want a protocol exception with type id %d", c.Rej, err, err, wantT)
			return
		}
		if errors.Is(err, injected) && c.K >= 2 {
			v = evid.Failf("rejection %d: the error %q matches the source error %q although the source has not failed", c.Rej, err, injected)
			return
		}
		// the caller goes on reading until the source ends
		for i := 0; i < len(data)+2; i++ {
			_, e := r.ReadI64()
			if e == nil {
				continue
			}
			if !errors.Is(e, injected) {
				v = evid.Failf("on a BufferReader whose first call had been rejected (%q), the source later ended with %q; ReadI64 returned %q (%T), which does not match the source error under errors.Is", err, injected, e, e)
			}
			cv.nontrivial = true
			return
		}
		v = evid.Failf("ReadI64 kept succeeding beyond the %d bytes of the stream", len(data))
	}
	if p, st := evid.Safe(body); p != nil {
		return &evid.Violation{Msg: fmt.Sprintf("panic: %v", p), Stack: st}
	}
	return v
}

func init() { register("c17_after_rejection", checkAfterReject) }

func TestC17_AfterRejection(t *testing.T) {
	rec := evid.New("C17", "c17_after_rejection", "enumeration: 5 rejections by the grammar (depth limit in Skip, negative size in ReadString and in Skip, unknown type in Skip, bad version in ReadMessageBegin; each must carry its own type id and must not match the source error) x 8 source error values x chunk sizes {0, 1, 3} x error with/after the last data: the same BufferReader is then read to the end of its source, and the failure it reports there must match the source error; distinct by construction")
	defer rec.Flush()
	b := evid.NewBatch()
	for rej := 0; rej < 5; rej++ {
		for k := 0; k < nErrKinds; k++ {
			for _, ch := range []int{0, 1, 3} {
				for _, with := range []bool{false, true} {
					c := AfterRejectCase{Rej: rej, K: k, Chunk: ch, With: with}
					var cv cov
					v := checkAfterReject(c, &cv)
					b.Evals++
					b.Distinct++
					if cv.nontrivial {
						b.Nontrivial++
					}
					if v != nil {
						failEnum(t, rec, "c17_after_rejection", c, v)
						rec.Merge(b)
						return
					}
				}
			}
		}
	}
	rec.Merge(b)
	rec.SetExhaustive()
}
