package props

import (
	"bytes"
	"fmt"
	"os"
	"os/exec"
	"runtime"
	"sync"
	"sync/atomic"
	"syscall"
	"testing"
	"unsafe"

	"github.com/cloudwego/gopkg/unsafex"
	"github.com/cloudwego/gopkg/verifharness/evid"
	"pgregory.net/rapid"
)

// ---- C20: zero-copy string/bytes conversions -------------------------------------------------------

// ConvCase: a parent buffer and a sub-range [I:J] with capacity limit K.
type ConvCase struct {
	Parent int  `json:"parent"` // parent length (pattern content)
	I      int  `json:"i"`
	J      int  `json:"j"`
	K      int  `json:"k"`             // capacity bound for the byte sub-slice b[i:j:k]
	Nil    bool `json:"nil,omitempty"` // use a nil slice / empty literal instead
}

func checkConv(c ConvCase, cv *cov) (v *evid.Violation) {
	if c.Parent < 0 || c.Parent > 1<<20 || c.I < 0 || c.I > c.J || c.J > c.K || c.K > c.Parent {
		return nil
	}
	body := func() {
		if c.Nil {
			if s := unsafex.BinaryToString(nil); s != "" {
				v = evid.Failf("BinaryToString(nil) = %q", s)
				return
			}
			if s := unsafex.BinaryToString([]byte{}); s != "" {
				v = evid.Failf("BinaryToString(empty) = %q", s)
				return
			}
			b := opaqueBytes(unsafex.StringToBinary(""))
			if len(b) != 0 || cap(b) != 0 {
				v = evid.Failf("StringToBinary(\"\") has len %d cap %d", len(b), cap(b))
				return
			}
			return
		}
		parent := patternBytes(byte(c.Parent), c.Parent)
		sub := parent[c.I:c.J:c.K]
		s := unsafex.BinaryToString(sub)
		if len(s) != len(sub) || s != string(sub) {
			v = evid.Failf("BinaryToString(b[%d:%d:%d]): len %d, content equal=%v", c.I, c.J, c.K, len(s), s == string(sub))
			return
		}
		if len(sub) > 0 && unsafe.StringData(s) != &sub[0] {
			v = evid.Failf("BinaryToString(b[%d:%d:%d]) does not share memory with its argument (it copied)", c.I, c.J, c.K)
			return
		}
		// string side: a substring of a larger string; the harness never writes through these pointers
		ps := string(parent)
		ss := ps[c.I:c.J]
		b := opaqueBytes(unsafex.StringToBinary(ss))
		if len(b) != len(ss) || !bytes.Equal(b, []byte(ss)) {
			v = evid.Failf("StringToBinary(s[%d:%d]): len %d want %d, content equal=%v", c.I, c.J, len(b), len(ss), bytes.Equal(b, []byte(ss)))
			return
		}
		if cap(b) != len(b) {
			v = evid.Failf("StringToBinary(s[%d:%d]) has cap %d > len %d: append could write into the string's memory", c.I, c.J, cap(b), len(b))
			return
		}
		if len(ss) > 0 && &b[0] != unsafe.StringData(ss) {
			v = evid.Failf("StringToBinary(s[%d:%d]) does not share memory with its argument (it copied)", c.I, c.J)
			return
		}
		b2 := append(b, 'X', 'Y')
		_ = b2
		if ps != string(parent) {
			v = evid.Failf("append to StringToBinary(s[%d:%d]) changed the parent string", c.I, c.J)
			return
		}
	}
	if p, st := evid.Safe(body); p != nil {
		return &evid.Violation{Msg: fmt.Sprintf("panic: %v", p), Stack: st}
	}
	if v != nil {
		return v
	}
	cv.nontrivial = !c.Nil && (c.K > c.J || c.J < c.Parent || c.I > 0)
	cv.labelIf(c.Nil, "nil_or_empty")
	cv.labelIf(!c.Nil && c.I == c.J, "empty_subslice")
	cv.labelIf(!c.Nil && c.K > c.J, "spare_capacity")
	cv.labelIf(!c.Nil && c.J < c.Parent, "substring_of_larger_string")
	return nil
}

func init() { register("c20_conv", checkConv) }

func genConvCase(t *rapid.T) ConvCase {
	if rapid.IntRange(0, 19).Draw(t, "nil") == 0 {
		return ConvCase{Nil: true}
	}
	n := rapid.OneOf(rapid.IntRange(0, 64), rapid.IntRange(0, 5000), rapid.SampledFrom([]int{0, 1, 4096, 70000})).Draw(t, "parent")
	i := rapid.IntRange(0, n).Draw(t, "i")
	j := rapid.IntRange(i, n).Draw(t, "j")
	k := rapid.IntRange(j, n).Draw(t, "k")
	return ConvCase{Parent: n, I: i, J: j, K: k}
}

func TestC20_Random(t *testing.T) {
	rec := evid.New("C20", "c20_random", "rapid: byte sub-slices b[i:j:k] (spare capacity, empty, nil) of parents of 0..70000 pattern bytes and substrings s[i:j] of larger strings; BinaryToString must keep length/content and share memory (data pointer == &b[i]); StringToBinary must keep length/content, share memory, have cap == len, and appending to it must leave the parent string unchanged; non-trivial = sub-slice with spare capacity or a proper substring")
	defer rec.Flush()
	rec.Assume("only the go1.21+ implementation file is compiled by the installed toolchains; the legacy file cannot be exercised here")
	runRapid(t, rec, "c20_conv", evid.Pick(150000, 2000000), genConvCase, checkConv)
}

func TestC20_Small(t *testing.T) {
	rec := evid.New("C20", "c20_small", "enumeration: every (i,j,k) with 0 <= i <= j <= k <= n for every parent length n = 0..24, plus the nil/empty inputs; distinct by construction")
	defer rec.Flush()
	b := evid.NewBatch()
	run := func(c ConvCase) bool {
		var cv cov
		if v := checkConv(c, &cv); v != nil {
			failEnum(t, rec, "c20_conv", c, v)
			return false
		}
		b.Evals++
		b.Distinct++
		if cv.nontrivial {
			b.Nontrivial++
		}
		for _, l := range cv.labels {
			b.Labels[l]++
		}
		return true
	}
	ok := run(ConvCase{Nil: true})
	for n := 0; n <= 24 && ok; n++ {
		for i := 0; i <= n && ok; i++ {
			for j := i; j <= n && ok; j++ {
				for k := j; k <= n && ok; k++ {
					ok = run(ConvCase{Parent: n, I: i, J: j, K: k})
				}
			}
		}
	}
	rec.Merge(b)
	rec.Sample(ConvCase{Parent: 24, I: 3, J: 9, K: 17})
	rec.SetExhaustive()
}

// TestC20_BigCaps: short sub-slices of very large buffers, converted several times in a row.
func TestC20_BigCaps(t *testing.T) {
	rec := evid.New("C20", "c20_bigcaps", "enumeration: sub-slices of length {0,1,2,8,9,16,17,4096} at offsets {0,1,cap-len} of buffers with capacity {2^k-1, 2^k, 2^k+1 : k = 15..21} (with and without spare capacity), each converted 6 times in a row by BinaryToString and its string by StringToBinary; sharing, length, content and cap == len are checked on every call; distinct by construction")
	defer rec.Flush()
	b := evid.NewBatch()
	for k := 15; k <= 21; k++ {
		for _, d := range []int{-1, 0, 1} {
			capN := 1<<k + d
			parent := make([]byte, capN)
			for i := range parent {
				parent[i] = byte(i*7 + 3)
			}
			ps := string(parent)
			for _, l := range []int{0, 1, 2, 8, 9, 16, 17, 4096} {
				for _, off := range []int{0, 1, capN - l} {
					for _, spare := range []bool{true, false} {
						sub := parent[off : off+l]
						if !spare {
							sub = parent[off : off+l : off+l]
						}
						for rep := 0; rep < 6; rep++ {
							s := unsafex.BinaryToString(sub)
							if len(s) != l || s != string(sub) || (l > 0 && unsafe.StringData(s) != &sub[0]) {
								c := ConvCase{Parent: capN, I: off, J: off + l, K: capN}
								failEnum(t, rec, "c20_conv", c, evid.Failf("BinaryToString (call %d in a row) on a %d-byte sub-slice at offset %d of a buffer with capacity %d (spare capacity %v): does not share memory / wrong content", rep+1, l, off, capN, spare))
								rec.Merge(b)
								return
							}
							ss := ps[off : off+l]
							bb := opaqueBytes(unsafex.StringToBinary(ss))
							if len(bb) != l || cap(bb) != l || !bytes.Equal(bb, []byte(ss)) || (l > 0 && &bb[0] != unsafe.StringData(ss)) {
								c := ConvCase{Parent: capN, I: off, J: off + l, K: capN}
								failEnum(t, rec, "c20_conv", c, evid.Failf("StringToBinary (call %d in a row) on a %d-byte substring at offset %d of a %d-byte string: len %d cap %d", rep+1, l, off, capN, len(bb), cap(bb)))
								rec.Merge(b)
								return
							}
							b.Evals++
						}
						b.Distinct++
						b.Nontrivial++
					}
				}
			}
		}
	}
	rec.Merge(b)
	rec.Sample(map[string]interface{}{"cap": 1 << 20, "len": 1, "offset": 0, "calls_in_a_row": 6})
	rec.SetExhaustive()
}

// TestC20_FirstUse: the very first conversions of a process, made by many goroutines at once (lazy
// process-wide initialisation must not be observable). The test binary re-executes itself.
func TestC20_FirstUse(t *testing.T) {
	if os.Getenv("VERIF_C20_CHILD") == "1" {
		c20FirstUseChild()
		return
	}
	rec := evid.New("C20", "c20_firstuse", "fresh processes (the test binary re-executed), each starting 8 goroutines that perform the process's first conversions simultaneously behind a spin barrier and check sharing, length, content and cap == len; every child process is one evaluation; non-trivial = always (a fresh process)")
	defer rec.Flush()
	n := evid.Pick(60, 300)
	b := evid.NewBatch()
	for i := 0; i < n; i++ {
		cmd := exec.Command(os.Args[0], "-test.run", "^TestC20_FirstUse$")
		cmd.Env = append(os.Environ(), "VERIF_C20_CHILD=1", "VERIF_OUT=")
		out, err := cmd.CombinedOutput()
		b.Evals++
		b.Distinct++
		b.Nontrivial++
		if err != nil && !bytes.Contains(out, []byte("C20-FIRST-USE-FAILED")) {
			// the child could not run (resources, signals): inconclusive for this child, never a violation
			b.Labels["child_could_not_run"]++
			continue
		}
		if bytes.Contains(out, []byte("C20-FIRST-USE-FAILED")) {
			msg := string(out)
			if len(msg) > 600 {
				msg = msg[:600]
			}
			failEnum(t, rec, "c20_conv", ConvCase{Parent: 12, I: 0, J: 12, K: 12}, evid.Failf("first conversions of a fresh process made by 8 goroutines at once (child %d): %s", i, msg))
			break
		}
	}
	rec.Merge(b)
	rec.Sample(map[string]interface{}{"child_processes": n, "goroutines_per_child": 8})
}

func c20FirstUseChild() {
	const g = 8
	runtime.GOMAXPROCS(16)
	var ready int32
	var wg sync.WaitGroup
	start := make(chan struct{})
	fails := make(chan string, g)
	for i := 0; i < g; i++ {
		wg.Add(1)
		go func(i int) {
			defer wg.Done()
			buf := []byte("hello, first use")[:12:16]
			str := "a string literal of some length"[2:14]
			<-start
			// spin barrier: all goroutines leave it within a few nanoseconds of each other
			atomic.AddInt32(&ready, 1)
			for atomic.LoadInt32(&ready) < g {
			}
			s := unsafex.BinaryToString(buf)
			bb := opaqueBytes(unsafex.StringToBinary(str))
			if len(s) != 12 || s != "hello, first" || unsafe.StringData(s) != &buf[0] {
				fails <- "BinaryToString did not share memory / wrong content"
			}
			if len(bb) != 12 || cap(bb) != 12 || &bb[0] != unsafe.StringData(str) || string(bb) != str {
				fails <- fmt.Sprintf("StringToBinary: len %d cap %d shared %v", len(bb), cap(bb), &bb[0] == unsafe.StringData(str))
			}
		}(i)
	}
	close(start)
	wg.Wait()
	close(fails)
	for f := range fails {
		fmt.Println("C20-FIRST-USE-FAILED:", f)
		os.Exit(3)
	}
}

// ---- very large inputs (lengths around 2^31 and 2^32) ------------------------------------------------

// HugeConvCase: a sub-slice [Off, Off+Len) of one 4 GiB + 64 KiB anonymous mapping (never reserved or
// touched except for two pages per case).
type HugeConvCase struct {
	Off int64 `json:"off"`
	Len int64 `json:"len"`
}

const hugeMapSize = 4<<30 + 64<<10

var (
	hugeOnce sync.Once
	hugeMem  []byte
)

func hugeMapping() []byte {
	hugeOnce.Do(func() {
		m, err := syscall.Mmap(-1, 0, hugeMapSize, syscall.PROT_READ|syscall.PROT_WRITE, syscall.MAP_ANON|syscall.MAP_PRIVATE|syscall.MAP_NORESERVE)
		if err == nil {
			hugeMem = m
		}
	})
	return hugeMem
}

// opaqueBytes hands a conversion result through a call the compiler cannot see through: it then has to assume
// that the bytes may be written, and cannot quietly replace a copying conversion by a sharing one (or the other
// way round) at this call site only.
//
//go:noinline
func opaqueBytes(b []byte) []byte { return b }

func checkHugeConv(c HugeConvCase, cv *cov) (v *evid.Violation) {
	if c.Off < 0 || c.Len < 1 || c.Off+c.Len > hugeMapSize {
		return nil
	}
	m := hugeMapping()
	if m == nil {
		cv.label("huge mapping unavailable")
		return nil
	}
	body := func() {
		sub := m[c.Off : c.Off+c.Len : c.Off+c.Len]
		// mark the first and last bytes (touches at most two pages)
		first, last := byte(c.Len*7+c.Off+1)|1, byte(c.Len*13+c.Off+5)|2
		sub[0], sub[len(sub)-1] = first, last
		if len(sub) > 1 {
			sub[0] = first
		}
		s := unsafex.BinaryToString(sub)
		if int64(len(s)) != c.Len {
			v = evid.Failf("BinaryToString on a %d-byte slice returns a string of length %d", c.Len, len(s))
			return
		}
		if unsafe.StringData(s) != &sub[0] {
			v = evid.Failf("BinaryToString on a %d-byte slice does not share memory with its argument", c.Len)
			return
		}
		if s[0] != sub[0] || s[len(s)-1] != sub[len(sub)-1] {
			v = evid.Failf("BinaryToString on a %d-byte slice: first/last byte differ from the argument", c.Len)
			return
		}
		b := opaqueBytes(unsafex.StringToBinary(s))
		if int64(len(b)) != c.Len || int64(cap(b)) != c.Len {
			v = evid.Failf("StringToBinary on a %d-byte string returns len %d cap %d (cap must equal len)", c.Len, len(b), cap(b))
			return
		}
		if &b[0] != unsafe.StringData(s) {
			v = evid.Failf("StringToBinary on a %d-byte string does not share memory with its argument (it copied)", c.Len)
			return
		}
		if b[0] != sub[0] || b[len(b)-1] != sub[len(sub)-1] {
			v = evid.Failf("StringToBinary on a %d-byte string: first/last byte differ", c.Len)
			return
		}
		// sharing means that a write through the result is seen through the argument (the memory behind this
		// string is a writable mapping). A compiler may turn a conversion that copies into one that does not when
		// the result is only read, so reading alone cannot tell the two apart.
		b[len(b)-1] ^= 0xff
		if sub[len(sub)-1] != last^0xff || s[len(s)-1] != last^0xff {
			v = evid.Failf("StringToBinary on a %d-byte string: a write through the result is not seen through the string (the result is a copy)", c.Len)
			return
		}
		b[len(b)-1] ^= 0xff
	}
	if p, st := evid.Safe(body); p != nil {
		return &evid.Violation{Msg: fmt.Sprintf("panic: %v", p), Stack: st}
	}
	cv.nontrivial = c.Len >= 1<<31-1
	cv.labelIf(c.Len >= 1<<32, "len >= 2^32")
	cv.labelIf(c.Len >= 1<<31 && c.Len < 1<<32, "2^31 <= len < 2^32")
	cv.labelIf(c.Len < 1<<31, "len < 2^31")
	return v
}

func init() { register("c20_huge", checkHugeConv) }

func TestC20_Huge(t *testing.T) {
	rec := evid.New("C20", "c20_huge", "rapid + boundary list: sub-slices of one 4 GiB + 64 KiB anonymous no-reserve mapping with lengths drawn around 2^16, 2^24, 2^31 and 2^32 (each +-0..9) and uniformly up to the mapping size, at offsets 0..4095; length, sharing (data pointers), cap == len and the first and last byte are checked without copying; non-trivial = length >= 2^31-1")
	defer rec.Flush()
	if hugeMapping() == nil {
		rec.Assume("the 4 GiB no-reserve mapping could not be created in this environment; the check did not run")
		return
	}
	for _, base := range []int64{1 << 31, 1 << 32} {
		for d := int64(-2); d <= 7; d++ {
			for _, off := range []int64{0, 1, 4095} {
				c := HugeConvCase{Off: off, Len: base + d}
				var cv cov
				viol := checkHugeConv(c, &cv)
				rec.Count(evid.HashJSON(c), cv.nontrivial, func() interface{} { return c }, cv.labels...)
				if viol != nil {
					failEnum(t, rec, "c20_huge", c, viol)
					return
				}
			}
		}
	}
	runRapid(t, rec, "c20_huge", evid.Pick(3000, 20000), func(t *rapid.T) HugeConvCase {
		off := int64(rapid.IntRange(0, 4095).Draw(t, "off"))
		var l int64
		switch rapid.IntRange(0, 4).Draw(t, "lenKind") {
		case 0:
			l = int64(rapid.SampledFrom([]int64{1 << 16, 1 << 24, 1 << 31, 1 << 32}).Draw(t, "base")) + int64(rapid.IntRange(-9, 9).Draw(t, "d"))
		case 1:
			l = rapid.Int64Range(1, 1<<20).Draw(t, "small")
		default:
			l = rapid.Int64Range(1, hugeMapSize-4096).Draw(t, "len")
		}
		return HugeConvCase{Off: off, Len: l}
	}, checkHugeConv)
}

// ---- arguments that a compiler could keep in a stack frame ---------------------------------------------

// StackConvCase: BinaryToString of a fixed-size local array, whose result outlives the function that
// created the array; afterwards other functions use (and overwrite) that part of the stack.
type StackConvCase struct {
	Size  int  `json:"size"` // 16, 48, 200, 1000
	Seed  byte `json:"seed"`
	Depth int  `json:"depth"` // frames of the clobbering recursion
}

//go:noinline
func convLocal16(seed byte) string {
	var a [16]byte
	for i := range a {
		a[i] = seed + byte(i)*3
	}
	return unsafex.BinaryToString(a[:])
}

//go:noinline
func convLocal48(seed byte) string {
	var a [48]byte
	for i := range a {
		a[i] = seed + byte(i)*3
	}
	return unsafex.BinaryToString(a[:])
}

//go:noinline
func convLocal200(seed byte) string {
	var a [200]byte
	for i := range a {
		a[i] = seed + byte(i)*3
	}
	return unsafex.BinaryToString(a[:])
}

//go:noinline
func convLocal1000(seed byte) string {
	var a [1000]byte
	for i := range a {
		a[i] = seed + byte(i)*3
	}
	return unsafex.BinaryToString(a[:])
}

//go:noinline
func convLocalBack(seed byte, n int) []byte {
	// a string built in this frame and converted back; the result outlives the frame
	var a [64]byte
	for i := range a {
		a[i] = seed + byte(i)*3
	}
	s := string(a[:n])
	return opaqueBytes(unsafex.StringToBinary(s))
}

//go:noinline
func clobberStack(depth int, fill byte) byte {
	var pad [700]byte
	for i := range pad {
		pad[i] = fill
	}
	if depth > 0 {
		return clobberStack(depth-1, fill+1) + pad[depth%700]
	}
	return pad[0]
}

func checkStackConv(c StackConvCase, cv *cov) *evid.Violation {
	var s string
	switch c.Size {
	case 16:
		s = convLocal16(c.Seed)
	case 48:
		s = convLocal48(c.Seed)
	case 200:
		s = convLocal200(c.Seed)
	case 1000:
		s = convLocal1000(c.Seed)
	default:
		return nil
	}
	bb := convLocalBack(c.Seed, c.Size%65)
	clobberStack(c.Depth&15, 0xE0)
	cv.nontrivial = true
	cv.label(fmt.Sprintf("local array of %d bytes", c.Size))
	if len(s) != c.Size {
		return evid.Failf("BinaryToString of a local [%d]byte: length %d", c.Size, len(s))
	}
	for i := 0; i < len(s); i++ {
		if s[i] != c.Seed+byte(i)*3 {
			return evid.Failf("BinaryToString of a local [%d]byte array: after the creating function returned and other functions ran, byte %d of the string reads %#x, want %#x (the string does not keep its memory alive)", c.Size, i, s[i], c.Seed+byte(i)*3)
		}
	}
	if len(bb) != c.Size%65 || cap(bb) != len(bb) {
		return evid.Failf("StringToBinary of a string built in a returned frame: len %d cap %d, want %d", len(bb), cap(bb), c.Size%65)
	}
	for i := range bb {
		if bb[i] != c.Seed+byte(i)*3 {
			return evid.Failf("StringToBinary of a string built in a returned frame: byte %d reads %#x, want %#x", i, bb[i], c.Seed+byte(i)*3)
		}
	}
	return nil
}

func init() { register("c20_stack_conv", checkStackConv) }

func TestC20_StackLocal(t *testing.T) {
	rec := evid.New("C20", "c20_stack_local", "rapid: BinaryToString of a local fixed-size array ([16], [48], [200], [1000]byte) whose result is returned from the creating function, and StringToBinary of a string built in a returned frame; afterwards a recursion of 0..15 frames overwrites that part of the stack; content and length of the retained results are compared with the generating pattern; non-trivial = always")
	defer rec.Flush()
	runRapid(t, rec, "c20_stack_conv", evid.Pick(20000, 200000), func(t *rapid.T) StackConvCase {
		return StackConvCase{Size: rapid.SampledFrom([]int{16, 48, 200, 1000}).Draw(t, "size"), Seed: rapid.Byte().Draw(t, "seed"), Depth: rapid.IntRange(0, 15).Draw(t, "depth")}
	}, checkStackConv)
}
