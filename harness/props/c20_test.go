package props

import (
	"bytes"
	"fmt"
	"os"
	"os/exec"
	"runtime"
	"sync"
	"sync/atomic"
	"testing"
	"unsafe"

	"github.com/cloudwego/gopkg/unsafex"
	"github.com/cloudwego/gopkg/verifharness/evid"
	"pgregory.net/rapid"
)

// ---- C20: zero-copy string/bytes conversions -------------------------------------------------------

// ConvCase: a parent buffer and a sub-range [I:J] with capacity limit K.
type ConvCase struct {
	Parent int  `json:"parent"` // parent length (pattern content)
	I      int  `json:"i"`
	J      int  `json:"j"`
	K      int  `json:"k"`             // capacity bound for the byte sub-slice b[i:j:k]
	Nil    bool `json:"nil,omitempty"` // use a nil slice / empty literal instead
}

func checkConv(c ConvCase, cv *cov) (v *evid.Violation) {
	if c.Parent < 0 || c.Parent > 1<<20 || c.I < 0 || c.I > c.J || c.J > c.K || c.K > c.Parent {
		return nil
	}
	body := func() {
		if c.Nil {
			if s := unsafex.BinaryToString(nil); s != "" {
				v = evid.Failf("BinaryToString(nil) = %q", s)
				return
			}
			if s := unsafex.BinaryToString([]byte{}); s != "" {
				v = evid.Failf("BinaryToString(empty) = %q", s)
				return
			}
			b := unsafex.StringToBinary("")
			if len(b) != 0 || cap(b) != 0 {
				v = evid.Failf("StringToBinary(\"\") has len %d cap %d", len(b), cap(b))
				return
			}
			return
		}
		parent := patternBytes(byte(c.Parent), c.Parent)
		sub := parent[c.I:c.J:c.K]
		s := unsafex.BinaryToString(sub)
		if len(s) != len(sub) || s != string(sub) {
			v = evid.Failf("BinaryToString(b[%d:%d:%d]): len %d, content equal=%v", c.I, c.J, c.K, len(s), s == string(sub))
			return
		}
		if len(sub) > 0 && unsafe.StringData(s) != &sub[0] {
			v = evid.Failf("BinaryToString(b[%d:%d:%d]) does not share memory with its argument (it copied)", c.I, c.J, c.K)
			return
		}
		// string side: a substring of a larger string; the harness never writes through these pointers
		ps := string(parent)
		ss := ps[c.I:c.J]
		b := unsafex.StringToBinary(ss)
		if len(b) != len(ss) || !bytes.Equal(b, []byte(ss)) {
			v = evid.Failf("StringToBinary(s[%d:%d]): len %d want %d, content equal=%v", c.I, c.J, len(b), len(ss), bytes.Equal(b, []byte(ss)))
			return
		}
		if cap(b) != len(b) {
			v = evid.Failf("StringToBinary(s[%d:%d]) has cap %d > len %d: append could write into the string's memory", c.I, c.J, cap(b), len(b))
			return
		}
		if len(ss) > 0 && &b[0] != unsafe.StringData(ss) {
			v = evid.Failf("StringToBinary(s[%d:%d]) does not share memory with its argument (it copied)", c.I, c.J)
			return
		}
		b2 := append(b, 'X', 'Y')
		_ = b2
		if ps != string(parent) {
			v = evid.Failf("append to StringToBinary(s[%d:%d]) changed the parent string", c.I, c.J)
			return
		}
	}
	if p, st := evid.Safe(body); p != nil {
		return &evid.Violation{Msg: fmt.Sprintf("panic: %v", p), Stack: st}
	}
	if v != nil {
		return v
	}
	cv.nontrivial = !c.Nil && (c.K > c.J || c.J < c.Parent || c.I > 0)
	cv.labelIf(c.Nil, "nil_or_empty")
	cv.labelIf(!c.Nil && c.I == c.J, "empty_subslice")
	cv.labelIf(!c.Nil && c.K > c.J, "spare_capacity")
	cv.labelIf(!c.Nil && c.J < c.Parent, "substring_of_larger_string")
	return nil
}

func init() { register("c20_conv", checkConv) }

func genConvCase(t *rapid.T) ConvCase {
	if rapid.IntRange(0, 19).Draw(t, "nil") == 0 {
		return ConvCase{Nil: true}
	}
	n := rapid.OneOf(rapid.IntRange(0, 64), rapid.IntRange(0, 5000), rapid.SampledFrom([]int{0, 1, 4096, 70000})).Draw(t, "parent")
	i := rapid.IntRange(0, n).Draw(t, "i")
	j := rapid.IntRange(i, n).Draw(t, "j")
	k := rapid.IntRange(j, n).Draw(t, "k")
	return ConvCase{Parent: n, I: i, J: j, K: k}
}

func TestC20_Random(t *testing.T) {
	rec := evid.New("C20", "c20_random", "rapid: byte sub-slices b[i:j:k] (spare capacity, empty, nil) of parents of 0..70000 pattern bytes and substrings s[i:j] of larger strings; BinaryToString must keep length/content and share memory (data pointer == &b[i]); StringToBinary must keep length/content, share memory, have cap == len, and appending to it must leave the parent string unchanged; non-trivial = sub-slice with spare capacity or a proper substring")
	defer rec.Flush()
	rec.Assume("only the go1.21+ implementation file is compiled by the installed toolchains; the legacy file cannot be exercised here")
	runRapid(t, rec, "c20_conv", evid.Pick(150000, 2000000), genConvCase, checkConv)
}

func TestC20_Small(t *testing.T) {
	rec := evid.New("C20", "c20_small", "enumeration: every (i,j,k) with 0 <= i <= j <= k <= n for every parent length n = 0..24, plus the nil/empty inputs; distinct by construction")
	defer rec.Flush()
	b := evid.NewBatch()
	run := func(c ConvCase) bool {
		var cv cov
		if v := checkConv(c, &cv); v != nil {
			failEnum(t, rec, "c20_conv", c, v)
			return false
		}
		b.Evals++
		b.Distinct++
		if cv.nontrivial {
			b.Nontrivial++
		}
		for _, l := range cv.labels {
			b.Labels[l]++
		}
		return true
	}
	ok := run(ConvCase{Nil: true})
	for n := 0; n <= 24 && ok; n++ {
		for i := 0; i <= n && ok; i++ {
			for j := i; j <= n && ok; j++ {
				for k := j; k <= n && ok; k++ {
					ok = run(ConvCase{Parent: n, I: i, J: j, K: k})
				}
			}
		}
	}
	rec.Merge(b)
	rec.Sample(ConvCase{Parent: 24, I: 3, J: 9, K: 17})
	rec.SetExhaustive()
}

// TestC20_BigCaps: short sub-slices of very large buffers, converted several times in a row.
func TestC20_BigCaps(t *testing.T) {
	rec := evid.New("C20", "c20_bigcaps", "enumeration: sub-slices of length {0,1,2,8,9,16,17,4096} at offsets {0,1,cap-len} of buffers with capacity {2^k-1, 2^k, 2^k+1 : k = 15..21} (with and without spare capacity), each converted 6 times in a row by BinaryToString and its string by StringToBinary; sharing, length, content and cap == len are checked on every call; distinct by construction")
	defer rec.Flush()
	b := evid.NewBatch()
	for k := 15; k <= 21; k++ {
		for _, d := range []int{-1, 0, 1} {
			capN := 1<<k + d
			parent := make([]byte, capN)
			for i := range parent {
				parent[i] = byte(i*7 + 3)
			}
			ps := string(parent)
			for _, l := range []int{0, 1, 2, 8, 9, 16, 17, 4096} {
				for _, off := range []int{0, 1, capN - l} {
					for _, spare := range []bool{true, false} {
						sub := parent[off : off+l]
						if !spare {
							sub = parent[off : off+l : off+l]
						}
						for rep := 0; rep < 6; rep++ {
							s := unsafex.BinaryToString(sub)
							if len(s) != l || s != string(sub) || (l > 0 && unsafe.StringData(s) != &sub[0]) {
								c := ConvCase{Parent: capN, I: off, J: off + l, K: capN}
								failEnum(t, rec, "c20_conv", c, evid.Failf("BinaryToString (call %d in a row) on a %d-byte sub-slice at offset %d of a buffer with capacity %d (spare capacity %v): does not share memory / wrong content", rep+1, l, off, capN, spare))
								rec.Merge(b)
								return
							}
							ss := ps[off : off+l]
							bb := unsafex.StringToBinary(ss)
							if len(bb) != l || cap(bb) != l || !bytes.Equal(bb, []byte(ss)) || (l > 0 && &bb[0] != unsafe.StringData(ss)) {
								c := ConvCase{Parent: capN, I: off, J: off + l, K: capN}
								failEnum(t, rec, "c20_conv", c, evid.Failf("StringToBinary (call %d in a row) on a %d-byte substring at offset %d of a %d-byte string: len %d cap %d", rep+1, l, off, capN, len(bb), cap(bb)))
								rec.Merge(b)
								return
							}
							b.Evals++
						}
						b.Distinct++
						b.Nontrivial++
					}
				}
			}
		}
	}
	rec.Merge(b)
	rec.Sample(map[string]interface{}{"cap": 1 << 20, "len": 1, "offset": 0, "calls_in_a_row": 6})
	rec.SetExhaustive()
}

// TestC20_FirstUse: the very first conversions of a process, made by many goroutines at once (lazy
// process-wide initialisation must not be observable). The test binary re-executes itself.
func TestC20_FirstUse(t *testing.T) {
	if os.Getenv("VERIF_C20_CHILD") == "1" {
		c20FirstUseChild()
		return
	}
	rec := evid.New("C20", "c20_firstuse", "fresh processes (the test binary re-executed), each starting 8 goroutines that perform the process's first conversions simultaneously behind a spin barrier and check sharing, length, content and cap == len; every child process is one evaluation; non-trivial = always (a fresh process)")
	defer rec.Flush()
	n := evid.Pick(60, 300)
	b := evid.NewBatch()
	for i := 0; i < n; i++ {
		cmd := exec.Command(os.Args[0], "-test.run", "^TestC20_FirstUse$")
		cmd.Env = append(os.Environ(), "VERIF_C20_CHILD=1", "VERIF_OUT=")
		out, err := cmd.CombinedOutput()
		b.Evals++
		b.Distinct++
		b.Nontrivial++
		if err != nil && !bytes.Contains(out, []byte("C20-FIRST-USE-FAILED")) {
			// the child could not run (resources, signals): inconclusive for this child, never a violation
			b.Labels["child_could_not_run"]++
			continue
		}
		if bytes.Contains(out, []byte("C20-FIRST-USE-FAILED")) {
			msg := string(out)
			if len(msg) > 600 {
				msg = msg[:600]
			}
			failEnum(t, rec, "c20_conv", ConvCase{Parent: 12, I: 0, J: 12, K: 12}, evid.Failf("first conversions of a fresh process made by 8 goroutines at once (child %d): %s", i, msg))
			break
		}
	}
	rec.Merge(b)
	rec.Sample(map[string]interface{}{"child_processes": n, "goroutines_per_child": 8})
}

func c20FirstUseChild() {
	const g = 8
	runtime.GOMAXPROCS(16)
	var ready int32
	var wg sync.WaitGroup
	start := make(chan struct{})
	fails := make(chan string, g)
	for i := 0; i < g; i++ {
		wg.Add(1)
		go func(i int) {
			defer wg.Done()
			buf := []byte("hello, first use")[:12:16]
			str := "a string literal of some length"[2:14]
			<-start
			// spin barrier: all goroutines leave it within a few nanoseconds of each other
			atomic.AddInt32(&ready, 1)
			for atomic.LoadInt32(&ready) < g {
			}
			s := unsafex.BinaryToString(buf)
			bb := unsafex.StringToBinary(str)
			if len(s) != 12 || s != "hello, first" || unsafe.StringData(s) != &buf[0] {
				fails <- "BinaryToString did not share memory / wrong content"
			}
			if len(bb) != 12 || cap(bb) != 12 || &bb[0] != unsafe.StringData(str) || string(bb) != str {
				fails <- fmt.Sprintf("StringToBinary: len %d cap %d shared %v", len(bb), cap(bb), &bb[0] == unsafe.StringData(str))
			}
		}(i)
	}
	close(start)
	wg.Wait()
	close(fails)
	for f := range fails {
		fmt.Println("C20-FIRST-USE-FAILED:", f)
		os.Exit(3)
	}
}
