package props

import (
	"bytes"
	"testing"

	"github.com/cloudwego/gopkg/verifharness/faultio"
	"github.com/cloudwego/gopkg/verifharness/ref"
	"pgregory.net/rapid"
)

// Self-checks of the harness (run by `verif.py setup`; they do not touch the code under test):
// the reference encoder, recogniser and decoder must agree with each other, and the io doubles must honour
// the contracts the oracles rely on.

func TestSelf_RefRoundTrip(t *testing.T) {
	rapid.Check(t, func(t *rapid.T) {
		v := genValue(t, 0, rapid.IntRange(0, 4).Draw(t, "depth"), false, true)
		enc, marks := ref.Encode(&v)
		r := ref.Walk(enc, v.T)
		if r.Class != ref.OK || r.N != len(enc) {
			t.Fatalf("Walk(Encode(v)) = %+v for %d bytes", r, len(enc))
		}
		d, n := ref.Decode(enc, v.T)
		if n != len(enc) || !ref.Equal(&d, &v) {
			t.Fatalf("Decode(Encode(v)) != v")
		}
		re, _ := ref.Encode(&d)
		if !bytes.Equal(re, enc) {
			t.Fatalf("Encode(Decode(Encode(v))) differs")
		}
		for _, m := range marks {
			if m.Off < 0 || m.Off >= len(enc) {
				t.Fatalf("mark out of range: %+v (len %d)", m, len(enc))
			}
		}
		// every strict prefix is rejected, with trailing bytes the extent is unchanged
		if len(enc) > 0 {
			cut := rapid.IntRange(0, len(enc)-1).Draw(t, "cut")
			if rc := ref.Walk(enc[:cut], v.T); rc.Class == ref.OK {
				t.Fatalf("Walk accepts a strict prefix (%d of %d bytes)", cut, len(enc))
			}
		}
		if rt := ref.Walk(append(append([]byte(nil), enc...), 0xff, 0x00), v.T); rt.Class != ref.OK || rt.N != len(enc) {
			t.Fatalf("Walk with trailing bytes: %+v", rt)
		}
	})
}

func TestSelf_NestLevels(t *testing.T) {
	rapid.Check(t, func(t *rapid.T) {
		d := rapid.IntRange(1, 70).Draw(t, "d")
		v := genNest(t, d)
		enc, _ := ref.Encode(&v)
		r := ref.Walk(enc, v.T)
		if d <= 64 && (r.Class != ref.OK || r.MaxLevel != d) {
			t.Fatalf("depth %d: %+v", d, r)
		}
		if d > 64 && r.Class != ref.DEPTH {
			t.Fatalf("depth %d not rejected: %+v", d, r)
		}
	})
}

func TestSelf_ScriptReaderContract(t *testing.T) {
	rapid.Check(t, func(t *rapid.T) {
		n := rapid.IntRange(0, 5000).Draw(t, "n")
		data := makeStream(n)
		plan := genPlan(t, n)
		sr := faultio.NewScriptReader(data, plan)
		var got []byte
		zeros := 0
		for i := 0; i < 100000; i++ {
			p := make([]byte, rapid.IntRange(0, 300).Draw(t, "p"))
			m, err := sr.Read(p)
			if m < 0 || m > len(p) {
				t.Fatalf("Read returned %d for len %d", m, len(p))
			}
			got = append(got, p[:m]...)
			if m == 0 && err == nil && len(p) > 0 {
				zeros++
				if zeros > 3 {
					t.Fatalf("more than 3 consecutive empty reads")
				}
			} else if len(p) > 0 {
				zeros = 0
			}
			if err != nil {
				if err != sr.Plan.Err() {
					t.Fatalf("unexpected error %v", err)
				}
				break
			}
		}
		if !bytes.Equal(got, data[:sr.Plan.ErrAt]) {
			t.Fatalf("served %d bytes, want %d", len(got), sr.Plan.ErrAt)
		}
	})
}

func TestSelf_TTHeaderRef(t *testing.T) {
	secs := []tthSection{{id: 0x10, count: 2, ints: []ref.IntKV{{K: 1, V: "a"}, {K: 2, V: ""}}}, {id: 0x11, token: "tok"}, {id: 1, count: 1, strs: []ref.StrKV{{K: "k", V: "v"}}, pad: 2}}
	b := buildFrame(100, 3, -7, 4, []byte{9, 8}, secs, nil)
	f := ref.ParseFrame(b)
	if !f.OK || f.Flags != 3 || f.Seq != -7 || f.Proto != 4 || f.NTransf != 2 || len(f.Int) != 2 || f.Str["k"] != "v" || f.Str[ref.ACLTokenKey] != "tok" || f.HeaderLen != len(b) {
		t.Fatalf("reference frame parser disagrees with the frame builder: %+v", f)
	}
	for cut := 0; cut < len(b); cut++ {
		if ref.ParseFrame(b[:cut]).OK {
			t.Fatalf("prefix of %d bytes accepted", cut)
		}
	}
}
