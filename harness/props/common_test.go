package props

import (
	"encoding/json"
	"errors"
	"flag"
	"fmt"
	"os"
	"path/filepath"
	"runtime"
	"sort"
	"strconv"
	"strings"
	"sync"
	"testing"

	"github.com/cloudwego/gopkg/verifharness/evid"
	"pgregory.net/rapid"
)

// cov is filled by a checker to describe the case it just evaluated.
type cov struct {
	nontrivial bool
	labels     []string
	key        []byte // optional cheap identity of the case; JSON of the case is used when nil
}

func (c *cov) label(l string) { c.labels = append(c.labels, l) }
func (c *cov) labelIf(cond bool, l string) {
	if cond {
		c.labels = append(c.labels, l)
	}
}

type checkerFn func(raw json.RawMessage) *evid.Violation

var checkers = map[string]checkerFn{}

// register makes a checker reachable from replay files.
func register[C any](name string, f func(c C, cv *cov) *evid.Violation) {
	checkers[name] = func(raw json.RawMessage) *evid.Violation {
		var c C
		if err := json.Unmarshal(raw, &c); err != nil {
			return evid.Failf("replay: cannot decode case for %s: %v", name, err)
		}
		return f(c, &cov{})
	}
}

func seedFor(name string) uint64 {
	s := uint64(1)
	if v := os.Getenv("VERIF_SEED"); v != "" {
		if n, err := strconv.ParseInt(v, 10, 64); err == nil {
			s = uint64(n)
		}
	}
	shard, _ := evid.Shard()
	x := (s*64+uint64(shard))*1000003 + evid.Hash64([]byte(name))%1000003 + 1
	x &= 0x7fffffffffffffff
	if x == 0 {
		x = 1
	}
	return x
}

var rapidMu sync.Mutex

// runRapid drives checker f with generator gen for n cases (n is per process).
func runRapid[C any](t *testing.T, rec *evid.Recorder, name string, n int, gen func(*rapid.T) C, f func(c C, cv *cov) *evid.Violation) {
	t.Helper()
	rapidMu.Lock()
	defer rapidMu.Unlock()
	if m := os.Getenv("VERIF_SCALE"); m != "" { // development aid: scale case counts
		if k, err := strconv.ParseFloat(m, 64); err == nil {
			n = int(float64(n) * k)
			if n < 1 {
				n = 1
			}
		}
	}
	flag.Set("rapid.checks", strconv.Itoa(n))
	flag.Set("rapid.seed", strconv.FormatUint(seedFor(name), 10))
	flag.Set("rapid.nofailfile", "true")
	flag.Set("rapid.shrinktime", "20s")
	done := 0
	rapid.Check(t, func(rt *rapid.T) {
		c := gen(rt)
		var cv cov
		v := f(c, &cv)
		h := uint64(0)
		if cv.nontrivial {
			if cv.key != nil {
				h = evid.Hash64(cv.key)
			} else {
				h = evid.HashJSON(c)
			}
		}
		rec.Count(h, cv.nontrivial, func() interface{} { return c }, cv.labels...)
		done++
		if v != nil {
			p := rec.Fail(name, c, v)
			rt.Fatalf("VIOLATION-CASE %s replay=%s: %s", name, p, v.Msg)
		}
	})
	rec.Label("rapid_cases_requested:"+name, int64(n))
	rec.Label("rapid_cases_run:"+name, int64(done))
}

// releaseArg gives the argument for the i-th mid-stream Release of a history: bufiox documents it as "the error
// the release may depend on"; whether it is nil or not must not change what happens to unread data.
var errReleaseReason = errors.New("release reason (any error)")

func releaseArg(i int) error {
	if i%2 == 1 {
		return errReleaseReason
	}
	return nil
}

// parallelFor runs body(i) for i in [0,n) restricted to this shard, on several goroutines.
func parallelFor(n int, body func(i int, b *evid.Batch), rec *evid.Recorder) {
	shard, nshards := evid.Shard()
	g := runtime.NumCPU() / nshards
	if g < 1 {
		g = 1
	}
	var wg sync.WaitGroup
	for w := 0; w < g; w++ {
		wg.Add(1)
		go func(w int) {
			defer wg.Done()
			b := evid.NewBatch()
			for i := shard*g + w; i < n; i += nshards * g {
				body(i, b)
			}
			rec.Merge(b)
		}(w)
	}
	wg.Wait()
}

// failOnce records an enumeration failure and fails the test.
func failEnum(t *testing.T, rec *evid.Recorder, name string, c interface{}, v *evid.Violation) {
	p := rec.Fail(name, c, v)
	t.Errorf("VIOLATION-CASE %s replay=%s: %s", name, p, v.Msg)
}

// TestReplay re-runs saved cases, bypassing rapid and the fuzzer.
// VERIF_REPLAY=<file>, or VERIF_REPLAY_DIR=<dir> with optional VERIF_PROP=<id> filter.
func TestReplay(t *testing.T) {
	var files []string
	if f := os.Getenv("VERIF_REPLAY"); f != "" {
		files = append(files, f)
	}
	if d := os.Getenv("VERIF_REPLAY_DIR"); d != "" {
		m, _ := filepath.Glob(filepath.Join(d, "*.json"))
		sort.Strings(m)
		files = append(files, m...)
	}
	if len(files) == 0 {
		t.Skip("no replay requested")
	}
	prop := os.Getenv("VERIF_PROP")
	for _, f := range files {
		b, err := os.ReadFile(f)
		if err != nil {
			fmt.Printf("REPLAY %s ERROR %v\n", f, err)
			continue
		}
		var rf evid.ReplayFile
		if err := json.Unmarshal(b, &rf); err != nil {
			fmt.Printf("REPLAY %s ERROR %v\n", f, err)
			continue
		}
		if prop != "" && rf.Property != prop {
			continue
		}
		ck, ok := checkers[rf.Check]
		if !ok {
			fmt.Printf("REPLAY %s ERROR unknown checker %q\n", f, rf.Check)
			continue
		}
		var v *evid.Violation
		p, st := evid.Safe(func() { v = ck(rf.Case) })
		if p != nil {
			v = &evid.Violation{Msg: fmt.Sprintf("panic in checker: %v", p), Stack: st}
		}
		if v != nil {
			fmt.Printf("REPLAY %s FAIL %s\n", f, strings.ReplaceAll(v.Msg, "\n", " | "))
		} else {
			fmt.Printf("REPLAY %s PASS\n", f)
		}
	}
}

func hx(b []byte) string {
	if len(b) > 64 {
		return fmt.Sprintf("%x…(%d bytes)", b[:64], len(b))
	}
	return fmt.Sprintf("%x", b)
}
