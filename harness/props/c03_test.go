package props

import (
	"bytes"
	"context"
	"fmt"
	"runtime/debug"
	"testing"
	"unsafe"

	"github.com/cloudwego/gopkg/bufiox"
	"github.com/cloudwego/gopkg/protocol/thrift"
	"github.com/cloudwego/gopkg/protocol/thrift/base"
	uf "github.com/cloudwego/gopkg/protocol/thrift/unknownfields"
	"github.com/cloudwego/gopkg/protocol/ttheader"
	"github.com/cloudwego/gopkg/verifharness/evid"
	"github.com/cloudwego/gopkg/verifharness/faultio"
	"github.com/cloudwego/gopkg/verifharness/guard"
	"github.com/cloudwego/gopkg/verifharness/ref"
	"pgregory.net/rapid"
)

// ---- C03: decoders never panic or over-report on arbitrary bytes --------------------------------

// EPCase is a byte string and a requested type byte given to every buffer-based entry point.
type EPCase struct {
	T         int8     `json:"t"`
	Data      evid.Hex `json:"data"`
	TypedOnly bool     `json:"typed_only,omitempty"` // enumeration aid: skip entry points that ignore T
	Op        string   `json:"op,omitempty"`
}

const maxMakeCount = 4096 // cap for entry points that make() the declared element count

// holders for the GetUnknownFields entry point
type c03NoUF struct{ Other []byte }

type c03WithUF struct {
	N              int
	_unknownFields []byte
}

type entryPoint struct {
	name  string
	typed bool                                                 // depends on the requested type byte
	allow func(b []byte, t int8) bool                          // allocation cap (nil = unrestricted)
	f     func(b []byte, t int8) (n int, hasN bool, err error) // result must lie within b
}

func be32at(b []byte, i int) uint32 {
	return uint32(b[i])<<24 | uint32(b[i+1])<<16 | uint32(b[i+2])<<8 | uint32(b[i+3])
}

// mapFieldDeclTooBig scans position-independently for a field header (MAP, id) and reports whether any
// candidate is followed by a declared size above the cap.
func mapFieldDeclTooBig(b []byte, id byte) bool {
	for i := 0; i+9 <= len(b); i++ {
		if b[i] == 0x0d && b[i+1] == 0 && b[i+2] == id && be32at(b, i+5) > maxMakeCount {
			return true
		}
	}
	return false
}

func inside(out, in []byte) bool {
	if len(out) == 0 {
		return true
	}
	if len(in) == 0 {
		return false
	}
	o := uintptr(unsafe.Pointer(&out[0]))
	i := uintptr(unsafe.Pointer(&in[0]))
	return o >= i && o+uintptr(len(out)) <= i+uintptr(len(in))
}

var entryPoints = []entryPoint{
	{"Binary.ReadBool", false, nil, func(b []byte, t int8) (int, bool, error) { _, n, err := thrift.Binary.ReadBool(b); return n, true, err }},
	{"Binary.ReadByte", false, nil, func(b []byte, t int8) (int, bool, error) { _, n, err := thrift.Binary.ReadByte(b); return n, true, err }},
	{"Binary.ReadI16", false, nil, func(b []byte, t int8) (int, bool, error) { _, n, err := thrift.Binary.ReadI16(b); return n, true, err }},
	{"Binary.ReadI32", false, nil, func(b []byte, t int8) (int, bool, error) { _, n, err := thrift.Binary.ReadI32(b); return n, true, err }},
	{"Binary.ReadI64", false, nil, func(b []byte, t int8) (int, bool, error) { _, n, err := thrift.Binary.ReadI64(b); return n, true, err }},
	{"Binary.ReadDouble", false, nil, func(b []byte, t int8) (int, bool, error) {
		_, n, err := thrift.Binary.ReadDouble(b)
		return n, true, err
	}},
	{"Binary.ReadString", false, nil, func(b []byte, t int8) (int, bool, error) {
		s, n, err := thrift.Binary.ReadString(b)
		if err == nil && len(s) != n-4 {
			return -1, true, nil
		}
		return n, true, err
	}},
	{"Binary.ReadBinary", false, nil, func(b []byte, t int8) (int, bool, error) {
		s, n, err := thrift.Binary.ReadBinary(b)
		if err == nil && len(s) != n-4 {
			return -1, true, nil
		}
		return n, true, err
	}},
	{"Binary.ReadFieldBegin", false, nil, func(b []byte, t int8) (int, bool, error) {
		_, _, n, err := thrift.Binary.ReadFieldBegin(b)
		return n, true, err
	}},
	{"Binary.ReadMapBegin", false, nil, func(b []byte, t int8) (int, bool, error) {
		_, _, _, n, err := thrift.Binary.ReadMapBegin(b)
		return n, true, err
	}},
	{"Binary.ReadListBegin", false, nil, func(b []byte, t int8) (int, bool, error) {
		_, _, n, err := thrift.Binary.ReadListBegin(b)
		return n, true, err
	}},
	{"Binary.ReadSetBegin", false, nil, func(b []byte, t int8) (int, bool, error) {
		_, _, n, err := thrift.Binary.ReadSetBegin(b)
		return n, true, err
	}},
	{"Binary.ReadMessageBegin", false, nil, func(b []byte, t int8) (int, bool, error) {
		_, _, _, n, err := thrift.Binary.ReadMessageBegin(b)
		return n, true, err
	}},
	{"Binary.Skip", true, nil, func(b []byte, t int8) (int, bool, error) { n, err := thrift.Binary.Skip(b, t); return n, true, err }},
	{"BytesSkipDecoder.Next", true, nil, func(b []byte, t int8) (int, bool, error) {
		d := thrift.NewBytesSkipDecoder(b)
		defer d.Release()
		o, err := d.Next(t)
		if err == nil && !inside(o, b) {
			return -2, true, nil
		}
		return len(o), true, err
	}},
	{"BytesSkipDecoder.Next twice on one decoder", true, nil, func(b []byte, t int8) (int, bool, error) {
		d := thrift.NewBytesSkipDecoder(b)
		defer d.Release()
		o1, err1 := d.Next(t)
		if err1 == nil && !inside(o1, b) {
			return -2, true, nil
		}
		// whatever the first call did, a second one must stay inside the input as well
		o2, err2 := d.Next(ref.BYTE)
		if err2 == nil && (!inside(o2, b) || len(o2) > len(b)) {
			return -2, true, nil
		}
		o3, err3 := d.Next(t)
		if err3 == nil && !inside(o3, b) {
			return -2, true, nil
		}
		return len(o1), err1 == nil, nil
	}},
	{"BytesSkipDecoder.SkipN then Next on one decoder", true, nil, func(b []byte, t int8) (int, bool, error) {
		d := thrift.NewBytesSkipDecoder(b)
		defer d.Release()
		k := len(b) / 3
		if s, err := d.SkipN(k); err == nil && (!inside(s, b) || len(s) != k) {
			return -2, true, nil
		}
		o, err := d.Next(t)
		if err == nil && !inside(o, b) {
			return -2, true, nil
		}
		if s, err := d.SkipN(1); err == nil && !inside(s, b) {
			return -2, true, nil
		}
		return len(o), err == nil, nil
	}},
	{"ApplicationException.FastRead", false, nil, func(b []byte, t int8) (int, bool, error) {
		return first2(thrift.NewApplicationException(0, "").FastRead(b))
	}},
	{"Base.FastRead", false, func(b []byte, t int8) bool { return !mapFieldDeclTooBig(b, 6) }, func(b []byte, t int8) (int, bool, error) {
		return first2((&base.Base{}).FastRead(b))
	}},
	{"BaseResp.FastRead", false, func(b []byte, t int8) bool { return !mapFieldDeclTooBig(b, 3) }, func(b []byte, t int8) (int, bool, error) {
		return first2((&base.BaseResp{}).FastRead(b))
	}},
	{"FastUnmarshal(ApplicationException)", false, nil, func(b []byte, t int8) (int, bool, error) {
		return 0, false, thrift.FastUnmarshal(b, thrift.NewApplicationException(0, ""))
	}},
	{"UnmarshalFastMsg(Base)", false, func(b []byte, t int8) bool { return !mapFieldDeclTooBig(b, 6) }, func(b []byte, t int8) (int, bool, error) {
		_, _, err := thrift.UnmarshalFastMsg(b, &base.Base{})
		return 0, false, err
	}},
	{"UnmarshalFastMsg(ApplicationException)", false, nil, func(b []byte, t int8) (int, bool, error) {
		_, _, err := thrift.UnmarshalFastMsg(b, thrift.NewApplicationException(0, ""))
		return 0, false, err
	}},
	{"ConvertUnknownFields", false, func(b []byte, t int8) bool {
		if ref.MaxDeclaredCount(b) <= maxMakeCount {
			return true
		}
		_, ok := parseFieldSeq(b) // every declared count is backed by data: allocation is proportional to the input
		return ok
	}, func(b []byte, t int8) (int, bool, error) {
		_, err := uf.ConvertUnknownFields(b)
		return 0, false, err
	}},
	{"GetUnknownFields (holder with the bytes; every other call a holder type without the field)", false, func(b []byte, t int8) bool {
		if ref.MaxDeclaredCount(b) <= maxMakeCount {
			return true
		}
		_, ok := parseFieldSeq(b)
		return ok
	}, func(b []byte, t int8) (int, bool, error) {
		if _, err := uf.GetUnknownFields(&c03NoUF{Other: b}); err == nil {
			return -2, true, nil // a holder without the field cannot be answered
		}
		_, err := uf.GetUnknownFields(&c03WithUF{_unknownFields: b})
		if _, err2 := uf.GetUnknownFields(c03NoUF{Other: b}); err2 == nil {
			return -2, true, nil
		}
		return 0, false, err
	}},
	{"ttheader.IsStreaming", false, nil, func(b []byte, t int8) (int, bool, error) {
		_ = ttheader.IsStreaming(b)
		return 0, false, nil
	}},
	{"ttheader.IsTTHeader (inputs of at least 8 bytes)", false, func(b []byte, t int8) bool { return len(b) >= 8 }, func(b []byte, t int8) (int, bool, error) {
		_ = ttheader.IsTTHeader(b)
		return 0, false, nil
	}},
	{"ttheader.DecodeFromBytes", false, nil, func(b []byte, t int8) (int, bool, error) {
		p, err := ttheader.DecodeFromBytes(context.Background(), b)
		return p.HeaderLen, true, err
	}},
	{"ttheader.DecodeFromBytes (after a call that left unread bytes behind its frame)", false, nil, func(b []byte, t int8) (int, bool, error) {
		if _, err := ttheader.DecodeFromBytes(context.Background(), twoFrames()); err != nil {
			panic("harness: the two-frame buffer does not decode")
		}
		if len(b) == 0 {
			b = nil
		}
		p, err := ttheader.DecodeFromBytes(context.Background(), b)
		return p.HeaderLen, true, err
	}},
	// allocating entry points over the same bytes, under the allocation cap
	{"BufferReader.Skip(bytes)", true, func(b []byte, t int8) bool { return ref.Walk(b, t).MaxAcquire <= allocCap }, func(b []byte, t int8) (int, bool, error) {
		r := bufiox.NewBytesReader(b)
		tr := thrift.NewBufferReader(r)
		err := tr.Skip(t)
		n := int(tr.Readn())
		tr.Recycle()
		r.Release(nil)
		return n, true, err
	}},
	{"BufferReader.ReadString(bytes)", false, func(b []byte, t int8) bool { return len(b) < 4 || be32at(b, 0) <= allocCap || be32at(b, 0) >= 1<<31 }, func(b []byte, t int8) (int, bool, error) {
		r := bufiox.NewBytesReader(b)
		tr := thrift.NewBufferReader(r)
		s, err := tr.ReadString()
		n := int(tr.Readn())
		tr.Recycle()
		r.Release(nil)
		if err == nil && len(s)+4 != n {
			return -1, true, nil
		}
		return n, true, err
	}},
	{"BufferReader.ReadMessageBegin(bytes)", false, func(b []byte, t int8) bool { return len(b) < 8 || be32at(b, 4) <= allocCap || be32at(b, 4) >= 1<<31 }, func(b []byte, t int8) (int, bool, error) {
		r := bufiox.NewBytesReader(b)
		tr := thrift.NewBufferReader(r)
		_, _, _, err := tr.ReadMessageBegin()
		n := int(tr.Readn())
		tr.Recycle()
		r.Release(nil)
		return n, true, err
	}},
	{"BufferReader.ReadFieldBegin+ReadMapBegin(bytes)", false, nil, func(b []byte, t int8) (int, bool, error) {
		r := bufiox.NewBytesReader(b)
		tr := thrift.NewBufferReader(r)
		_, _, err := tr.ReadFieldBegin()
		if err == nil {
			_, _, _, err = tr.ReadMapBegin()
		}
		if err == nil {
			_, err = tr.ReadI64()
		}
		n := int(tr.Readn())
		tr.Recycle()
		r.Release(nil)
		return n, true, err
	}},
	{"SkipDecoder.Next(bytes reader)", true, func(b []byte, t int8) bool { return ref.Walk(b, t).MaxAcquire <= allocCap }, func(b []byte, t int8) (int, bool, error) {
		r := bufiox.NewBytesReader(b)
		sd := thrift.NewSkipDecoder(r)
		o, err := sd.Next(t)
		n := len(o)
		sd.Release()
		r.Release(nil)
		return n, true, err
	}},
	{"ReaderSkipDecoder.Next", true, func(b []byte, t int8) bool { return ref.Walk(b, t).MaxAcquire <= allocCap }, func(b []byte, t int8) (int, bool, error) {
		sr := faultio.NewScriptReader(b, faultio.Plan{Chunks: []int{0}, ErrAt: -1})
		rd := thrift.NewReaderSkipDecoder(sr)
		o, err := rd.Next(t)
		n := len(o)
		rd.Release()
		return n, true, err
	}},
}

func first2(n int, err error) (int, bool, error) { return n, true, err }

// safeFault is evid.Safe with memory faults turned into panics for the current goroutine.
func safeFault(f func()) (interface{}, string) {
	old := debug.SetPanicOnFault(true)
	defer debug.SetPanicOnFault(old)
	return evid.Safe(f)
}

var placements = [3]string{"guard page right after the slice", "guard page right before the slice", "heap slice with cap==len"}

func checkEntryPoints(c EPCase, cv *cov) *evid.Violation {
	return checkEntryPointsRec(c, cv, nil)
}

func checkEntryPointsRec(c EPCase, cv *cov, rec *evid.Recorder) *evid.Violation {
	in := []byte(c.Data)
	if len(in) > 1<<20 {
		return nil
	}
	arena := guard.Get(len(in))
	defer guard.Put(arena)
	heap := append(make([]byte, 0, len(in)), in...)
	journaled := false
	for pi := 0; pi < 3; pi++ {
		var b []byte
		switch pi {
		case 0:
			b = arena.Right(in)
		case 1:
			b = arena.Left(in)
		default:
			b = heap[:len(in):len(in)]
		}
		for ei := range entryPoints {
			ep := &entryPoints[ei]
			if c.TypedOnly && !ep.typed {
				continue
			}
			if ep.allow != nil {
				if !ep.allow(in, c.T) {
					if rec != nil && pi == 0 {
						rec.Exclude("alloc_cap:" + ep.name)
					}
					continue
				}
				if rec != nil && !journaled {
					rec.Journal("c03_entry_points", c)
					journaled = true
				}
			}
			var n int
			var hasN bool
			var err error
			p, st := safeFault(func() { n, hasN, err = ep.f(b, c.T) })
			if p != nil {
				return &evid.Violation{Msg: fmt.Sprintf("%s panicked (%s): %v; type byte %d (0x%02x), input %s", ep.name, placements[pi], p, c.T, byte(c.T), hx(in)), Stack: st}
			}
			if err == nil && hasN && (n < 0 || n > len(in)) {
				what := fmt.Sprintf("reports consumed length %d for an input of %d bytes", n, len(in))
				if n == -1 {
					what = "returned a value whose length does not match the consumed length"
				} else if n == -2 {
					what = "returned bytes that do not lie inside the input slice"
				}
				return evid.Failf("%s succeeded but %s; type byte %d (0x%02x), input %s", ep.name, what, c.T, byte(c.T), hx(in))
			}
		}
	}
	r := ref.Walk(in, c.T)
	cv.nontrivial = len(in) > 0 && (r.Fields >= 1 || (c.Op != "" && c.Op != "none"))
	cv.labelIf(c.T < 0, "type_byte>=0x80")
	cv.label("walk_" + ref.ClassName(r.Class))
	cv.labelIf(c.Op != "", "op_"+c.Op)
	cv.key = append([]byte{byte(c.T)}, in...)
	return nil
}

func init() { register("c03_entry_points", checkEntryPoints) }

// genFrameish produces bytes that look like a TTHeader frame or a message envelope so that those
// entry points get past their first checks.
func genFrameish(t *rapid.T) []byte {
	switch rapid.IntRange(0, 2).Draw(t, "frameKind") {
	case 0: // ttheader
		info := rapid.SliceOfN(rapid.SampledFrom([]byte{0, 1, 2, 0x10, 0x11, 0, 0, 3, 'a', 0xff}), 0, 40).Draw(t, "info")
		sizeField := (len(info) + 3) / 4
		if rapid.Bool().Draw(t, "lieSize") {
			sizeField = rapid.SampledFrom([]int{0, 1, 2, 0x3fff, 0x4000, 0x4001, 0xffff}).Draw(t, "sizeField")
		}
		b := []byte{0, 0, 0, 0, 0x10, 0x00, 0, rapid.Byte().Draw(t, "flags"), 0, 0, 0, 1, byte(sizeField >> 8), byte(sizeField)}
		return append(b, info...)
	case 1: // message envelope + struct
		name := rapid.SliceOfN(rapid.Byte(), 0, 6).Draw(t, "name")
		b := []byte{0x80, 0x01, 0, rapid.SampledFrom([]byte{1, 2, 3, 4}).Draw(t, "mt")}
		b = ref.Put32(b, uint32(len(name)))
		b = append(b, name...)
		b = ref.Put32(b, 7)
		v := genValue(t, ref.STRUCT, 2, false, false)
		return ref.Append(b, &v, nil)
	default: // Base-like struct with known ids
		v := ref.Value{T: ref.STRUCT}
		for _, id := range rapid.SliceOfN(rapid.SampledFrom([]int16{1, 2, 3, 6, 9}), 0, 5).Draw(t, "ids") {
			ft := rapid.SampledFrom([]int8{ref.STRING, ref.STRING, ref.I32, ref.MAP}).Draw(t, "ft")
			fv := ref.Value{T: ft}
			switch ft {
			case ref.STRING:
				fv.Str = rapid.SliceOfN(rapid.Byte(), 0, 5).Draw(t, "s")
			case ref.MAP:
				fv.KT, fv.ET = ref.STRING, ref.STRING
				for i := 0; i < rapid.IntRange(0, 2).Draw(t, "n"); i++ {
					fv.Elems = append(fv.Elems, ref.Value{T: ref.STRING, Str: []byte("k")}, ref.Value{T: ref.STRING, Str: []byte("vv")})
				}
			}
			v.Fields = append(v.Fields, ref.Field{ID: id, V: fv})
		}
		b, _ := ref.Encode(&v)
		return b
	}
}

func genEPCase(t *rapid.T) EPCase {
	var c EPCase
	switch rapid.IntRange(0, 9).Draw(t, "src") {
	case 0:
		c.Data = rapid.SliceOfN(rapid.Byte(), 0, 40).Draw(t, "raw")
		c.T = int8(rapid.IntRange(-128, 127).Draw(t, "t"))
		c.Op = "uniform"
	case 1, 2:
		b := genFrameish(t)
		marks := []ref.Mark{}
		c.Data, c.Op = mutate(t, b, marks)
		c.Op = "frame_" + c.Op
		c.T = rapid.SampledFrom(ref.Types).Draw(t, "t")
	default:
		var v ref.Value
		if rapid.IntRange(0, 9).Draw(t, "nest") == 0 {
			v = genNest(t, rapid.IntRange(1, 70).Draw(t, "depth"))
		} else {
			v = genValue(t, 0, rapid.IntRange(0, 4).Draw(t, "vdepth"), false, false)
		}
		enc, marks := ref.Encode(&v)
		if rapid.Bool().Draw(t, "asField") {
			// wrap as a field sequence so struct readers and ConvertUnknownFields see a field header first
			hdr := []byte{byte(v.T), 0, byte(rapid.SampledFrom([]int{1, 2, 3, 6, 9}).Draw(t, "fid"))}
			for i := range marks {
				marks[i].Off += 3
			}
			marks = append([]ref.Mark{{Off: 0, Role: 't'}, {Off: 1, Role: 'i'}}, marks...)
			enc = append(hdr, enc...)
			if rapid.Bool().Draw(t, "stop") {
				marks = append(marks, ref.Mark{Off: len(enc), Role: 't'})
				enc = append(enc, 0)
			}
			c.T = ref.STRUCT
		} else {
			c.T = v.T
		}
		c.Data, c.Op = mutate(t, enc, marks)
		if rapid.IntRange(0, 7).Draw(t, "retype") == 0 {
			c.T = int8(rapid.IntRange(-128, 127).Draw(t, "t"))
		}
	}
	return c
}

var c03Flip int

func TestC03_Random(t *testing.T) {
	rec := evid.New("C03", "c03_random", "rapid: valid encodings (value trees, nesting chains, field sequences, Base-like structs, message envelopes, TTHeader-like frames) hit by one malformation operator (every cut point, structural byte -> boundary byte, size -> hostile constant, splice, bit flip, append) or uniform bytes, with any requested type byte -128..127; each case runs through 33 entry points x 3 placements (guard page after, guard page before, heap cap==len) behind recover with faults turned into panics; non-trivial = non-empty input on which the reference parsed >= 1 structural field or which is a strict mutation")
	defer rec.Flush()
	rec.Assume("the span-cache switch is flipped between (sequential) cases: every third case runs with it enabled")
	defer thrift.SetSpanCache(false)
	runRapid(t, rec, "c03_entry_points", evid.Pick(40000, 200000), genEPCase, func(c EPCase, cv *cov) *evid.Violation {
		c03Flip++
		thrift.SetSpanCache(c03Flip%3 == 0)
		cv.labelIf(c03Flip%3 == 0, "span_cache_enabled")
		return checkEntryPointsRec(c, cv, rec)
	})
}

func TestC03_Exhaustive(t *testing.T) {
	kFull := evid.Pick(1, 2)
	kGram := evid.Pick(5, 6)
	rec := evid.New("C03", "c03_exhaustive", fmt.Sprintf("bounded-exhaustive: (A) every byte string of length 0..%d over the full 256-byte alphabet x all 256 type bytes through the typed entry points (untyped entry points once per string); (B) every string of length 0..%d over the grammar alphabet x 19 type bytes through all entry points; distinct by construction; non-trivial = reference parsed >= 1 structural field", kFull, kGram))
	defer rec.Flush()
	var failed bool
	lock := make(chan struct{}, 1)
	runOne := func(c EPCase, bt *evid.Batch) {
		if failed {
			return
		}
		var cv cov
		v := checkEntryPointsRec(c, &cv, nil)
		bt.Evals++
		if cv.nontrivial {
			bt.Distinct++
			bt.Nontrivial++
		}
		for _, l := range cv.labels {
			bt.Labels[l]++
		}
		if v != nil {
			lock <- struct{}{}
			if !failed {
				failed = true
				c.Data = append([]byte(nil), c.Data...)
				failEnum(t, rec, "c03_entry_points", c, v)
			}
			<-lock
		}
	}
	// (A) full alphabet
	for L := 0; L <= kFull; L++ {
		cnt := 1
		for i := 0; i < L; i++ {
			cnt *= 256
		}
		parallelFor(cnt, func(idx int, bt *evid.Batch) {
			buf := make([]byte, L)
			x := idx
			for i := 0; i < L; i++ {
				buf[i] = byte(x)
				x >>= 8
			}
			for ty := -128; ty <= 127; ty++ {
				runOne(EPCase{T: int8(ty), Data: buf, TypedOnly: ty != -128}, bt)
			}
		}, rec)
	}
	// (B) grammar alphabet
	types := append([]int8{0, 1, 5, 16, 0x7f, -128, -117, -1}, ref.Types...)
	na := len(grammarAlphabet)
	for L := 0; L <= kGram; L++ {
		cnt := 1
		for i := 0; i < L; i++ {
			cnt *= na
		}
		parallelFor(cnt, func(idx int, bt *evid.Batch) {
			buf := make([]byte, L)
			x := idx
			for i := 0; i < L; i++ {
				buf[i] = grammarAlphabet[x%na]
				x /= na
			}
			for j, ty := range types {
				runOne(EPCase{T: ty, Data: buf, TypedOnly: j != 0}, bt)
			}
		}, rec)
	}
	rec.Sample(EPCase{T: -128, Data: []byte{0x0c, 0x80, 0x00}})
	rec.Sample(EPCase{T: ref.MAP, Data: []byte{0x0b, 0x0a, 0, 0, 0, 1}})
	rec.SetExhaustive()
}

var _ = rapid.Bool

// DeepConvertCase: n nested structs (field header 0c 00 01 repeated n times, nothing behind them) given
// to ConvertUnknownFields. This is the recorded open finding F2: the converter recurses once per level
// without any bound, so that the recursion depth is limited only by the size of the input.
type DeepConvertCase struct {
	Depth int `json:"depth"`
}

func checkDeepConvert(c DeepConvertCase, cv *cov) *evid.Violation {
	if c.Depth < 1 || c.Depth > 1<<23 {
		return nil
	}
	in := bytes.Repeat([]byte{0x0c, 0x00, 0x01}, c.Depth)
	_, err := uf.ConvertUnknownFields(in) // with the default stack limit of 1 GB about 2 million levels end the process
	if err == nil {
		return evid.Failf("ConvertUnknownFields accepted %d unterminated nested structs", c.Depth)
	}
	return nil
}

func init() { register("c03_deep_convert", checkDeepConvert) }
