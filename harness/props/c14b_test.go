package props

import (
	"context"
	"fmt"
	"runtime"
	"sync"
	"testing"

	"github.com/cloudwego/gopkg/bufiox"
	"github.com/cloudwego/gopkg/protocol/thrift"
	"github.com/cloudwego/gopkg/protocol/ttheader"
	"pgregory.net/rapid"

	"github.com/cloudwego/gopkg/verifharness/evid"
	"github.com/cloudwego/gopkg/verifharness/ref"
)

// AdjacentCase: goroutines whose inputs are consecutive sub-slices of ONE arena (so the spare capacity of
// every input but the last is the memory the neighbours keep rewriting). Each goroutine refills its own
// region and decodes it through every bytes-based entry point. A decoder that looks at its input beyond
// len - into the neighbour's bytes - is reported by the race detector; what a goroutine observes must be
// what the same calls return on a private copy with cap == len.
type AdjacentCase struct {
	Inputs []evid.Hex `json:"inputs"`
	Rounds int        `json:"rounds"`
}

type adjObs struct {
	tthOK, tthRdOK       bool
	tthHdr               int
	skipN                [4]int // Binary.Skip, BytesSkipDecoder, SkipDecoder over a bytes reader, BufferReader.Skip
	skipOK               [4]bool
	readStrOK, readBinOK bool
}

func adjObserve(in []byte) (o adjObs) {
	if p, err := ttheader.DecodeFromBytes(context.Background(), in); err == nil {
		o.tthOK, o.tthHdr = true, p.HeaderLen
	}
	rd := bufiox.NewBytesReader(in)
	if p, err := ttheader.Decode(context.Background(), rd); err == nil {
		o.tthRdOK = p.HeaderLen == o.tthHdr
	}
	_ = rd.Release(nil)
	t := thrift.TType(thrift.STRUCT)
	if len(in) > 0 && in[0]&1 == 1 {
		t = thrift.STRING
	}
	if n, err := thrift.Binary.Skip(in, t); err == nil {
		o.skipOK[0], o.skipN[0] = true, n
	}
	bd := thrift.NewBytesSkipDecoder(in)
	if b, err := bd.Next(t); err == nil {
		o.skipOK[1], o.skipN[1] = true, len(b)
	}
	bd.Release()
	r2 := bufiox.NewBytesReader(in)
	sd := thrift.NewSkipDecoder(r2)
	if b, err := sd.Next(t); err == nil {
		o.skipOK[2], o.skipN[2] = true, len(b)
	}
	sd.Release()
	_ = r2.Release(nil)
	r3 := bufiox.NewBytesReader(in)
	br := thrift.NewBufferReader(r3)
	if err := br.Skip(t); err == nil {
		o.skipOK[3], o.skipN[3] = true, r3.ReadLen()
	}
	br.Recycle()
	_ = r3.Release(nil)
	if _, _, err := thrift.Binary.ReadString(in); err == nil {
		o.readStrOK = true
	}
	if _, _, err := thrift.Binary.ReadBinary(in); err == nil {
		o.readBinOK = true
	}
	return o
}

func checkAdjacent(c AdjacentCase, cv *cov) (v *evid.Violation) {
	if len(c.Inputs) < 2 {
		return nil
	}
	total := 0
	for _, in := range c.Inputs {
		total += len(in)
	}
	arena := make([]byte, total)
	want := make([]adjObs, len(c.Inputs))
	for i, in := range c.Inputs {
		priv := make([]byte, len(in))
		copy(priv, in)
		if p, st := evid.Safe(func() { want[i] = adjObserve(priv) }); p != nil {
			return &evid.Violation{Msg: fmt.Sprintf("panic on a private copy of input %d: %v", i, p), Stack: st}
		}
	}
	old := runtime.GOMAXPROCS(8)
	defer runtime.GOMAXPROCS(old)
	var mu sync.Mutex
	var wg sync.WaitGroup
	start := make(chan struct{})
	off := 0
	for i := range c.Inputs {
		in := []byte(c.Inputs[i])
		mine := arena[off : off+len(in)] // cap(mine) reaches to the end of the arena: the neighbours' regions
		off += len(in)
		wg.Add(1)
		go func(i int, in, mine []byte) {
			defer wg.Done()
			<-start
			for r := 0; r < c.Rounds; r++ {
				for k := range mine { // rewrite the own region: first scribble, then the input
					mine[k] = byte(r + k)
				}
				copy(mine, in)
				var got adjObs
				if p, st := evid.Safe(func() { got = adjObserve(mine) }); p != nil {
					mu.Lock()
					if v == nil {
						v = &evid.Violation{Msg: fmt.Sprintf("goroutine %d: panic while decoding its region of a shared arena: %v", i, p), Stack: st}
					}
					mu.Unlock()
					return
				}
				if got != want[i] {
					mu.Lock()
					if v == nil {
						v = evid.Failf("goroutine %d, round %d: decoding its %d-byte region of an arena whose other regions the neighbours rewrite gave %+v; the same bytes in a private slice gave %+v", i, r, len(in), got, want[i])
					}
					mu.Unlock()
					return
				}
				if r%4 == 3 {
					runtime.Gosched()
				}
			}
		}(i, in, mine)
	}
	close(start)
	wg.Wait()
	if v != nil {
		return v
	}
	cv.nontrivial = true
	cv.label(fmt.Sprintf("adjacent_goroutines_%d", len(c.Inputs)))
	for i := range want {
		cv.labelIf(want[i].tthOK, "adjacent_tth_frame_accepted")
		cv.labelIf(want[i].skipOK[0], "adjacent_value_accepted")
	}
	return nil
}

func init() { register("c14_adjacent", checkAdjacent) }

func genAdjacent(t *rapid.T) AdjacentCase {
	n := rapid.IntRange(2, 6).Draw(t, "goroutines")
	c := AdjacentCase{Rounds: rapid.IntRange(10, 60).Draw(t, "rounds")}
	for i := 0; i < n; i++ {
		var in []byte
		switch rapid.IntRange(0, 5).Draw(t, "kind") {
		case 0: // a TTHeader meta block that declares more header bytes than the slice holds
			words := rapid.SampledFrom([]int{1, 4, 64, 1024, 4090, 16383}).Draw(t, "words")
			have := rapid.IntRange(0, 40).Draw(t, "have")
			in = []byte{0, 0, 0x40, 0, 0x10, 0x00, 0, 0, 0, 0, 0, 1, byte(words >> 8), byte(words)}
			in = append(in, make([]byte, have)...)
		case 1: // a complete minimal TTHeader frame (protocol id, no transforms, padding)
			in = []byte{0, 0, 0, 14, 0x10, 0x00, 0, 0, 0, 0, 0, 7, 0, 1, 0, 0, 0, 0}
			in = append(in, rapid.SliceOfN(rapid.Byte(), 0, 9).Draw(t, "payload")...)
		case 2: // a string that declares more bytes than there are (odd first byte: skipped as STRING)
			have := rapid.IntRange(0, 64).Draw(t, "have")
			decl := have + rapid.SampledFrom([]int{1, 7, 4096, 70000}).Draw(t, "more")
			in = []byte{byte(decl>>24) | 1, byte(decl >> 16), byte(decl >> 8), byte(decl)}
			in = append(in, make([]byte, have)...)
		case 3: // a well-formed struct
			v := genValue(t, 12, 2, false, false)
			in, _ = ref.Encode(&v)
		case 4: // a truncated well-formed struct
			v := genValue(t, 12, 2, false, false)
			in, _ = ref.Encode(&v)
			if len(in) > 1 {
				in = in[:rapid.IntRange(1, len(in)-1).Draw(t, "cut")]
			}
		default:
			in = rapid.SliceOfN(rapid.Byte(), 1, 48).Draw(t, "bytes")
		}
		if len(in) > 8192 {
			in = in[:8192]
		}
		c.Inputs = append(c.Inputs, in)
	}
	return c
}

func TestC14_AdjacentSlices(t *testing.T) {
	rec := evid.New("C14", "c14_adjacent", "rapid: 2..6 goroutines whose inputs are consecutive sub-slices of one arena (the spare capacity of each input is the neighbours' memory, which they keep rewriting); each goroutine refills its region 10..60 times and decodes it through TTHeader DecodeFromBytes/Decode over a bytes reader, Binary.Skip, the bytes skip decoder, SkipDecoder and BufferReader.Skip over bytes readers, ReadString/ReadBinary (unknown-field conversion is left out: it allocates whatever count arbitrary bytes declare); inputs: TTHeader meta blocks declaring more header bytes than present, minimal complete frames, strings declaring more bytes than present, well-formed and truncated structs, arbitrary bytes; observations must equal those on a private copy with cap == len; built with -race, any DATA RACE report (a read beyond len) is a violation; non-trivial = always")
	defer rec.Flush()
	runRapid(t, rec, "c14_adjacent", evid.Pick(60, 300), genAdjacent, checkAdjacent)
}
