package props

import (
	"bytes"
	"errors"
	"fmt"
	"io"
	"testing"
	"unsafe"

	"github.com/cloudwego/gopkg/bufiox"
	"github.com/cloudwego/gopkg/internal/testutils/netpoll"
	"github.com/cloudwego/gopkg/protocol/thrift"
	"github.com/cloudwego/gopkg/protocol/thrift/apache"
	"github.com/cloudwego/gopkg/protocol/thrift/base"
	uf "github.com/cloudwego/gopkg/protocol/thrift/unknownfields"
	"github.com/cloudwego/gopkg/unsafex"
	"github.com/cloudwego/gopkg/verifharness/evid"
	"github.com/cloudwego/gopkg/verifharness/faultio"
	"github.com/cloudwego/gopkg/verifharness/ref"
)

// Long runs: the same cheap operation repeated thousands of times in one process / on one object, with
// every result retained and re-checked at the end. They exist for behaviour that only changes after an
// accumulation (a counter, a statistic, a block that fills up, an adaptive size).

// LongRunCase is the replayable form: which run, and how many rounds.
type LongRunCase struct {
	Run    string `json:"run"`
	Rounds int    `json:"rounds"`
}

var longRuns = map[string]func(n int) *evid.Violation{}

func init() {
	register("long_run", func(c LongRunCase, cv *cov) *evid.Violation {
		f, ok := longRuns[c.Run]
		if !ok || c.Rounds < 1 || c.Rounds > 2_000_000 {
			return nil
		}
		var v *evid.Violation
		if p, st := evid.Safe(func() { v = f(c.Rounds) }); p != nil {
			return &evid.Violation{Msg: fmt.Sprintf("long run %s panicked: %v", c.Run, p), Stack: st}
		}
		cv.nontrivial = true
		return v
	})
}

func runLong(t *testing.T, rec *evid.Recorder, name string, rounds int) bool {
	c := LongRunCase{Run: name, Rounds: rounds}
	var v *evid.Violation
	if p, st := evid.Safe(func() { v = longRuns[name](rounds) }); p != nil {
		v = &evid.Violation{Msg: fmt.Sprintf("long run %s panicked: %v", name, p), Stack: st}
	}
	b := evid.NewBatch()
	evals := int64(rounds)
	if name == "c11_huge_extra" || name == "c16_huge_string" || name == "c15_many_direct" {
		evals = 1 // here the parameter is a size, the run is one evaluation
	}
	b.Evals, b.Distinct, b.Nontrivial = evals, evals, evals
	b.Labels["run_"+name] = evals
	b.Labels["size_or_rounds:"+name] = int64(rounds)
	rec.Merge(b)
	if v != nil {
		failEnum(t, rec, "long_run", c, v)
		return false
	}
	return true
}

// ---- C20 -------------------------------------------------------------------------------------------------

func init() {
	longRuns["c20_streak"] = func(n int) *evid.Violation {
		big := make([]byte, 1<<16)
		for i := range big {
			big[i] = byte(i*7 + 1)
		}
		bigS := string(big)
		for i := 0; i < n; i++ {
			l := 1 + i%8
			off := (i * 8) % (len(big) - 8)
			sub := big[off : off+l]
			s := unsafex.BinaryToString(sub)
			if len(s) != l || unsafe.StringData(s) != &sub[0] || s != string(sub) {
				return evid.Failf("conversion %d in a row of a %d-byte window of a 64 KiB buffer: BinaryToString no longer shares memory with its argument (or changed content)", i+1, l)
			}
			ss := bigS[off : off+l]
			bb := unsafex.StringToBinary(ss)
			if len(bb) != l || cap(bb) != l || &bb[0] != unsafe.StringData(ss) {
				return evid.Failf("conversion %d in a row of a %d-byte substring of a 64 KiB string: StringToBinary len %d cap %d, shares memory: %v", i+1, l, len(bb), cap(bb), &bb[0] == unsafe.StringData(ss))
			}
		}
		return nil
	}
}

func TestC20_Streak(t *testing.T) {
	rec := evid.New("C20", "c20_streak", "one run of 20000 (thorough 400000) consecutive conversions of 1..8-byte windows of one 64 KiB buffer / string, nothing else converted in between; sharing, length, content and cap == len checked on every call; every conversion is one evaluation")
	defer rec.Flush()
	runLong(t, rec, "c20_streak", evid.Pick(20000, 400000))
	rec.SetExhaustive()
}

// ---- C19 -------------------------------------------------------------------------------------------------

func init() {
	longRuns["c19_many_closes"] = func(n int) *evid.Violation {
		buf := &bytes.Buffer{}
		tr := apache.NewBufferTransport(buf)
		tr.Write(make([]byte, 100<<10)) // the buffer's capacity grows beyond 64 KiB and stays there
		for i := 0; i < n; i++ {
			msg := []byte{byte(i), byte(i >> 8), 'x'}
			tr.Write(msg)
			if err := tr.Close(); err != nil {
				return evid.Failf("Close %d: %v", i+1, err)
			}
			if got := tr.RemainingBytes(); got != 0 || buf.Len() != 0 {
				return evid.Failf("after Close number %d on one buffer transport whose buffer has grown beyond 64 KiB: RemainingBytes()=%d, buffer Len()=%d, want an empty buffer", i+1, got, buf.Len())
			}
			buf.Write(msg)
			p := make([]byte, 8)
			if k, _ := tr.Read(p); k != 3 || !bytes.Equal(p[:3], msg) {
				return evid.Failf("after Close number %d: a write through the buffer handle is read back through the transport as %d bytes %x, want %x", i+1, k, p[:k], msg)
			}
		}
		return nil
	}
}

func TestC19_ManyCloses(t *testing.T) {
	rec := evid.New("C19", "c19_many_closes", "one buffer transport over a buffer that has grown to 100 KiB: 10000 (thorough 200000) rounds of {Write 3 bytes; Close; check RemainingBytes == Len == 0; write through the buffer handle; read back through the transport}; every round is one evaluation")
	defer rec.Flush()
	runLong(t, rec, "c19_many_closes", evid.Pick(10000, 200000))
	rec.SetExhaustive()
}

// ---- C18 -------------------------------------------------------------------------------------------------

func init() {
	longRuns["c18_many_prepends"] = func(n int) *evid.Violation {
		pe := thrift.NewProtocolException(thrift.INVALID_DATA, "first text")
		ae := thrift.NewApplicationException(7, "first text")
		check := func(round int, what string) *evid.Violation {
			for _, e := range []error{pe, ae} {
				got := thrift.PrependError("ctx: ", e)
				ti, ok := got.(interface{ TypeId() int32 })
				want := e.(interface{ TypeId() int32 }).TypeId()
				if !ok || ti.TypeId() != want || got.Error() != "ctx: "+e.Error() {
					return evid.Failf("PrependError call %d with the same prefix on the same exception object (%s): got %q / type %v, want %q / type %d", round, what, got.Error(), got, "ctx: "+e.Error(), want)
				}
			}
			return nil
		}
		for i := 0; i < n; i++ {
			if v := check(i+1, "unchanged object"); v != nil {
				return v
			}
		}
		// the objects are reused as decode receivers and now hold other content
		other := thrift.NewApplicationException(9, "second text, longer than the first")
		img := make([]byte, other.BLength())
		other.FastWrite(img)
		if _, err := pe.FastRead(img); err != nil {
			return evid.Failf("FastRead into the protocol exception: %v", err)
		}
		if _, err := ae.FastRead(img); err != nil {
			return evid.Failf("FastRead into the application exception: %v", err)
		}
		return check(n+1, "after the object was reused as a decode receiver and holds another type id and text")
	}
}

func TestC18_ManyPrepends(t *testing.T) {
	rec := evid.New("C18", "c18_many_prepends", "20000 (thorough 300000) PrependError calls with one prefix on one protocol exception and one application exception object (kind, type id and text checked every time), then both objects are reused as FastRead receivers and the same prefix is prepended once more: the result must carry the new type id and text; every call is one evaluation")
	defer rec.Flush()
	runLong(t, rec, "c18_many_prepends", evid.Pick(20000, 300000))
	rec.SetExhaustive()
}

// ---- C15 -------------------------------------------------------------------------------------------------

func init() {
	longRuns["c15_many_direct"] = func(n int) *evid.Violation {
		nw := &netpoll.NetpollDirectWriter{}
		one := func(k, l int, tag byte) *evid.Violation {
			vals := make([][]byte, k)
			total := 0
			var want []byte
			for i := range vals {
				vals[i] = patternBytes(tag+byte(i), l)
				total += 4 + l
				want = append(ref.Put32(want, uint32(l)), vals[i]...)
			}
			b := nw.Malloc(total)
			off := 0
			for _, v := range vals {
				off += thrift.Binary.WriteBinaryNocopy(b[off:], nw, v)
			}
			got := nw.Bytes()
			if !bytes.Equal(got, want) {
				return evid.Failf("a message of %d binaries of %d bytes written through one reused NetpollDirectWriter (%d direct writes): the spliced stream differs from the copying path at offset %d", k, l, nw.WriteDirectN(), firstDiff(got, want))
			}
			return nil
		}
		if v := one(3, 5000, 1); v != nil {
			return v
		}
		if v := one(n, 4096, 7); v != nil { // one message with very many direct pieces
			return v
		}
		for i := 0; i < 4; i++ {
			if v := one(2+i, 4096+i, byte(40+i)); v != nil {
				v.Msg = fmt.Sprintf("message %d after a message with %d direct pieces: %s", i+1, n, v.Msg)
				return v
			}
		}
		return nil
	}
}

func TestC15_ManyDirect(t *testing.T) {
	rec := evid.New("C15", "c15_many_direct", "one NetpollDirectWriter: a message of 3 large binaries, then one message of 1100 (thorough 5000) binaries of 4096 bytes (as many direct pieces), then 4 further small messages on the same writer; every spliced stream compared with the copying path")
	defer rec.Flush()
	runLong(t, rec, "c15_many_direct", evid.Pick(1100, 5000))
	rec.SetExhaustive()
}

// ---- C12 / C16 ---------------------------------------------------------------------------------------------

func init() {
	longRuns["c12_many_headers"] = func(n int) *evid.Violation {
		// one stream reader (and, every 500 messages, its pooled successor) reads n headers with distinct
		// 41-byte names; every name is retained and compared at the end
		var stream []byte
		names := make([]string, n)
		for i := 0; i < n; i++ {
			names[i] = fmt.Sprintf("Service%06d.MethodWithALongerName%06d", i, n-i)[:41]
			stream = append(stream, refMsgHeader(names[i], 1, int32(i))...)
		}
		rd := bufiox.NewDefaultReader(faultio.NewScriptReader(stream, faultio.Plan{Chunks: []int{4096}, ErrAt: -1}))
		r := thrift.NewBufferReader(rd)
		got := make([]string, 0, n)
		for i := 0; i < n; i++ {
			name, _, seq, err := r.ReadMessageBegin()
			if err != nil || name != names[i] || seq != int32(i) {
				return evid.Failf("header %d of %d on one stream reader: got (%q, seq %d, %v), want (%q, %d)", i, n, name, seq, err, names[i], i)
			}
			got = append(got, name)
			rd.Release(nil)
			if i%500 == 499 {
				r.Recycle()
				r = thrift.NewBufferReader(rd)
			}
		}
		for i := range got {
			if got[i] != names[i] {
				return evid.Failf("method name %d of %d read by one stream reader (and its pooled successors) was %q when it was returned and reads %q after %d further headers", i, n, names[i], got[i], n-1-i)
			}
		}
		return nil
	}
	longRuns["c16_many_small"] = func(n int) *evid.Violation {
		// n small strings / binaries (1..100 bytes) decoded in one process with the span cache enabled, each
		// from a buffer that is overwritten afterwards; all retained and compared at the end
		thrift.SetSpanCache(true)
		defer thrift.SetSpanCache(false)
		in := make([]byte, 4+128)
		strs := make([]string, 0, n)
		bins := make([][]byte, 0, n/2)
		for i := 0; i < n; i++ {
			l := 1 + (i*7)%100
			in[0], in[1], in[2], in[3] = 0, 0, 0, byte(l)
			for j := 0; j < l; j++ {
				in[4+j] = byte(i + j*3)
			}
			s, _, err := thrift.Binary.ReadString(in[:4+l])
			if err != nil {
				return evid.Failf("decode %d: %v", i, err)
			}
			strs = append(strs, s)
			if i%2 == 0 {
				b, _, err := thrift.Binary.ReadBinary(in[:4+l])
				if err != nil {
					return evid.Failf("decode %d: %v", i, err)
				}
				bins = append(bins, b)
			}
			for j := range in {
				in[j] = 0xEE
			}
		}
		for i, s := range strs {
			l := 1 + (i*7)%100
			if len(s) != l {
				return evid.Failf("string %d of %d small strings decoded with the span cache enabled: length %d, want %d", i, n, len(s), l)
			}
			for j := 0; j < l; j++ {
				if s[j] != byte(i+j*3) {
					return evid.Failf("string %d of %d small strings (%d bytes) decoded in one process with the span cache enabled no longer holds its bytes at the end of the run (byte %d reads %#x, want %#x)", i, n, l, j, s[j], byte(i+j*3))
				}
			}
			if i%2 == 0 {
				b := bins[i/2]
				for j := 0; j < l; j++ {
					if len(b) != l || b[j] != byte(i+j*3) {
						return evid.Failf("binary %d of the run (%d bytes) no longer holds its bytes at the end of the run", i, l)
					}
				}
			}
		}
		return nil
	}
}

func TestC12_ManyHeaders(t *testing.T) {
	rec := evid.New("C12", "c12_many_headers", "one stream reader (its pooled successor every 500 messages) reads 30000 (thorough 300000) message headers with distinct 41-byte method names; every name, type and sequence id compared at once, and every retained name compared again at the end of the run")
	defer rec.Flush()
	runLong(t, rec, "c12_many_headers", evid.Pick(30000, 300000))
	rec.SetExhaustive()
}

func TestC16_ManySmall(t *testing.T) {
	rec := evid.New("C16", "c16_many_small", "600000 (thorough 6000000) strings and binaries of 1..100 bytes (30 MB resp. 300 MB in total) decoded in one process with the span cache enabled, each from a buffer that is overwritten right afterwards; all values retained and compared at the end of the run")
	defer rec.Flush()
	runLong(t, rec, "c16_many_small", evid.Pick(600000, 6000000))
	rec.SetExhaustive()
}

// ---- C13 -------------------------------------------------------------------------------------------------

func init() {
	longRuns["c13_many_conversions"] = func(n int) *evid.Violation {
		// every conversion's result is retained; the inputs differ in one value so that a swapped or
		// overwritten result is visible
		trees := make([][]uf.UnknownField, 0, n)
		for i := 0; i < n; i++ {
			in := []byte{byte(ref.I32), 0, 1, byte(i >> 24), byte(i >> 16), byte(i >> 8), byte(i), byte(ref.STRING), 0, 2, 0, 0, 0, 2, byte('a' + i%26), 'z', byte(ref.I64), 0, 3, 0, 0, 0, 0, 0, 0, 0, 9}
			tr, err := uf.ConvertUnknownFields(in)
			if err != nil || len(tr) != 3 {
				return evid.Failf("conversion %d: %d fields, err=%v", i, len(tr), err)
			}
			trees = append(trees, tr)
		}
		for i, tr := range trees {
			if len(tr) != 3 || tr[0].ID != 1 || tr[0].Type != thrift.I32 || tr[0].Value != int32(i) || tr[1].ID != 2 || tr[1].Value != string([]byte{byte('a' + i%26), 'z'}) || tr[2].ID != 3 || tr[2].Value != int64(9) {
				return evid.Failf("the tree returned by conversion %d of %d in one process no longer holds its three fields at the end of the run: %+v", i, n, tr)
			}
		}
		return nil
	}
}

func TestC13_ManyConversions(t *testing.T) {
	rec := evid.New("C13", "c13_many_conversions", "100000 (thorough 1000000) conversions of three-field inputs (differing in one value) in one process, every returned tree retained and compared at the end of the run")
	defer rec.Flush()
	runLong(t, rec, "c13_many_conversions", evid.Pick(100000, 1000000))
	rec.SetExhaustive()
}

// ---- C17 -------------------------------------------------------------------------------------------------

type tagErr struct{ n int }

func (e *tagErr) Error() string { return fmt.Sprintf("source failure %d", e.n) }

type failingReader struct{ err error }

func (f *failingReader) Read([]byte) (int, error) { return 0, f.err }

func init() {
	longRuns["c17_many_failures"] = func(n int) *evid.Violation {
		type kept struct {
			err error
			src error
		}
		var keep []kept
		for i := 0; i < n; i++ {
			var src error = &tagErr{i}
			if i%5 == 0 {
				src = io.EOF
			} else if i%5 == 1 {
				src = io.ErrUnexpectedEOF
			}
			r := thrift.NewBufferReader(bufiox.NewDefaultReader(&failingReader{src}))
			var err error
			switch i % 3 {
			case 0:
				_, err = r.ReadI64()
			case 1:
				_, err = r.ReadString()
			default:
				err = r.Skip(thrift.STRUCT)
			}
			r.Recycle()
			if err == nil || !errors.Is(err, src) {
				return evid.Failf("failure %d: BufferReader over a source failing with %q returned %v", i, src, err)
			}
			if i < 64 || i%97 == 0 {
				keep = append(keep, kept{err, src})
			}
		}
		for i, k := range keep {
			if !errors.Is(k.err, k.src) {
				return evid.Failf("the error returned for retained failure %d (source error %q) no longer matches its source error after %d stream-reader failures in one process: it now reads %q", i, k.src, n, k.err)
			}
		}
		return nil
	}
}

func TestC17_ManyFailures(t *testing.T) {
	rec := evid.New("C17", "c17_many_failures", "60000 (thorough 1000000) stream-reader failures in one process (ReadI64 / ReadString / Skip over sources failing with io.EOF, io.ErrUnexpectedEOF and distinct custom errors); every error must match its source error at once; the first 64 and every 97th are retained and must still match at the end of the run")
	defer rec.Flush()
	runLong(t, rec, "c17_many_failures", evid.Pick(60000, 1000000))
	rec.SetExhaustive()
}

// ---- thorough-tier only: very large single values ------------------------------------------------------------

func init() {
	longRuns["c11_huge_extra"] = func(n int) *evid.Violation {
		// a Base whose Extra map has n entries (n just above 2^20 in the thorough tier)
		x := base.NewBase()
		x.LogID, x.Caller, x.Addr = "log", "caller", "addr"
		x.Extra = make(map[string]string, n)
		for i := 0; i < n; i++ {
			x.Extra[fmt.Sprintf("k%07d", i)] = "v"
		}
		bl := x.BLength()
		buf := make([]byte, bl)
		if w := x.FastWrite(buf); w != bl {
			return evid.Failf("Base with %d Extra entries: FastWrite wrote %d bytes, BLength()=%d", n, w, bl)
		}
		y := base.NewBase()
		rn, err := y.FastRead(buf)
		if err != nil || rn != bl {
			return evid.Failf("Base with %d Extra entries: FastRead returned (%d, %v), the encoding has %d bytes", n, rn, err, bl)
		}
		if len(y.Extra) != n || y.LogID != "log" || y.Caller != "caller" || y.Addr != "addr" {
			return evid.Failf("Base with %d Extra entries reads back with %d entries (LogID %q, Caller %q, Addr %q)", n, len(y.Extra), y.LogID, y.Caller, y.Addr)
		}
		for i := 0; i < n; i += 4099 {
			if y.Extra[fmt.Sprintf("k%07d", i)] != "v" {
				return evid.Failf("Base with %d Extra entries: entry %d is missing after the round trip", n, i)
			}
		}
		return nil
	}
	longRuns["c16_huge_string"] = func(n int) *evid.Violation {
		// one string of n bytes read by BufferReader.ReadString over a bytes reader and over a stream reader;
		// afterwards the input is overwritten and the reader's buffers go back to the pool and are reused
		// the string is followed by an i64: exactly 4+n bytes must be consumed for it
		in := make([]byte, 4+n+8)
		in[0], in[1], in[2], in[3] = byte(n>>24), byte(n>>16), byte(n>>8), byte(n)
		for i := 4; i < 4+n; i += 4093 {
			in[i] = byte(i>>8) | 1
		}
		in[4+n-1] = 0x5a
		copy(in[4+n:], []byte{1, 2, 3, 4, 5, 6, 7, 8})
		const after = int64(0x0102030405060708)
		check := func(s string, how string) *evid.Violation {
			if len(s) != n {
				return evid.Failf("%s of a %d-byte string returned %d bytes", how, n, len(s))
			}
			for i := 4; i < 4+n; i += 4093 {
				if s[i-4] != byte(i>>8)|1 {
					return evid.Failf("%s of a %d-byte string: after the input buffer was overwritten and the reader's buffers were reused, byte %d of the returned string reads %#x, want %#x", how, n, i-4, s[i-4], byte(i>>8)|1)
				}
			}
			if s[n-1] != 0x5a {
				return evid.Failf("%s of a %d-byte string: the last byte changed after the input was overwritten", how, n)
			}
			return nil
		}
		cp := append([]byte(nil), in...)
		rd := bufiox.NewBytesReader(cp)
		r := thrift.NewBufferReader(rd)
		s1, err := r.ReadString()
		rn1 := r.Readn()
		x1, e1 := r.ReadI64()
		r.Recycle()
		rd.Release(nil)
		if err != nil {
			return evid.Failf("BufferReader.ReadString (bytes reader) of a %d-byte string: %v", n, err)
		}
		if rn1 != int64(4+n) || e1 != nil || x1 != after {
			return evid.Failf("BufferReader.ReadString (bytes reader) of a %d-byte string consumed %d bytes (want %d); the i64 behind it reads (%#x, %v), want %#x", n, rn1, 4+n, x1, e1, after)
		}
		for i := range cp {
			cp[i] = 0xEE
		}
		if v := check(s1, "BufferReader.ReadString over a bytes reader"); v != nil {
			return v
		}
		sr := bufiox.NewDefaultReader(faultio.NewScriptReader(in, faultio.Plan{Chunks: []int{1 << 20}, ErrAt: -1}))
		r = thrift.NewBufferReader(sr)
		s2, err := r.ReadString()
		rn2 := r.Readn()
		x2, e2 := r.ReadI64()
		r.Recycle()
		sr.Release(nil)
		if err != nil {
			return evid.Failf("BufferReader.ReadString (stream reader) of a %d-byte string: %v", n, err)
		}
		if rn2 != int64(4+n) || e2 != nil || x2 != after {
			return evid.Failf("BufferReader.ReadString (stream reader) of a %d-byte string consumed %d bytes (want %d); the i64 behind it reads (%#x, %v), want %#x", n, rn2, 4+n, x2, e2, after)
		}
		// other pool users take and overwrite buffers of every large class
		tn := tenantFor(n)
		if v := tn.sweep(nil, false); v != nil {
			return v
		}
		return check(s2, "BufferReader.ReadString over a stream reader")
	}
}

func TestC11_HugeExtra(t *testing.T) {
	rec := evid.New("C11", "c11_huge_extra", "one Base whose Extra map has 2^20 + 3 entries (thorough: 2^21 + 5): BLength == bytes written == bytes read, entry count and sampled entries compared after the round trip")
	defer rec.Flush()
	runLong(t, rec, "c11_huge_extra", evid.Pick(1<<20+3, 1<<21+5))
	rec.SetExhaustive()
}

func TestC16_HugeString(t *testing.T) {
	rec := evid.New("C16", "c16_huge_string", "one string of 2^27 + 1 bytes (thorough: 2^27 + 4097) followed by an i64, read by BufferReader.ReadString over a bytes reader and over a stream reader (exactly 4+n bytes consumed, the i64 reads back); afterwards the input is overwritten, the readers are released and a co-tenant overwrites pool buffers of every class up to 4x the string; sampled bytes of the returned strings are compared")
	defer rec.Flush()
	runLong(t, rec, "c16_huge_string", evid.Pick(1<<27+1, 1<<27+4097))
	rec.SetExhaustive()
}

func init() {
	longRuns["c16_many_names"] = func(n int) *evid.Violation {
		// n distinct short method names decoded by Binary.ReadMessageBegin from one reused header buffer;
		// every name retained and compared at the end
		names := make([]string, 0, n)
		hdr := refMsgHeader("Method0000000", 1, 0)
		name := hdr[8 : 8+13]
		for i := 0; i < n; i++ {
			x := i
			for j := 12; j >= 6; j-- {
				name[j] = byte('0' + x%10)
				x /= 10
			}
			gn, _, _, _, err := thrift.Binary.ReadMessageBegin(hdr)
			if err != nil || gn != string(name) {
				return evid.Failf("name %d: decoded %q (err %v), the header carries %q", i, gn, err, name)
			}
			names = append(names, gn)
		}
		for i, gn := range names {
			if want := fmt.Sprintf("Method%07d", i); gn != want {
				return evid.Failf("method name %d of %d distinct names decoded from one reused header buffer was %q when it was returned and reads %q at the end of the run", i, n, want, gn)
			}
		}
		return nil
	}
}

func TestC16_ManyNames(t *testing.T) {
	rec := evid.New("C16", "c16_many_names", "50000 (thorough 2000000) distinct 13-byte method names decoded by Binary.ReadMessageBegin from one header buffer that is rewritten for every message; every name retained and compared at the end of the run")
	defer rec.Flush()
	runLong(t, rec, "c16_many_names", evid.Pick(50000, 2000000))
	rec.SetExhaustive()
}
