package props

import (
	"fmt"
	"math"
	"testing"
	"unsafe"

	"pgregory.net/rapid"

	"github.com/cloudwego/gopkg/container/strmap"
	"github.com/cloudwego/gopkg/verifharness/evid"
)

// C07, strings handed out by EARLIER loads fed back in (c07_stale), and failing loads of a Str2Str whose
// rejected string is a value (c07_stale, HugeVal).
//
// A read-only map hands out zero-copy views of its storage (Item keys, Str2Str.Get values). Such a view stays
// a valid Go string after a reload; what it reads may change when the storage is reused (by design). When it is
// passed to a later load its content at the time of the call is what has to be loaded - the load must not
// overwrite it before it has copied it. c07_random reloads an instance from the entries of the CURRENT load;
// here views of any earlier load are kept and used as keys and values of later loads of other sizes.

// StaleLoad is one load: Fresh new keys with values of ValLen+i%3 bytes, plus stale views used as keys / values.
type StaleLoad struct {
	Fresh     int   `json:"fresh"`
	KeyPad    int   `json:"key_pad,omitempty"`
	ValLen    int   `json:"val_len,omitempty"`
	StaleKeys []int `json:"stale_keys,omitempty"` // indices into the list of views handed out so far
	StaleVals []int `json:"stale_vals,omitempty"` // Str2Str: values of the first len(StaleVals) fresh keys
	// HugeVal (Str2Str only): a failing load - the value of the last key is longer than MaxUint32 (never touched)
	HugeVal bool `json:"huge_val,omitempty"`
	// Dup: the first key is passed twice (outside the property's domain of distinct keys): IF the library rejects
	// such a load, the rejection must not have changed anything; if it accepts it, nothing is asserted until the
	// next load
	Dup bool `json:"dup,omitempty"`
	// NoEnum: after this load the map is only queried with Get (no Item enumeration, nothing handed out)
	NoEnum bool `json:"no_enum,omitempty"`
	// Print: the map is printed (String / %v) before it is queried
	Print bool `json:"print,omitempty"`
}

type StaleCase struct {
	Str2Str bool        `json:"str2str"`
	Loads   []StaleLoad `json:"loads"`
}

func checkStale(c StaleCase, cv *cov) (v *evid.Violation) {
	p, st := evid.Safe(func() { v = checkStaleBody(c, cv) })
	if p != nil {
		return &evid.Violation{Msg: fmt.Sprintf("panic: %v", p), Stack: st}
	}
	return v
}

func checkStaleBody(c StaleCase, cv *cov) *evid.Violation {
	var sm *strmap.StrMap[int]
	var s2 *strmap.Str2Str
	if c.Str2Str {
		s2 = strmap.NewStr2Str()
	} else {
		sm = strmap.New[int]()
	}
	var handed []string // views handed out by any load so far
	modelS := map[string]string{}
	modelI := map[string]int{}
	usedStale, usedOld, sawHuge, sawDupRejected, unknown := false, false, false, false, false
	handedAt := []int{} // load index at which handed[i] was obtained
	enum := true
	verify := func(when string) *evid.Violation {
		if c.Str2Str {
			if s2.Len() != len(modelS) {
				return evid.Failf("%s: Len()=%d, loaded %d pairs", when, s2.Len(), len(modelS))
			}
			for k, want := range modelS {
				if got, ok := s2.Get(k); !ok || got != want {
					return evid.Failf("%s: Get(%q) = (%q,%v), a Go map holding the loaded pairs answers (%q,true)", when, clip(k), clip(got), ok, clip(want))
				}
				if _, loaded := modelS[k+"\x01"]; !loaded {
					if got, ok := s2.Get(k + "\x01"); ok {
						return evid.Failf("%s: Get(%q) = (%q,true) for a key that was not loaded", when, clip(k+"\x01"), clip(got))
					}
				}
			}
			return nil
		}
		if sm.Len() != len(modelI) {
			return evid.Failf("%s: Len()=%d, loaded %d pairs", when, sm.Len(), len(modelI))
		}
		for k, want := range modelI {
			if got, ok := sm.Get(k); !ok || got != want {
				return evid.Failf("%s: Get(%q) = (%d,%v), a Go map holding the loaded pairs answers (%d,true)", when, clip(k), got, ok, want)
			}
		}
		seen := map[string]bool{}
		for i, n := 0, sm.Len(); enum && i < n; i++ {
			k, val := sm.Item(i)
			if want, ok := modelI[k]; !ok || want != val || seen[k] {
				return evid.Failf("%s: Item(%d) = (%q,%d) which is not one of the loaded pairs (or is enumerated twice)", when, i, clip(k), val)
			}
			seen[string([]byte(k))] = true
			// probes cut out of the string Item returned: they start at (or inside) the stored key's own memory
			for _, p := range []string{k[:len(k)/2], k[:len(k)-len(k)/3], k[len(k)/2:], k[:0]} {
				want, wok := modelI[p]
				if got, ok := sm.Get(p); ok != wok || got != want {
					return evid.Failf("%s: Get of %q, a sub-string of the key %q that Item(%d) returned, = (%d,%v); a Go map holding the loaded pairs answers (%d,%v)", when, clip(p), clip(k), i, got, ok, want, wok)
				}
			}
		}
		return nil
	}
	for li, ld := range c.Loads {
		var kk []string
		var vi []int
		var vs []string
		taken := map[string]bool{}
		for i := 0; i < ld.Fresh; i++ {
			k := fmt.Sprintf("k%d-%d-%s", li, i, string(patternBytes(byte(li*7+i), ld.KeyPad%97)))
			kk = append(kk, k)
			taken[k] = true
			vi = append(vi, li*100003+i)
			vs = append(vs, string(patternBytes(byte(0x40+li+i), ld.ValLen%211+i%3)))
		}
		how := ""
		if len(handed) > 0 {
			for _, idx := range ld.StaleKeys {
				h := idx % len(handed)
				s := handed[h]
				snap := string([]byte(s)) // its content now, at the time of the call
				if taken[snap] {
					continue
				}
				taken[snap] = true
				kk = append(kk, s)
				vi = append(vi, -1000-idx)
				vs = append(vs, fmt.Sprintf("v-for-stale-%d", idx))
				usedStale = true
				if handedAt[h] < li-1 {
					usedOld = true
				}
				how = " (some keys are strings this instance handed out after earlier loads)"
			}
			if c.Str2Str {
				for j, idx := range ld.StaleVals {
					if j >= len(vs) {
						break
					}
					h := idx % len(handed)
					vs[j] = handed[h]
					usedStale = true
					if handedAt[h] < li-1 {
						usedOld = true
					}
					how = " (some keys/values are strings this instance handed out after earlier loads)"
				}
			}
		}
		// the model holds copies made before the load
		nmS, nmI := map[string]string{}, map[string]int{}
		for i, k := range kk {
			kc := string([]byte(k))
			nmS[kc] = string([]byte(vs[i]))
			nmI[kc] = vi[i]
		}
		if ld.Dup && len(kk) > 0 && !ld.HugeVal {
			k2 := append(append([]string{}, kk...), string([]byte(kk[0])))
			var err error
			if c.Str2Str {
				err = s2.LoadFromSlice(k2, append(append([]string{}, vs...), "dup-value"))
			} else {
				err = sm.LoadFromSlice(k2, append(append([]int{}, vi...), -7))
			}
			if err != nil {
				sawDupRejected = true
				if unknown {
					continue
				}
				if v := verify(fmt.Sprintf("after load %d was rejected (%v) because a key was passed twice", li, err)); v != nil {
					return v
				}
			} else {
				unknown = true // accepted: what a map with a repeated key answers is not specified
			}
			continue
		}
		if ld.HugeVal && c.Str2Str {
			if unknown {
				continue
			}
			hm := hugeMapping()
			if hm == nil {
				cv.label("huge_mapping_unavailable")
				continue
			}
			hv := unsafe.String(&hm[0], math.MaxUint32+1+li%1000)
			k2 := append(append([]string{}, kk...), fmt.Sprintf("key-of-huge-value-%d", li))
			v2 := append(append([]string{}, vs...), hv)
			var err error
			pp, _ := evid.Safe(func() { err = s2.LoadFromSlice(k2, v2) })
			if pp == nil && err == nil {
				return evid.Failf("load %d: Str2Str.LoadFromSlice with a value of %d bytes (more than MaxUint32) returned nil", li, len(hv))
			}
			sawHuge = true
			// rejected (by an error, or by the documented panic of the value store): nothing may have changed
			if v := verify(fmt.Sprintf("after load %d was rejected because a value has %d bytes (more than MaxUint32)", li, len(hv))); v != nil {
				return v
			}
			continue
		}
		var err error
		if c.Str2Str {
			err = s2.LoadFromSlice(kk, vs)
		} else {
			err = sm.LoadFromSlice(kk, vi)
		}
		if err != nil {
			return evid.Failf("load %d of %d distinct keys failed: %v", li, len(kk), err)
		}
		modelS, modelI = nmS, nmI
		unknown = false
		enum = !ld.NoEnum
		if ld.Print {
			if c.Str2Str {
				_ = fmt.Sprintf("%v", s2)
			} else {
				_ = sm.String() + fmt.Sprintf("%v %s", sm, sm)
			}
		}
		if v := verify(fmt.Sprintf("after load %d of %d keys%s", li, len(kk), how)); v != nil {
			return v
		}
		// collect what this load hands out (views)
		if ld.NoEnum {
			continue
		}
		if c.Str2Str {
			for k := range modelS {
				if got, ok := s2.Get(k); ok && len(got) > 0 {
					handed = append(handed, got)
					handedAt = append(handedAt, li)
				}
			}
		} else {
			for i, n := 0, sm.Len(); i < n; i++ {
				k, _ := sm.Item(i)
				if len(k) > 0 {
					handed = append(handed, k)
					handedAt = append(handedAt, li)
				}
			}
		}
		if len(handed) > 400 {
			handed, handedAt = handed[len(handed)-400:], handedAt[len(handedAt)-400:]
		}
	}
	cv.nontrivial = usedStale || sawHuge
	cv.labelIf(usedStale, "stale_views_fed_back")
	cv.labelIf(usedOld, "views_of_a_load_before_the_previous_one")
	cv.labelIf(sawHuge, "failed_load_value_over_4GiB")
	cv.labelIf(sawDupRejected, "load_with_repeated_key_rejected")
	cv.labelIf(c.Str2Str, "str2str")
	return nil
}

func clip(s string) string {
	if len(s) > 60 {
		return s[:60] + fmt.Sprintf("...(%d bytes)", len(s))
	}
	return s
}

func init() { register("c07_stale", checkStale) }

func genStaleCase(t *rapid.T) StaleCase {
	c := StaleCase{Str2Str: rapid.IntRange(0, 2).Draw(t, "s2s") > 0}
	nl := rapid.IntRange(2, 7).Draw(t, "nloads")
	for i := 0; i < nl; i++ {
		ld := StaleLoad{
			Fresh:  rapid.SampledFrom([]int{0, 1, 1, 2, 3, 5, 12, 40}).Draw(t, "fresh"),
			KeyPad: rapid.SampledFrom([]int{0, 0, 3, 20, 90}).Draw(t, "keyPad"),
			ValLen: rapid.SampledFrom([]int{0, 1, 5, 30, 200}).Draw(t, "valLen"),
		}
		if i > 0 {
			ld.StaleKeys = rapid.SliceOfN(rapid.IntRange(0, 399), 0, 6).Draw(t, "staleKeys")
			if c.Str2Str {
				ld.StaleVals = rapid.SliceOfN(rapid.IntRange(0, 399), 0, 4).Draw(t, "staleVals")
				ld.HugeVal = rapid.IntRange(0, 9).Draw(t, "hugeVal") == 0
			}
			ld.Dup = rapid.IntRange(0, 9).Draw(t, "dup") == 0
			ld.NoEnum = rapid.IntRange(0, 2).Draw(t, "noEnum") == 0
			ld.Print = rapid.IntRange(0, 3).Draw(t, "print") == 0
		}
		c.Loads = append(c.Loads, ld)
	}
	return c
}

func TestC07_Stale(t *testing.T) {
	rec := evid.New("C07", "c07_stale", "rapid: 2..7 loads on one StrMap[int] or Str2Str of 0..40 fresh keys (keys of 4..100 bytes, values of 0..213 bytes) in which up to 6 keys and (Str2Str) up to 4 values are zero-copy strings the instance handed out after ANY earlier load (Item keys, Get values; up to 400 are kept), loaded with the content they have at the time of the call; (Str2Str) one load in ten is rejected because a value is longer than MaxUint32 (never-touched mapping; rejected by error or by the value store's documented panic) and nothing may have changed; one load in ten passes its first key twice (if that is rejected, nothing may have changed; if it is accepted, nothing is asserted until the next load); after most loads of a StrMap the pairs are enumerated with Item and sub-strings cut out of the returned keys are probed (after one load in three the map is only queried with Get and hands nothing out); one load in four is followed by printing the map before it is queried; oracle = Go map of copies made before the load; non-trivial = a handed-out string was fed back or a load was rejected")
	defer rec.Flush()
	runRapid(t, rec, "c07_stale", evid.Pick(4000, 30000), genStaleCase, checkStale)
}
