package props

import (
	"bytes"
	"fmt"
	"math"
	"os"
	"os/exec"
	"testing"

	"github.com/cloudwego/gopkg/protocol/thrift"
	uf "github.com/cloudwego/gopkg/protocol/thrift/unknownfields"
	"github.com/cloudwego/gopkg/verifharness/evid"
	"github.com/cloudwego/gopkg/verifharness/ref"
	"pgregory.net/rapid"
)

// ---- C13: unknown-field trees convert to and from bytes without loss ---------------------------

// UFCase is a sequence of well-formed encoded fields (no top-level STOP, canonical booleans).
type UFCase struct {
	Data   evid.Hex `json:"data"`
	WarmUp int      `json:"warm_up,omitempty"` // number of top-level fields of a conversion made just before (history)
}

// warmUpInput builds n small top-level fields.
func warmUpInput(n int) []byte {
	var b []byte
	for i := 0; i < n; i++ {
		b = append(b, ref.I32, byte(i>>8), byte(i))
		b = ref.Put32(b, uint32(i))
	}
	return b
}

// editNestedString finds a string at depth >= 2 in the harness-built tree / reference fields, appends one
// byte to it IN PLACE (same slices) in both, and reports whether it found one.
func editNestedString(tree []uf.UnknownField, fields []ref.Field) bool {
	var walk func(f *uf.UnknownField, v *ref.Value, depth int) bool
	walk = func(f *uf.UnknownField, v *ref.Value, depth int) bool {
		switch v.T {
		case ref.STRING:
			if depth >= 2 {
				v.Str = append(append([]byte(nil), v.Str...), 'Z')
				f.Value = string(v.Str)
				return true
			}
		case ref.LIST, ref.SET, ref.MAP:
			xs := f.Value.([]uf.UnknownField)
			for i := range xs {
				if walk(&xs[i], &v.Elems[i], depth+1) {
					return true
				}
			}
		case ref.STRUCT:
			xs := f.Value.([]uf.UnknownField)
			for i := range xs {
				if walk(&xs[i], &v.Fields[i].V, depth+1) {
					return true
				}
			}
		}
		return false
	}
	for i := range tree {
		if walk(&tree[i], &fields[i].V, 1) {
			return true
		}
	}
	return false
}

// parseFieldSeq parses data as (type,id,value)* with the reference; ok=false if it is not in the domain.
func parseFieldSeq(b []byte) (fields []ref.Field, ok bool) {
	i := 0
	for i < len(b) {
		if len(b)-i < 3 {
			return nil, false
		}
		ft := int8(b[i])
		if !ref.ValidType(ft) {
			return nil, false
		}
		id := int16(uint16(b[i+1])<<8 | uint16(b[i+2]))
		i += 3
		r := ref.Walk(b[i:], ft)
		if r.Class != ref.OK && !(r.Class == ref.DEPTH) {
			return nil, false
		}
		if r.Class == ref.DEPTH {
			// the skippers' nesting limit does not apply to the tree converter: parse deep values with the
			// unbounded structural decoder, provided it consumes a well-formed value
			n, ok := deepExtent(b[i:], ft, 0)
			if !ok {
				return nil, false
			}
			r.N = n
		}
		v, n := ref.Decode(b[i:], ft)
		if n != r.N {
			return nil, false
		}
		fields = append(fields, ref.Field{ID: id, V: v})
		i += n
	}
	return fields, len(fields) > 0
}

func canonicalBools(v *ref.Value) bool {
	if v.T == ref.BOOL && v.Bits > 1 {
		return false
	}
	for i := range v.Elems {
		if !canonicalBools(&v.Elems[i]) {
			return false
		}
	}
	for i := range v.Fields {
		if !canonicalBools(&v.Fields[i].V) {
			return false
		}
	}
	return true
}

// compareUF compares a converted field with the reference value. checkID is false for container elements.
func compareUF(f *uf.UnknownField, id int16, want *ref.Value, checkID bool, path string) *evid.Violation {
	if f.Type != want.T {
		return evid.Failf("%s: Type=%d, encoded type is %d", path, f.Type, want.T)
	}
	if checkID && f.ID != id {
		return evid.Failf("%s: ID=%d, encoded id is %d", path, f.ID, id)
	}
	wantKT, wantVT := int8(0), int8(0)
	switch want.T {
	case ref.MAP:
		wantKT, wantVT = want.KT, want.ET
	case ref.LIST, ref.SET:
		wantVT = want.ET
	}
	if f.KeyType != wantKT || f.ValType != wantVT {
		return evid.Failf("%s (type %d): KeyType=%d ValType=%d, want %d and %d (tags are set only where meaningful)", path, want.T, f.KeyType, f.ValType, wantKT, wantVT)
	}
	bad := func() *evid.Violation {
		return evid.Failf("%s (type %d): Value is %T %v, encoded bits %#x", path, want.T, f.Value, f.Value, want.Bits)
	}
	switch want.T {
	case ref.BOOL:
		if x, ok := f.Value.(bool); !ok || x != (want.Bits == 1) {
			return bad()
		}
	case ref.BYTE:
		if x, ok := f.Value.(int8); !ok || x != int8(want.Bits) {
			return bad()
		}
	case ref.I16:
		if x, ok := f.Value.(int16); !ok || x != int16(want.Bits) {
			return bad()
		}
	case ref.I32:
		if x, ok := f.Value.(int32); !ok || x != int32(want.Bits) {
			return bad()
		}
	case ref.I64:
		if x, ok := f.Value.(int64); !ok || x != int64(want.Bits) {
			return bad()
		}
	case ref.DOUBLE:
		if x, ok := f.Value.(float64); !ok || math.Float64bits(x) != want.Bits {
			return bad()
		}
	case ref.STRING:
		if x, ok := f.Value.(string); !ok || x != string(want.Str) {
			return evid.Failf("%s: string value differs (%d vs %d bytes)", path, len(x), len(want.Str))
		}
	case ref.LIST, ref.SET, ref.MAP:
		xs, ok := f.Value.([]uf.UnknownField)
		if !ok || len(xs) != len(want.Elems) {
			return evid.Failf("%s (type %d): %d children, encoded %d", path, want.T, len(xs), len(want.Elems))
		}
		for i := range xs {
			if v := compareUF(&xs[i], 0, &want.Elems[i], false, fmt.Sprintf("%s/%d", path, i)); v != nil {
				return v
			}
		}
	case ref.STRUCT:
		xs, ok := f.Value.([]uf.UnknownField)
		if !ok && len(want.Fields) == 0 && f.Value == nil {
			ok = true
		}
		if !ok || len(xs) != len(want.Fields) {
			return evid.Failf("%s (struct): %d fields, encoded %d", path, len(xs), len(want.Fields))
		}
		for i := range xs {
			if v := compareUF(&xs[i], want.Fields[i].ID, &want.Fields[i].V, true, fmt.Sprintf("%s.%d", path, want.Fields[i].ID)); v != nil {
				return v
			}
		}
	}
	return nil
}

// appendEverywhere appends one element to every container slice of the tree (the results are dropped: only a
// write into spare capacity shared with another slice can have an effect).
func appendEverywhere(xs []uf.UnknownField) {
	for i := range xs {
		if sub, ok := xs[i].Value.([]uf.UnknownField); ok {
			appendEverywhere(sub)
			_ = append(sub, uf.UnknownField{ID: 31000, Type: ref.I64, Value: int64(-1)})
		}
	}
}

// buildUF builds a tree in the normal form from a reference value.
func buildUF(id int16, v *ref.Value) uf.UnknownField {
	f := uf.UnknownField{ID: id, Type: v.T}
	switch v.T {
	case ref.BOOL:
		f.Value = v.Bits == 1
	case ref.BYTE:
		f.Value = int8(v.Bits)
	case ref.I16:
		f.Value = int16(v.Bits)
	case ref.I32:
		f.Value = int32(v.Bits)
	case ref.I64:
		f.Value = int64(v.Bits)
	case ref.DOUBLE:
		f.Value = math.Float64frombits(v.Bits)
	case ref.STRING:
		f.Value = string(v.Str)
	case ref.MAP:
		f.KeyType, f.ValType = v.KT, v.ET
		xs := make([]uf.UnknownField, len(v.Elems))
		for i := range v.Elems {
			xs[i] = buildUF(int16(i/2), &v.Elems[i])
		}
		f.Value = xs
	case ref.LIST, ref.SET:
		f.ValType = v.ET
		xs := make([]uf.UnknownField, len(v.Elems))
		for i := range v.Elems {
			xs[i] = buildUF(int16(i), &v.Elems[i])
		}
		f.Value = xs
	case ref.STRUCT:
		xs := make([]uf.UnknownField, len(v.Fields))
		for i := range v.Fields {
			xs[i] = buildUF(v.Fields[i].ID, &v.Fields[i].V)
		}
		f.Value = xs
	}
	return f
}

func shapeFlags(v *ref.Value, f *struct{ contThenScalar, contOfStruct bool }) {
	if v.T == ref.STRUCT {
		seenCont := false
		for i := range v.Fields {
			t := v.Fields[i].V.T
			if seenCont && !ref.IsContainer(t) {
				f.contThenScalar = true
			}
			if t == ref.MAP || t == ref.LIST || t == ref.SET {
				seenCont = true
			}
		}
	}
	if (v.T == ref.LIST || v.T == ref.SET) && v.ET == ref.STRUCT && len(v.Elems) > 0 {
		f.contOfStruct = true
	}
	if v.T == ref.MAP && (v.KT == ref.STRUCT || v.ET == ref.STRUCT) && len(v.Elems) > 0 {
		f.contOfStruct = true
	}
	for i := range v.Elems {
		shapeFlags(&v.Elems[i], f)
	}
	for i := range v.Fields {
		shapeFlags(&v.Fields[i].V, f)
	}
}

func checkUnknownFields(c UFCase, cv *cov) (v *evid.Violation) {
	data := []byte(c.Data)
	fields, ok := parseFieldSeq(data)
	if !ok {
		return nil
	}
	for i := range fields {
		if !canonicalBools(&fields[i].V) {
			return nil
		}
	}
	var flags struct{ contThenScalar, contOfStruct bool }
	body := func() {
		// bytes -> tree
		if c.WarmUp > 0 && c.WarmUp <= 5000 {
			// history: an earlier conversion with many top-level fields, whose result is dropped
			if _, err := uf.ConvertUnknownFields(warmUpInput(c.WarmUp)); err != nil {
				v = evid.Failf("warm-up conversion of %d fields failed: %v", c.WarmUp, err)
				return
			}
		}
		input := append([]byte(nil), data...)
		tree, err := uf.ConvertUnknownFields(input)
		for i := range input {
			input[i] = 0xEE // the tree must be a value of its own, independent of the buffer it was read from
		}
		if err != nil {
			v = evid.Failf("ConvertUnknownFields failed on %d well-formed fields: %v; input %s", len(fields), err, hx(data))
			return
		}
		if len(tree) != len(fields) {
			v = evid.Failf("ConvertUnknownFields returned %d fields, the input holds %d; input %s", len(tree), len(fields), hx(data))
			return
		}
		for i := range tree {
			if v = compareUF(&tree[i], fields[i].ID, &fields[i].V, true, fmt.Sprintf("field[%d]", i)); v != nil {
				v.Msg += "; input " + hx(data)
				return
			}
		}
		// history: further conversions must not disturb the tree already handed out
		for _, n := range []int{1, 7, c.WarmUp} {
			if n > 0 && n <= 5000 {
				if _, err := uf.ConvertUnknownFields(warmUpInput(n)); err != nil {
					v = evid.Failf("follow-up conversion of %d fields failed: %v", n, err)
					return
				}
			}
		}
		// ... nor may further conversions of the very same shape (same nesting, same field counts per level)
		for rep := 0; rep < 2; rep++ {
			again, err := uf.ConvertUnknownFields(append([]byte(nil), data...))
			if err != nil || len(again) != len(fields) {
				v = evid.Failf("conversion %d of the same input returned %d fields, err=%v", rep+2, len(again), err)
				return
			}
			for i := range again {
				if v = compareUF(&again[i], fields[i].ID, &fields[i].V, true, fmt.Sprintf("field[%d] of conversion %d of the same input", i, rep+2)); v != nil {
					v.Msg += "; input " + hx(data)
					return
				}
			}
		}
		for i := range tree {
			if v = compareUF(&tree[i], fields[i].ID, &fields[i].V, true, fmt.Sprintf("field[%d] (re-checked after later conversions)", i)); v != nil {
				v.Msg += "; input " + hx(data)
				return
			}
		}
		// the tree belongs to the caller: appending to any of its slices (which writes into spare capacity, if the
		// slice was handed out with any) must not change any other part of the tree
		appendEverywhere(tree)
		_ = append(tree, uf.UnknownField{ID: 32000, Type: ref.BYTE, Value: int8(1)})
		for i := range tree {
			if v = compareUF(&tree[i], fields[i].ID, &fields[i].V, true, fmt.Sprintf("field[%d] (re-checked after one element was appended to every container of the tree)", i)); v != nil {
				v.Msg += "; input " + hx(data)
				return
			}
		}
		// tree -> bytes
		var built []uf.UnknownField
		for pass, tr := range [][]uf.UnknownField{tree, nil} {
			name := "converted tree"
			if pass == 1 {
				name = "normal-form tree built by the harness"
				tr = make([]uf.UnknownField, len(fields))
				for i := range fields {
					tr[i] = buildUF(fields[i].ID, &fields[i].V)
				}
				built = tr
			}
			l, err := uf.UnknownFieldsLength(tr)
			if err != nil || l != len(data) {
				v = evid.Failf("UnknownFieldsLength(%s)=%d err=%v, the encoding has %d bytes; input %s", name, l, err, len(data), hx(data))
				return
			}
			out := make([]byte, l)
			w, err := uf.WriteUnknownFields(out, tr)
			if err != nil || w != l {
				v = evid.Failf("WriteUnknownFields(%s) returned (%d,%v), want %d; input %s", name, w, err, l, hx(data))
				return
			}
			if !bytes.Equal(out, data) {
				v = evid.Failf("WriteUnknownFields(%s) does not reproduce the bytes: first difference at offset %d; input %s got %s", name, firstDiff(out, data), hx(data), hx(out))
				return
			}
			if pass == 1 {
				back, err := uf.ConvertUnknownFields(out)
				if err != nil || len(back) != len(fields) {
					v = evid.Failf("tree -> bytes -> tree: convert failed: %v", err)
					return
				}
				for i := range back {
					if v = compareUF(&back[i], fields[i].ID, &fields[i].V, true, fmt.Sprintf("field[%d] after write-then-convert", i)); v != nil {
						return
					}
				}
			}
		}
		// a tree edited in place (a nested string grows by one byte) and measured / written again
		if built != nil && editNestedString(built, fields) {
			var exp []byte
			for i := range fields {
				exp = append(exp, byte(fields[i].V.T))
				exp = ref.Put16(exp, uint16(fields[i].ID))
				exp = ref.Append(exp, &fields[i].V, nil)
			}
			l, err := uf.UnknownFieldsLength(built)
			if err != nil || l != len(exp) {
				v = evid.Failf("UnknownFieldsLength of a tree that was measured before and then edited in place (a nested string grew by one byte) = %d (err %v), the encoding has %d bytes", l, err, len(exp))
				return
			}
			out := make([]byte, len(exp))
			if w, err := uf.WriteUnknownFields(out, built); err != nil || w != len(exp) || !bytes.Equal(out, exp) {
				v = evid.Failf("WriteUnknownFields of the edited tree: (%d,%v), want %d bytes equal to the reference", w, err, len(exp))
				return
			}
		}
	}
	if p, st := evid.Safe(body); p != nil {
		return &evid.Violation{Msg: fmt.Sprintf("panic: %v; input %s", p, hx(data)), Stack: st}
	}
	if v != nil {
		return v
	}
	for i := range fields {
		shapeFlags(&fields[i].V, &flags)
	}
	cv.nontrivial = flags.contThenScalar || flags.contOfStruct
	cv.labelIf(flags.contThenScalar, "struct:container_then_scalar")
	cv.labelIf(flags.contOfStruct, "container_of_structs")
	cv.labelIf(len(fields) > 1, "several_top_level_fields")
	cv.key = data
	return nil
}

func init() { register("c13_unknown_fields", checkUnknownFields) }

// deepExtent measures a well-formed value without any nesting limit (bounded only by the input length).
func deepExtent(b []byte, t int8, depth int) (int, bool) {
	if depth > 2000 {
		return 0, false
	}
	if n := ref.FixedSize(t); n > 0 {
		return n, len(b) >= n
	}
	switch t {
	case ref.STRING:
		if len(b) < 4 {
			return 0, false
		}
		n := int(be32at(b, 0))
		if n < 0 || n > len(b)-4 {
			return 0, false
		}
		return 4 + n, true
	case ref.STRUCT:
		i := 0
		for {
			if i >= len(b) {
				return 0, false
			}
			ft := int8(b[i])
			i++
			if ft == ref.STOP {
				return i, true
			}
			if len(b) < i+2 {
				return 0, false
			}
			i += 2
			n, ok := deepExtent(b[i:], ft, depth+1)
			if !ok {
				return 0, false
			}
			i += n
		}
	case ref.MAP, ref.LIST, ref.SET:
		hdr := 5
		if t == ref.MAP {
			hdr = 6
		}
		if len(b) < hdr {
			return 0, false
		}
		sz := int(be32at(b, hdr-4))
		if sz < 0 || sz > len(b) {
			return 0, false
		}
		i := hdr
		for j := 0; j < sz; j++ {
			if t == ref.MAP {
				n, ok := deepExtent(b[i:], int8(b[0]), depth+1)
				if !ok {
					return 0, false
				}
				i += n
				n, ok = deepExtent(b[i:], int8(b[1]), depth+1)
				if !ok {
					return 0, false
				}
				i += n
			} else {
				n, ok := deepExtent(b[i:], int8(b[0]), depth+1)
				if !ok {
					return 0, false
				}
				i += n
			}
		}
		return i, true
	}
	return 0, false
}

func genUFCase(t *rapid.T) UFCase {
	n := rapid.IntRange(1, 6).Draw(t, "nfields")
	var b []byte
	for i := 0; i < n; i++ {
		var v ref.Value
		switch rapid.IntRange(0, 5).Draw(t, "shape") {
		case 4: // nesting chains, also deeper than the skippers' limit of 64
			v = genNest(t, rapid.SampledFrom([]int{1, 5, 30, 63, 64, 65, 66, 100, 200}).Draw(t, "depth"))
		case 5: // a chain of structs in which every level has fields before (and sometimes after) the nested struct
			d := rapid.IntRange(2, 24).Draw(t, "richDepth")
			g := &vgen{t: t, nodes: 200, bytes: 2000, canonBool: true}
			var mk func(level int) ref.Value
			mk = func(level int) ref.Value {
				sv := ref.Value{T: ref.STRUCT}
				lead := rapid.IntRange(1, 3).Draw(t, "lead")
				for j := 0; j < lead; j++ {
					sv.Fields = append(sv.Fields, ref.Field{ID: int16(j + 1), V: g.value(rapid.SampledFrom([]int8{ref.I32, ref.STRING, ref.I64, ref.BOOL}).Draw(t, "leadT"), 0)})
				}
				if level < d {
					child := mk(level + 1)
					if rapid.IntRange(0, 3).Draw(t, "viaList") == 0 {
						child = ref.Value{T: ref.LIST, ET: ref.STRUCT, Elems: []ref.Value{child}}
					}
					sv.Fields = append(sv.Fields, ref.Field{ID: 10, V: child})
				}
				if rapid.Bool().Draw(t, "trail") {
					sv.Fields = append(sv.Fields, ref.Field{ID: 20, V: ref.Value{T: ref.I16, Bits: uint64(level)}})
				}
				return sv
			}
			v = mk(1)
		case 0: // a struct with several fields of mixed kinds
			v = ref.Value{T: ref.STRUCT}
			g := &vgen{t: t, nodes: 60, bytes: 3000, canonBool: true}
			nf := rapid.IntRange(2, 5).Draw(t, "nf")
			for j := 0; j < nf; j++ {
				v.Fields = append(v.Fields, ref.Field{ID: g.fieldID(), V: g.value(g.typ(), 2)})
			}
			if rapid.Bool().Draw(t, "wrap") {
				v = ref.Value{T: ref.LIST, ET: ref.STRUCT, Elems: []ref.Value{v, {T: ref.STRUCT}}}
			}
		default:
			v = genValue(t, 0, rapid.IntRange(0, 4).Draw(t, "depth"), true, rapid.IntRange(0, 3).Draw(t, "bigStr") == 0)
		}
		id := (&vgen{t: t}).fieldID()
		b = append(b, byte(v.T))
		b = ref.Put16(b, uint16(id))
		b = ref.Append(b, &v, nil)
	}
	return UFCase{Data: b, WarmUp: rapid.SampledFrom([]int{0, 0, 0, 1, 100, 170, 171, 172, 300, 1000, 4096, 4097}).Draw(t, "warmUp")}
}

func TestC13_Random(t *testing.T) {
	rec := evid.New("C13", "c13_random", "rapid: sequences of 1..6 well-formed fields (every type, containers of 0..300 elements of every element/key/value type, structs nested in containers and vice versa, structs with 2..5 fields of mixed kinds, any field ids, canonical booleans); bytes -> ConvertUnknownFields -> tree compared with the reference decode incl. KeyType/ValType discipline; UnknownFieldsLength and WriteUnknownFields must reproduce the bytes; a normal-form tree built by the harness must write to the reference bytes and convert back unchanged; non-trivial = a struct in which a container field is followed by a non-container field, or a container of structs")
	defer rec.Flush()
	runRapid(t, rec, "c13_unknown_fields", evid.Pick(30000, 400000), genUFCase, checkUnknownFields)
}

func TestC13_Pairs(t *testing.T) {
	rec := evid.New("C13", "c13_pairs", "enumeration: all 121 ordered pairs of field types as two consecutive fields of a struct, at top level, nested in a struct and nested in a list of structs; distinct by construction")
	defer rec.Flush()
	sample := func(ty int8) ref.Value {
		v := ref.Value{T: ty}
		switch ty {
		case ref.STRING:
			v.Str = []byte("str")
		case ref.STRUCT:
			v.Fields = []ref.Field{{ID: 1, V: ref.Value{T: ref.I16, Bits: 3}}}
		case ref.MAP:
			v.KT, v.ET = ref.I32, ref.I64
			v.Elems = []ref.Value{{T: ref.I32, Bits: 1}, {T: ref.I64, Bits: 2}}
		case ref.LIST, ref.SET:
			v.ET = ref.STRING
			v.Elems = []ref.Value{{T: ref.STRING, Str: []byte("e")}}
		default:
			v.Bits = 1
		}
		return v
	}
	b := evid.NewBatch()
	for _, t1 := range ref.Types {
		for _, t2 := range ref.Types {
			st := ref.Value{T: ref.STRUCT, Fields: []ref.Field{{ID: 1, V: sample(t1)}, {ID: 2, V: sample(t2)}}}
			shapes := []ref.Value{
				st,
				{T: ref.STRUCT, Fields: []ref.Field{{ID: 7, V: st}, {ID: 8, V: sample(t2)}}},
				{T: ref.LIST, ET: ref.STRUCT, Elems: []ref.Value{st, st}},
			}
			for si, sv := range shapes {
				data := append([]byte{byte(sv.T)}, 0, byte(si+1))
				data = ref.Append(data, &sv, nil)
				// plus the pair directly at top level
				if si == 0 {
					data = append(data, byte(t1), 0, 10)
					f1 := sample(t1)
					data = ref.Append(data, &f1, nil)
					data = append(data, byte(t2), 0, 11)
					f2 := sample(t2)
					data = ref.Append(data, &f2, nil)
				}
				c := UFCase{Data: data}
				var cv cov
				if v := checkUnknownFields(c, &cv); v != nil {
					failEnum(t, rec, "c13_unknown_fields", c, v)
					rec.Merge(b)
					return
				}
				b.Evals++
				b.Distinct++
				b.Nontrivial++
				for _, l := range cv.labels {
					b.Labels[l]++
				}
				if t1 == ref.MAP && t2 == ref.I32 && si == 1 {
					rec.Sample(c)
				}
			}
		}
	}
	rec.Merge(b)
	rec.SetExhaustive()
}

var _ = thrift.STOP
var _ = rapid.Bool

// TestC13_ManyStrings: millions of distinct short strings converted one after the other.
func TestC13_ManyStrings(t *testing.T) {
	rec := evid.New("C13", "c13_many_strings", "lists of 4096 distinct 8-byte (and 5-byte) strings (counter-valued), converted one list after the other; every element compared with the input; distinct by construction")
	defer rec.Flush()
	total := evid.Pick(30_000_000, 100_000_000)
	shard, _ := evid.Shard()
	const per = 4096
	b := evid.NewBatch()
	counter := shard * 1_000_003
	for done := 0; done < total; done += per {
		sl := 8
		if (done/per)%3 == 2 {
			sl = 5
		}
		data := []byte{ref.LIST, 0, 1, ref.STRING}
		data = ref.Put32(data, per)
		base := counter
		for i := 0; i < per; i++ {
			data = ref.Put32(data, uint32(sl))
			x := mix13(counter, sl)
			counter++
			for j := 0; j < sl; j++ {
				data = append(data, byte(x))
				x >>= 8
			}
		}
		tree, err := uf.ConvertUnknownFields(data)
		if err != nil || len(tree) != 1 {
			failEnum(t, rec, "c13_unknown_fields", UFCase{Data: data[:64]}, evid.Failf("ConvertUnknownFields of a list of %d short strings failed: %v", per, err))
			break
		}
		xs, _ := tree[0].Value.([]uf.UnknownField)
		bad := -1
		if len(xs) != per {
			bad = 0
		}
		for i := 0; i < len(xs) && bad < 0; i++ {
			s, _ := xs[i].Value.(string)
			x := mix13(base+i, sl)
			if len(s) != sl {
				bad = i
				break
			}
			for j := 0; j < sl; j++ {
				if s[j] != byte(x) {
					bad = i
					break
				}
				x >>= 8
			}
		}
		if bad >= 0 {
			got, _ := xs[bad].Value.(string)
			want := make([]byte, sl)
			x := mix13(base+bad, sl)
			for j := range want {
				want[j] = byte(x)
				x >>= 8
			}
			failEnum(t, rec, "c13_string_sequence", StrSeqCase{Strs: []evid.Hex{[]byte(got), want}}, evid.Failf("ConvertUnknownFields: element %d of a list of %d distinct %d-byte strings (string #%d of the run) came back as %x, the input holds %x", bad, per, sl, base+bad, got, want))
			break
		}
		b.Evals += per
	}
	b.Distinct, b.Nontrivial = b.Evals, b.Evals
	rec.Merge(b)
	rec.Sample(map[string]interface{}{"strings": total, "per_list": per, "length": 8})
}

// mix13 maps a counter bijectively to sl bytes worth of bits that look unrelated for consecutive counters.
func mix13(counter, sl int) uint64 {
	if sl >= 8 {
		return uint64(counter) * 0x9E3779B97F4A7C15
	}
	// 5 bytes: a bijection on 40 bits (odd multiplier modulo 2^40)
	return (uint64(counter) * 0x9E3779B97F) & (1<<40 - 1)
}

// StrSeqCase: short strings converted one after the other (replay form of TestC13_ManyStrings).
type StrSeqCase struct {
	Strs []evid.Hex `json:"strs"`
}

func checkStrSeq(c StrSeqCase, cv *cov) *evid.Violation {
	for round := 0; round < 2; round++ {
		for i, sv := range c.Strs {
			data := []byte{ref.STRING, 0, 1}
			data = ref.Put32(data, uint32(len(sv)))
			data = append(data, sv...)
			tree, err := uf.ConvertUnknownFields(data)
			if err != nil || len(tree) != 1 {
				return evid.Failf("string %d of the sequence: convert failed: %v", i, err)
			}
			if got, _ := tree[0].Value.(string); got != string(sv) {
				return evid.Failf("string %d of the sequence: the field carries %x, ConvertUnknownFields returned %x", i, []byte(sv), got)
			}
		}
	}
	cv.nontrivial = len(c.Strs) >= 2
	return nil
}

func init() { register("c13_string_sequence", checkStrSeq) }

// TestC13_Wide: containers whose element count crosses 2^14, 2^15 and 2^16 (index arithmetic in 16 bits).
func TestC13_Wide(t *testing.T) {
	rec := evid.New("C13", "c13_wide", "enumeration: one field holding a list, set or map with n in {16383..16386, 32767..32769, 65535..65537 (lists and sets), 40000} small elements (bool, i16, i32 keys; bool, byte, short string values), alone and as the second field behind a scalar; full C13 oracle (bytes -> tree -> bytes, tree -> bytes -> tree); distinct by construction")
	defer rec.Flush()
	b := evid.NewBatch()
	counts := []int{16383, 16384, 16385, 16386, 32767, 32768, 32769, 40000, 65535, 65536, 65537}
	mk := func(t int8, i int) ref.Value {
		switch t {
		case ref.STRING:
			return ref.Value{T: t, Str: []byte{byte('a' + i%26)}}
		case ref.BOOL:
			return ref.Value{T: t, Bits: uint64(i & 1)}
		}
		return ref.Value{T: t, Bits: uint64(i) & (1<<uint(8*ref.FixedSize(t)) - 1)}
	}
	for _, n := range counts {
		for _, kind := range []int8{ref.LIST, ref.SET, ref.MAP} {
			if kind == ref.MAP && n > 40000 {
				continue
			}
			for variant := 0; variant < 2; variant++ {
				v := ref.Value{T: kind}
				if kind == ref.MAP {
					v.KT = []int8{ref.I16, ref.I32}[variant]
					v.ET = []int8{ref.BOOL, ref.STRING}[variant]
					for i := 0; i < n; i++ {
						v.Elems = append(v.Elems, mk(v.KT, i), mk(v.ET, i+1))
					}
				} else {
					v.ET = []int8{ref.BYTE, ref.I16}[variant]
					for i := 0; i < n; i++ {
						v.Elems = append(v.Elems, mk(v.ET, i))
					}
				}
				var data []byte
				if variant == 1 {
					data = append(data, byte(ref.I32), 0, 1, 0, 0, 0, 7)
				}
				data = append(data, byte(kind), 0, 9)
				data = ref.Append(data, &v, nil)
				c := UFCase{Data: data}
				var cv cov
				viol := checkUnknownFields(c, &cv)
				b.Evals++
				b.Distinct++
				b.Nontrivial++
				if viol != nil {
					if len(viol.Msg) > 1500 {
						viol.Msg = viol.Msg[:1500]
					}
					failEnum(t, rec, "c13_wide", WideUFCase{Kind: kind, N: n, Variant: variant}, viol)
					rec.Merge(b)
					return
				}
			}
		}
	}
	rec.Merge(b)
	rec.Sample(WideUFCase{Kind: ref.MAP, N: 16385, Variant: 0})
	rec.SetExhaustive()
}

// WideUFCase is the compact replayable form of a c13_wide case.
type WideUFCase struct {
	Kind    int8 `json:"kind"`
	N       int  `json:"n"`
	Variant int  `json:"variant"`
}

func init() {
	register("c13_wide", func(c WideUFCase, cv *cov) *evid.Violation {
		if c.N < 0 || c.N > 70000 || (c.Kind != ref.LIST && c.Kind != ref.SET && c.Kind != ref.MAP) {
			return nil
		}
		v := ref.Value{T: c.Kind, ET: ref.BYTE}
		if c.Kind == ref.MAP {
			v.KT, v.ET = ref.I16, ref.BOOL
			for i := 0; i < c.N; i++ {
				v.Elems = append(v.Elems, ref.Value{T: ref.I16, Bits: uint64(i) & 0xffff}, ref.Value{T: ref.BOOL, Bits: uint64(i & 1)})
			}
		} else {
			for i := 0; i < c.N; i++ {
				v.Elems = append(v.Elems, ref.Value{T: ref.BYTE, Bits: uint64(i) & 0xff})
			}
		}
		data := ref.Append([]byte{byte(c.Kind), 0, 9}, &v, nil)
		return checkUnknownFields(UFCase{Data: data}, cv)
	})
}

// ---- GetUnknownFields: the same conversion, reached through a struct that carries the bytes ----------------

type ufFirst struct {
	_unknownFields []byte
	Extra          []byte
	N              int
}

type ufLast struct {
	N              int
	Extra          []byte
	Name           string
	_unknownFields []byte
}

type ufInner struct {
	Pad            [3]int64
	_unknownFields []byte
}

// ufOuter embeds the holder behind other fields: the promoted field lies at a non-zero offset of the
// outer struct and at another offset inside the embedded one.
type ufOuter struct {
	Extra []byte
	Tag   string
	ufInner
}

type ufOuterFirst struct {
	ufInner
	Extra []byte
}

// two distinct types with the same package path and name, the field at different positions
func ufSameNameA(extra, unk []byte) interface{} {
	type Req struct {
		_unknownFields []byte
		Extra          []byte
	}
	return &Req{_unknownFields: unk, Extra: extra}
}

func ufSameNameB(extra, unk []byte) interface{} {
	type Req struct {
		Extra          []byte
		_unknownFields []byte
	}
	return &Req{Extra: extra, _unknownFields: unk}
}

// GetUFCase: the bytes and the order in which the holder shapes are used.
type GetUFCase struct {
	Data  evid.Hex `json:"data"`
	Order []int    `json:"order"`
}

func checkGetUnknownFields(c GetUFCase, cv *cov) (v *evid.Violation) {
	data := []byte(c.Data)
	fields, ok := parseFieldSeq(data)
	if !ok || len(c.Order) == 0 || len(c.Order) > 40 {
		return nil
	}
	for i := range fields {
		if !canonicalBools(&fields[i].V) {
			return nil // a non-canonical boolean byte is not reproduced when writing back (C13's statement)
		}
	}
	// a decoy: other well-formed unknown-field bytes that sit in the neighbouring []byte field
	decoy := []byte{byte(ref.I64), 0x7f, 0x01, 1, 2, 3, 4, 5, 6, 7, 8}
	shapes := []struct {
		name string
		mk   func() interface{}
	}{
		{"struct value, field first", func() interface{} { return ufFirst{_unknownFields: data, Extra: decoy} }},
		{"pointer, field first", func() interface{} { return &ufFirst{_unknownFields: data, Extra: decoy} }},
		{"struct value, field last", func() interface{} { return ufLast{_unknownFields: data, Extra: decoy, Name: "n"} }},
		{"pointer, field last", func() interface{} { return &ufLast{_unknownFields: data, Extra: decoy, Name: "n"} }},
		{"pointer, holder embedded behind other fields", func() interface{} { return &ufOuter{Extra: decoy, Tag: "t", ufInner: ufInner{_unknownFields: data}} }},
		{"struct value, holder embedded behind other fields", func() interface{} { return ufOuter{Extra: decoy, Tag: "t", ufInner: ufInner{_unknownFields: data}} }},
		{"pointer, holder embedded first", func() interface{} { return &ufOuterFirst{Extra: decoy, ufInner: ufInner{_unknownFields: data}} }},
		{"pointer to a function-local type named Req (field first)", func() interface{} { return ufSameNameA(decoy, data) }},
		{"pointer to another function-local type named Req (field second)", func() interface{} { return ufSameNameB(decoy, data) }},
	}
	want, werr := uf.ConvertUnknownFields(append([]byte(nil), data...))
	if werr != nil {
		return nil // C13's main check reports that
	}
	wl, _ := uf.UnknownFieldsLength(want)
	body := func() {
		for step, si := range c.Order {
			sh := shapes[((si%len(shapes))+len(shapes))%len(shapes)]
			got, err := uf.GetUnknownFields(sh.mk())
			if err != nil {
				v = evid.Failf("step %d: GetUnknownFields(%s) failed on bytes that ConvertUnknownFields accepts: %v", step, sh.name, err)
				return
			}
			l, err := uf.UnknownFieldsLength(got)
			if err != nil || l != wl || len(got) != len(want) {
				v = evid.Failf("step %d: GetUnknownFields(%s) returned %d fields of %d bytes (err=%v), ConvertUnknownFields of the same bytes gives %d fields of %d bytes", step, sh.name, len(got), l, err, len(want), wl)
				return
			}
			out := make([]byte, l)
			if _, err := uf.WriteUnknownFields(out, got); err != nil || !bytes.Equal(out, data) {
				v = evid.Failf("step %d: the tree from GetUnknownFields(%s) does not write back to the bytes stored in the struct (first difference at %d)", step, sh.name, firstDiff(out, data))
				return
			}
			// the tree is a value of its own: the struct's bytes are overwritten, the tree must still write the original
			saved := append([]byte(nil), data...)
			for i := range data {
				data[i] = 0xEE
			}
			out2 := make([]byte, l)
			_, err = uf.WriteUnknownFields(out2, got)
			copy(data, saved)
			if err != nil || !bytes.Equal(out2, saved) {
				v = evid.Failf("step %d: the tree from GetUnknownFields(%s) changed when the bytes stored in the struct were overwritten afterwards (first difference at %d)", step, sh.name, firstDiff(out2, saved))
				return
			}
		}
	}
	if p, st := evid.Safe(body); p != nil {
		return &evid.Violation{Msg: fmt.Sprintf("GetUnknownFields panicked: %v", p), Stack: st}
	}
	cv.nontrivial = len(c.Order) >= 2
	cv.key = append(append([]byte(nil), data...), byte(len(c.Order)))
	return v
}

func init() { register("c13_get_unknown_fields", checkGetUnknownFields) }

func TestC13_GetUnknownFields(t *testing.T) {
	rec := evid.New("C13", "c13_get_unknown_fields", "rapid: well-formed field sequences (canonical booleans, so that writing back reproduces the bytes) stored in the _unknownFields field of 9 holder shapes (value/pointer, field first/last, holder embedded first / behind other fields, two distinct function-local types with the same name and the field at different positions; a neighbouring []byte field holds other well-formed bytes), used in a generated order of 1..12 steps; GetUnknownFields must give a tree that writes back to exactly the stored bytes and has the length ConvertUnknownFields gives; non-trivial = >= 2 steps")
	defer rec.Flush()
	runRapid(t, rec, "c13_get_unknown_fields", evid.Pick(4000, 40000), func(t *rapid.T) GetUFCase {
		u := genUFCase(t)
		if len(u.Data) > 30000 {
			u.Data = []byte{byte(ref.I32), 0, 1, 0, 0, 0, 1}
		}
		return GetUFCase{Data: u.Data, Order: rapid.SliceOfN(rapid.IntRange(0, 8), 1, 12).Draw(t, "order")}
	}, checkGetUnknownFields)
}

// ---- a wide container above a deep chain ---------------------------------------------------------------

// WideDeepCase: one field holding a list of N lists; element At is a chain of Depth nested one-element lists
// (the others are empty lists). Well formed, whatever N and Depth are.
type WideDeepCase struct {
	N     int `json:"n"`
	Depth int `json:"depth"`
	At    int `json:"at"`
}

func checkWideDeep(c WideDeepCase, cv *cov) *evid.Violation {
	if c.N < 1 || c.N > 5000 || c.Depth < 0 || c.Depth > 300 || c.At < 0 || c.At >= c.N {
		return nil
	}
	chain := ref.Value{T: ref.LIST, ET: ref.BYTE}
	for i := 0; i < c.Depth; i++ {
		chain = ref.Value{T: ref.LIST, ET: ref.LIST, Elems: []ref.Value{chain}}
	}
	outer := ref.Value{T: ref.LIST, ET: ref.LIST}
	for i := 0; i < c.N; i++ {
		if i == c.At {
			outer.Elems = append(outer.Elems, chain)
		} else {
			outer.Elems = append(outer.Elems, ref.Value{T: ref.LIST, ET: ref.BYTE})
		}
	}
	data := ref.Append([]byte{byte(ref.LIST), 0, 3}, &outer, nil)
	data = append(data, byte(ref.I16), 0, 4, 0, 7) // a scalar field behind it
	v := checkUnknownFields(UFCase{Data: data}, cv)
	cv.nontrivial = true
	return v
}

func init() { register("c13_wide_deep", checkWideDeep) }

func TestC13_WideDeep(t *testing.T) {
	rec := evid.New("C13", "c13_wide_deep", "enumeration: a list of n in {1, 1023, 1024, 1025, 2000, 4097} lists of which one (the first, a middle or the last) is a chain of depth in {0, 1, 31, 62, 63, 64, 65, 100, 200} nested one-element lists, followed by a scalar field; full C13 oracle; distinct by construction")
	defer rec.Flush()
	b := evid.NewBatch()
	for _, n := range []int{1, 1023, 1024, 1025, 2000, 4097} {
		for _, d := range []int{0, 1, 31, 62, 63, 64, 65, 100, 200} {
			for _, at := range []int{0, n / 2, n - 1} {
				c := WideDeepCase{N: n, Depth: d, At: at}
				var cv cov
				viol := checkWideDeep(c, &cv)
				b.Evals++
				b.Distinct++
				b.Nontrivial++
				if viol != nil {
					if len(viol.Msg) > 1500 {
						viol.Msg = viol.Msg[:1500]
					}
					failEnum(t, rec, "c13_wide_deep", c, viol)
					rec.Merge(b)
					return
				}
			}
		}
	}
	rec.Merge(b)
	rec.Sample(WideDeepCase{N: 1025, Depth: 63, At: 512})
	rec.SetExhaustive()
}

// ---- GetUnknownFields: a call that is rejected must not spoil later calls for the same type -----------------

// These holder types are used by TestC13_RejectedFirst only, so that its first call is the first time the
// library meets them in this process.
type ufFreshA struct {
	_unknownFields []byte
	N              int
}

type ufFreshB struct {
	Name           string
	_unknownFields []byte
}

type ufFreshC struct {
	X              [2]int32
	_unknownFields []byte
}

// a byte-slice type with a name, as older generated code declares the field
type ufRawFields []byte

type ufFreshNamed struct {
	_unknownFields ufRawFields
	N              int
}

// two function-local types with the same printed name: the first has no _unknownFields field, the second has
func ufFreshLacking() interface{} {
	type Resp struct {
		Other []byte
	}
	return &Resp{Other: []byte{1}}
}

func ufFreshHaving(unk []byte) interface{} {
	type Resp struct {
		Other          []byte
		_unknownFields []byte
	}
	return &Resp{_unknownFields: unk}
}

func TestC13_RejectedFirst(t *testing.T) {
	rec := evid.New("C13", "c13_rejected_first", "enumeration: for five holder types the library has not met before in the process: the first calls pass a nil pointer of the type - or, for one of them, a holder type of the same printed name that lacks the field - (rejected with an error or answered with no fields, the same way twice), the following calls pass valid holders (one type declares the field with a named byte-slice type) (pointer and value) of the same type carrying a well-formed field sequence: each must give the tree ConvertUnknownFields gives, which writes back to the stored bytes; then again a nil pointer and again a valid holder; every type is one evaluation")
	defer rec.Flush()
	data := []byte{byte(ref.I32), 0, 1, 0, 0, 0, 7, byte(ref.STRING), 0, 2, 0, 0, 0, 2, 'h', 'i', byte(ref.LIST), 0, 3, byte(ref.BYTE), 0, 0, 0, 1, 9}
	want, err := uf.ConvertUnknownFields(append([]byte(nil), data...))
	if err != nil {
		t.Fatalf("harness: %v", err)
	}
	type holder struct {
		name   string
		nilPtr interface{}
		valid  []func() interface{}
	}
	hs := []holder{
		{"ufFreshA", (*ufFreshA)(nil), []func() interface{}{func() interface{} { return &ufFreshA{_unknownFields: data} }, func() interface{} { return ufFreshA{_unknownFields: data} }}},
		{"ufFreshB", (*ufFreshB)(nil), []func() interface{}{func() interface{} { return ufFreshB{_unknownFields: data} }, func() interface{} { return &ufFreshB{_unknownFields: data} }}},
		{"ufFreshC", (*ufFreshC)(nil), []func() interface{}{func() interface{} { return &ufFreshC{_unknownFields: data} }}},
		// the field has a named byte-slice type
		{"ufFreshNamed", (*ufFreshNamed)(nil), []func() interface{}{func() interface{} { return &ufFreshNamed{_unknownFields: data} }, func() interface{} { return ufFreshNamed{_unknownFields: ufRawFields(data)} }}},
		// the rejected calls pass a holder type WITHOUT the field (twice: the second must be rejected like the
		// first); the valid holder is another type with the same printed name
		{"Resp (function-local; first a type of that name without the field)", ufFreshLacking(), []func() interface{}{func() interface{} { return ufFreshHaving(data) }}},
	}
	b := evid.NewBatch()
	for _, h := range hs {
		var viol *evid.Violation
		p, st := evid.Safe(func() {
			for round := 0; round < 2 && viol == nil; round++ {
				got, err := uf.GetUnknownFields(h.nilPtr)
				if err == nil && len(got) != 0 {
					viol = evid.Failf("GetUnknownFields of the holder that must be rejected (%s) returned %d fields and no error", h.name, len(got))
					return
				}
				if got2, err2 := uf.GetUnknownFields(h.nilPtr); (err2 == nil) != (err == nil) || len(got2) != len(got) {
					viol = evid.Failf("GetUnknownFields of the same rejected holder (%s) answered (%d fields, %v) the first time and (%d fields, %v) the second time", h.name, len(got), err, len(got2), err2)
					return
				}
				for k, mk := range h.valid {
					got, err := uf.GetUnknownFields(mk())
					if err != nil {
						viol = evid.Failf("round %d: after GetUnknownFields((*%s)(nil)) had been rejected, GetUnknownFields of a valid %s (variant %d) holding %d well-formed bytes failed: %v", round, h.name, h.name, k, len(data), err)
						return
					}
					out := make([]byte, len(data))
					l, _ := uf.UnknownFieldsLength(got)
					if len(got) != len(want) || l != len(data) {
						viol = evid.Failf("round %d: GetUnknownFields of a valid %s (variant %d) gives %d fields of %d bytes, want %d fields of %d bytes", round, h.name, k, len(got), l, len(want), len(data))
						return
					}
					if n, werr := uf.WriteUnknownFields(out, got); werr != nil || n != len(data) || !bytes.Equal(out, data) {
						viol = evid.Failf("round %d: the tree from GetUnknownFields of a valid %s does not write back to the stored bytes (n=%d err=%v)", round, h.name, n, werr)
						return
					}
				}
			}
		})
		if p != nil {
			viol = &evid.Violation{Msg: fmt.Sprintf("GetUnknownFields panicked for %s: %v", h.name, p), Stack: st}
		}
		b.Evals++
		b.Distinct++
		b.Nontrivial++
		if viol != nil {
			failEnum(t, rec, "c13_rejected_first", struct {
				Holder string `json:"holder"`
			}{h.name}, viol)
			break
		}
	}
	rec.Merge(b)
	rec.SetExhaustive()
}

func init() {
	register("c13_rejected_first", func(c struct {
		Holder string `json:"holder"`
	}, cv *cov) *evid.Violation {
		// the first-use condition cannot be re-created inside a process that has run other cases: the replay
		// runs the test itself in a fresh process
		cmd := exec.Command(os.Args[0], "-test.run", "^TestC13_RejectedFirst$")
		cmd.Env = append(os.Environ(), "VERIF_OUT=", "VERIF_REPLAY=", "VERIF_REPLAY_DIR=")
		out, _ := cmd.CombinedOutput()
		if i := bytes.Index(out, []byte("VIOLATION-CASE")); i >= 0 {
			msg := string(out[i:])
			if len(msg) > 700 {
				msg = msg[:700]
			}
			return evid.Failf("in a fresh process: %s", msg)
		}
		cv.nontrivial = true
		return nil
	})
}

// ---- long strings anywhere in the tree -------------------------------------------------------------------

// LongStrCase: a string of L bytes as a top-level field (Where 0), as a list element (1), as a map value (2) or
// as a field of a struct inside a list (3), followed by a scalar field.
type LongStrCase struct {
	L     int `json:"l"`
	Where int `json:"where"`
}

func checkLongStr(c LongStrCase, cv *cov) *evid.Violation {
	if c.L < 0 || c.L > 1<<21 || c.Where < 0 || c.Where > 3 {
		return nil
	}
	str := ref.Value{T: ref.STRING, Str: patternBytes(byte(c.L+c.Where), c.L)}
	var v ref.Value
	switch c.Where {
	case 0:
		v = str
	case 1:
		v = ref.Value{T: ref.LIST, ET: ref.STRING, Elems: []ref.Value{{T: ref.STRING, Str: []byte("a")}, str}}
	case 2:
		v = ref.Value{T: ref.MAP, KT: ref.I32, ET: ref.STRING, Elems: []ref.Value{{T: ref.I32, Bits: 7}, str}}
	default:
		v = ref.Value{T: ref.LIST, ET: ref.STRUCT, Elems: []ref.Value{{T: ref.STRUCT, Fields: []ref.Field{{ID: 2, V: str}}}}}
	}
	data := ref.Append([]byte{byte(v.T), 0, 5}, &v, nil)
	data = append(data, byte(ref.I16), 0, 6, 0, 9)
	viol := checkUnknownFields(UFCase{Data: data}, cv)
	cv.nontrivial = true
	return viol
}

func init() { register("c13_long_string", checkLongStr) }

func TestC13_LongStrings(t *testing.T) {
	rec := evid.New("C13", "c13_long_string", "enumeration: one string of L in {127, 128, 4095, 4096, 4097, 65535, 65536, 65537, 131071, 131072, 131073, 300000, 1048577} bytes as a top-level field, a list element, a map value or a field of a struct inside a list, followed by a scalar field; full C13 oracle, in which the input buffer is overwritten after the conversion and the tree must still write back to the original bytes; distinct by construction")
	defer rec.Flush()
	b := evid.NewBatch()
	for _, l := range []int{127, 128, 4095, 4096, 4097, 65535, 65536, 65537, 131071, 131072, 131073, 300000, 1<<20 + 1} {
		for w := 0; w < 4; w++ {
			c := LongStrCase{L: l, Where: w}
			var cv cov
			viol := checkLongStr(c, &cv)
			b.Evals++
			b.Distinct++
			b.Nontrivial++
			if viol != nil {
				if len(viol.Msg) > 1200 {
					viol.Msg = viol.Msg[:1200]
				}
				failEnum(t, rec, "c13_long_string", c, viol)
				rec.Merge(b)
				return
			}
		}
	}
	rec.Merge(b)
	rec.SetExhaustive()
}
