package props

import (
	"bytes"
	"fmt"
	"testing"

	"github.com/cloudwego/gopkg/bufiox"
	"github.com/cloudwego/gopkg/verifharness/evid"
)

// C04, a source that goes silent: after the reader has given up on a source that returns (0, nil) over and
// over (bufiox does so after 100 consecutive empty reads, like bufio), the failed call must not have consumed
// anything, and the bytes the source DID deliver - also those it delivered during the failing call, before it
// went silent - are still the next bytes of the stream: a request that they can satisfy succeeds and returns
// them. Nothing is asserted about which error the reader reports for the silence itself (it is not the
// source's error), nor about requests that need bytes the source has not delivered.

type silentSrc struct {
	data   []byte
	pos    int
	chunks []int // sizes of the reads that deliver data before the silence starts
	k      int
	Calls  int
	silent int // empty reads returned so far
}

func (s *silentSrc) Read(p []byte) (int, error) {
	s.Calls++
	if s.k < len(s.chunks) && len(p) > 0 {
		n := s.chunks[s.k]
		s.k++
		if n > len(p) {
			n = len(p)
		}
		if n > len(s.data)-s.pos {
			n = len(s.data) - s.pos
		}
		copy(p, s.data[s.pos:s.pos+n])
		s.pos += n
		return n, nil
	}
	s.silent++
	return 0, nil
}

// GiveUpCase: Pre bytes are consumed first (delivered by the first read); the failing request of Want bytes
// sees During (each > 0) arrive in separate reads and then silence.
type GiveUpCase struct {
	Pre    int    `json:"pre"`
	During []int  `json:"during"`
	Want   int    `json:"want"`
	Kind   string `json:"kind"` // next | peek | skip | readbin
}

func checkGiveUp(c GiveUpCase, cv *cov) (v *evid.Violation) {
	got := 0
	for _, d := range c.During {
		if d <= 0 {
			return nil
		}
		got += d
	}
	if c.Pre < 0 || c.Want <= got || c.Want > 1<<20 {
		return nil
	}
	total := c.Pre + c.Want + 16
	src := makeStream(total)
	chunks := append([]int{}, c.During...)
	if c.Pre > 0 {
		chunks = append([]int{c.Pre}, chunks...)
	}
	s := &silentSrc{data: src, chunks: chunks}
	body := func() {
		r := bufiox.NewDefaultReader(s)
		pos := 0
		if c.Pre > 0 {
			b, err := r.Next(c.Pre)
			if err != nil || !bytes.Equal(b, src[:c.Pre]) {
				v = evid.Failf("Next(%d) of the first %d bytes: err=%v", c.Pre, c.Pre, err)
				return
			}
			pos = c.Pre
		}
		delivered := s.pos // may exceed pos: the first read can have filled more than Pre
		_ = delivered
		var err error
		consumed := 0
		switch c.Kind {
		case "next":
			_, err = r.Next(c.Want)
		case "peek":
			_, err = r.Peek(c.Want)
		case "skip":
			err = r.Skip(c.Want)
		default:
			buf := make([]byte, c.Want)
			consumed, err = r.ReadBinary(buf)
			if consumed > 0 && !bytes.Equal(buf[:consumed], src[pos:pos+consumed]) {
				v = evid.Failf("ReadBinary(%d) reported %d bytes which are not the next bytes of the stream", c.Want, consumed)
				return
			}
		}
		if err == nil {
			v = evid.Failf("%s(%d) returned nil although the source delivered only %d of the bytes and then nothing but (0,nil) (%d empty reads so far)", c.Kind, c.Want, s.pos-pos, s.silent)
			return
		}
		if s.silent < 100 {
			// the reader stopped asking earlier than after 100 empty reads: allowed, nothing else changes
			cv.label("gave_up_before_100_empty_reads")
		}
		if consumed > s.pos-pos {
			v = evid.Failf("ReadBinary(%d) reported %d bytes, the source has delivered %d", c.Want, consumed, s.pos-pos)
			return
		}
		pos += consumed
		if rl := r.ReadLen(); rl != pos {
			v = evid.Failf("after the failed %s(%d) (error %v) ReadLen=%d, but %d bytes have been consumed: a failed call consumes nothing", c.Kind, c.Want, err, rl, pos)
			return
		}
		// the bytes the source delivered before it went silent are still there
		avail := s.pos - pos
		if avail >= 2 && c.Want%2 == 1 {
			// all but the last delivered byte, then a Release with that one byte still unread: it is the next byte
			b, err2 := r.Next(avail - 1)
			if err2 != nil || !bytes.Equal(b, src[pos:pos+avail-1]) {
				v = evid.Failf("after %s(%d) failed with %v: Next(%d) = (%d bytes, %v), want the delivered bytes", c.Kind, c.Want, err, avail-1, len(b), err2)
				return
			}
			pos += avail - 1
			if rerr := r.Release(releaseArg(c.Pre)); rerr != nil {
				v = evid.Failf("Release with one delivered byte unread: %v", rerr)
				return
			}
			b, err2 = r.Next(1)
			if err2 != nil || len(b) != 1 || b[0] != src[pos] {
				v = evid.Failf("after the reader had given up on its silent source, all but one of the delivered bytes were consumed and the reader released: Next(1) = (%x, %v), want the one unread byte %02x (stream position %d)", b, err2, src[pos], pos)
				return
			}
			pos++
			if rl := r.ReadLen(); rl != 1 {
				v = evid.Failf("ReadLen=%d after Release and Next(1)", rl)
				return
			}
			avail = 0
		}
		if avail > 0 {
			b, err2 := r.Next(avail)
			if err2 != nil || !bytes.Equal(b, src[pos:pos+avail]) {
				v = evid.Failf("after %s(%d) failed with %v (the source had delivered %d further bytes, %d of them during that call, and then only empty reads): Next(%d) = (%d bytes, %v), want the %d delivered bytes of the stream", c.Kind, c.Want, err, avail, got, avail, len(b), err2, avail)
				return
			}
			pos += avail
			if rl := r.ReadLen(); rl != pos && avail > 0 {
				v = evid.Failf("ReadLen=%d after consuming %d bytes", rl, pos)
				return
			}
		}
		// everything delivered is consumed now. A Release must not bring any of it back: the source stays silent,
		// so nothing can be read any more
		if rerr := r.Release(releaseArg(c.Want)); rerr != nil {
			v = evid.Failf("Release after the silence: %v", rerr)
			return
		}
		if rl := r.ReadLen(); rl != 0 {
			v = evid.Failf("ReadLen=%d right after Release", rl)
			return
		}
		if b, e := r.Peek(1); e == nil {
			v = evid.Failf("after every delivered byte had been consumed and the reader released, Peek(1) returned %x although the source has delivered nothing further (stream position %d)", b, pos)
			return
		}
		if b, e := r.Next(1); e == nil {
			v = evid.Failf("after every delivered byte had been consumed and the reader released, Next(1) returned %x although the source has delivered nothing further", b)
			return
		}
	}
	if p, st := evid.Safe(body); p != nil {
		return &evid.Violation{Msg: fmt.Sprintf("panic: %v", p), Stack: st}
	}
	cv.nontrivial = true
	cv.labelIf(len(c.During) > 0, "progress_inside_the_failing_call")
	return v
}

func init() { register("c04_give_up", checkGiveUp) }

func TestC04_GiveUp(t *testing.T) {
	rec := evid.New("C04", "c04_give_up", "enumeration: a source that delivers pre in {0, 5, 4096} bytes, then - during one request of want bytes - 0..3 further chunks from {1, 7, 100, 4096, 5000} and then nothing but (0,nil); request kind {Next, Peek, Skip, ReadBinary}; want = delivered + {1, 300, 9000}: the request fails without consuming (ReadBinary: reports at most what was delivered), ReadLen is unchanged, and Next of exactly the delivered bytes then succeeds with the right content; every combination is one evaluation, distinct by construction")
	defer rec.Flush()
	rec.Assume("which error reports the silence is not asserted (it is the reader's verdict on a source that makes no progress, not an error of the source); requests beyond the delivered bytes are not made afterwards")
	bt := evid.NewBatch()
	durs := [][]int{{}, {1}, {7}, {100}, {4096}, {1, 7}, {5000, 1}, {7, 100, 1}, {4096, 4096}}
	for _, pre := range []int{0, 5, 4096} {
		for _, d := range durs {
			sum := 0
			for _, x := range d {
				sum += x
			}
			for _, extra := range []int{1, 300, 9000} {
				for _, kind := range []string{"next", "peek", "skip", "readbin"} {
					c := GiveUpCase{Pre: pre, During: d, Want: sum + extra, Kind: kind}
					var cv cov
					v := checkGiveUp(c, &cv)
					bt.Evals++
					bt.Distinct++
					if cv.nontrivial {
						bt.Nontrivial++
					}
					if v != nil {
						failEnum(t, rec, "c04_give_up", c, v)
						rec.Merge(bt)
						return
					}
				}
			}
		}
	}
	rec.Merge(bt)
	rec.Sample(GiveUpCase{Pre: 5, During: []int{7, 100, 1}, Want: 408, Kind: "next"})
}
