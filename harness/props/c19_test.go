package props

import (
	"bytes"
	"context"
	"errors"
	"fmt"
	"io"
	"math"
	"os"
	"os/exec"
	"runtime"
	"strings"
	"sync"
	"sync/atomic"
	"testing"
	"time"

	"github.com/cloudwego/gopkg/bufiox"
	"github.com/cloudwego/gopkg/protocol/thrift"
	"github.com/cloudwego/gopkg/protocol/thrift/apache"
	"github.com/cloudwego/gopkg/protocol/thrift/base"
	"github.com/cloudwego/gopkg/verifharness/evid"
	"pgregory.net/rapid"
)

// ---- C19: Apache bridge ---------------------------------------------------------------------------

// TOp is one operation on the transport handle or the buffer handle.
type TOp struct {
	K string `json:"k"` // w_tr w_buf r_tr r_buf reset close open flush isopen reg_check reg_read reg_write unreg_check unreg_read unreg_write call_check call_read call_write
	N int    `json:"n,omitempty"`
}

// BridgeCase is a history over the two handles plus a readable-length probe and callback states.
type BridgeCase struct {
	ViaDefault bool  `json:"via_default,omitempty"` // obtain the transport through NewDefaultTransport(buf)
	Ops        []TOp `json:"ops"`
	Readable   []int `json:"readable,omitempty"` // ReadableLen values to probe on a generic transport
}

type rwPlain struct{ bytes.Buffer }

type rwReadable struct {
	bytes.Buffer
	n int
}

func (r *rwReadable) ReadableLen() int { return r.n }

// flakyRW: an object with a readable length whose Read and Write return whatever the script says, including a
// positive count together with an error (a partial write on a connection that broke).
type flakyRW struct {
	n    int
	rn   int
	rerr error
	wn   int
	werr error
}

func (f *flakyRW) ReadableLen() int            { return f.n }
func (f *flakyRW) Read(p []byte) (int, error)  { return minInt(f.rn, len(p)), f.rerr }
func (f *flakyRW) Write(p []byte) (int, error) { return minInt(f.wn, len(p)), f.werr }

// bridgeArg gives the value handed to a callback at step i: whatever the caller passes must arrive as it is - also
// values the library could handle by itself (the shipped FastCodec structs, exceptions), nil and typed nil.
func bridgeArg(i int) interface{} {
	switch i % 8 {
	case 0:
		return &struct{ a int }{i}
	case 1:
		return &base.Base{LogID: "x"}
	case 2:
		return thrift.NewApplicationException(int32(i), "m")
	case 3:
		return (*base.BaseResp)(nil)
	case 4:
		return nil
	case 5:
		return "a string"
	case 6:
		return &base.BaseResp{StatusMessage: strings.Repeat("s", 5000)}
	default:
		return thrift.NewProtocolException(1, "p")
	}
}

// lenLike has every length-like method one could think of, except ReadableLen.
type lenLike struct{ bytes.Buffer }

func (l *lenLike) Len() int               { return 5 }
func (l *lenLike) Size() int              { return 6 }
func (l *lenLike) Available() int         { return 7 }
func (l *lenLike) RemainingBytes() uint64 { return 8 }
func (l *lenLike) Readable() int          { return 9 }

// fullTransport has every TTransport method plus ReadableLen; its own RemainingBytes answers a sentinel.
type fullTransport struct {
	bytes.Buffer
	n int
}

func (f *fullTransport) ReadableLen() int              { return f.n }
func (f *fullTransport) RemainingBytes() uint64        { return 12345 }
func (f *fullTransport) Flush(_ context.Context) error { return nil }
func (f *fullTransport) Open() error                   { return nil }
func (f *fullTransport) IsOpen() bool                  { return true }
func (f *fullTransport) Close() error                  { return nil }

// uncomparableRW is a non-pointer io.ReadWriter whose type is not comparable (slice field).
type uncomparableRW struct {
	tag   []int
	inner *bytes.Buffer
}

func (u uncomparableRW) Read(p []byte) (int, error)  { return u.inner.Read(p) }
func (u uncomparableRW) Write(p []byte) (int, error) { return u.inner.Write(p) }
func (u uncomparableRW) ReadableLen() int            { return len(u.tag) }

type onlyRW struct {
	r io.Reader
	w io.Writer
}

func (o onlyRW) Read(p []byte) (int, error)  { return o.r.Read(p) }
func (o onlyRW) Write(p []byte) (int, error) { return o.w.Write(p) }

func checkBridge(c BridgeCase, cv *cov) (v *evid.Violation) {
	ctx := context.Background()
	var sawBoth, sawReset bool
	body := func() {
		// the buffer lives between two other buffers in one allocation: operations through either handle
		// must stay within it
		var trio [3]bytes.Buffer
		trio[0].WriteString("left neighbour")
		trio[2].WriteString("right neighbour")
		buf := &trio[1]
		neighbours := func() *evid.Violation {
			if trio[0].String() != "left neighbour" || trio[2].String() != "right neighbour" {
				return evid.Failf("the bytes.Buffer values stored next to the transport's buffer in the same array changed: %q / %q", trio[0].String(), trio[2].String())
			}
			return nil
		}
		var tr apache.TTransport
		if c.ViaDefault {
			tr = apache.NewDefaultTransport(buf)
		} else {
			tr = apache.NewBufferTransport(buf)
		}
		var model []byte
		refBuf := &bytes.Buffer{} // a second, untouched bytes.Buffer receiving the same operations: the reference for what "is that buffer" means
		usedTr, usedBuf := false, false
		// callback state model (process-global registrations; start by clearing them)
		apache.RegisterCheckTStruct(nil)
		apache.RegisterThriftRead(nil)
		apache.RegisterThriftWrite(nil)
		defer func() {
			apache.RegisterCheckTStruct(nil)
			apache.RegisterThriftRead(nil)
			apache.RegisterThriftWrite(nil)
		}()
		var regCheck, regRead, regWrite bool
		var unregErrs [3]error
		retErr := errors.New("callback result")
		for i, op := range c.Ops {
			n := op.N
			if n < 0 {
				n = 0
			}
			if n > 200000 {
				n = 200000
			}
			switch op.K {
			case "w_tr", "w_buf":
				p := regionContent(i, n)
				var wn int
				var err error
				if op.K == "w_tr" {
					wn, err = tr.Write(p)
					usedTr = true
				} else {
					wn, err = buf.Write(p)
					usedBuf = true
				}
				if err != nil || wn != n {
					v = evid.Failf("step %d %s(%d): n=%d err=%v", i, op.K, n, wn, err)
					return
				}
				refBuf.Write(p)
				model = append(model, p...)
			case "r_tr", "r_buf":
				p := make([]byte, n)
				var rn int
				var err error
				if op.K == "r_tr" {
					rn, err = tr.Read(p)
					usedTr = true
				} else {
					rn, err = buf.Read(p)
					usedBuf = true
				}
				want := n
				if want > len(model) {
					want = len(model)
				}
				if rn != want || !bytes.Equal(p[:rn], model[:rn]) {
					v = evid.Failf("step %d %s(%d): read %d bytes (err=%v), the unread data has %d bytes; content equal=%v", i, op.K, n, rn, err, len(model), bytes.Equal(p[:minInt(rn, len(model))], model[:minInt(rn, len(model))]))
					return
				}
				if n > 0 && len(model) == 0 && err != io.EOF {
					v = evid.Failf("step %d %s(%d) on an empty buffer: err=%v, bytes.Buffer returns io.EOF", i, op.K, n, err)
					return
				}
				model = model[rn:]
				refBuf.Read(make([]byte, n))
			case "unread_byte", "read_byte":
				// bytes.Buffer operations that depend on the buffer's internal read state
				var e1, e2 error
				var b1, b2 byte
				if op.K == "unread_byte" {
					e1, e2 = buf.UnreadByte(), refBuf.UnreadByte()
				} else {
					b1, e1 = buf.ReadByte()
					b2, e2 = refBuf.ReadByte()
				}
				if (e1 == nil) != (e2 == nil) || b1 != b2 {
					v = evid.Failf("step %d %s on the buffer handle: got (%d,%v), a plain bytes.Buffer with the same history gives (%d,%v)", i, op.K, b1, e1, b2, e2)
					return
				}
				model = append([]byte(nil), refBuf.Bytes()...)
				usedBuf = true
			case "reset":
				buf.Reset()
				refBuf.Reset()
				model = nil
				sawReset = true
			case "close":
				if err := tr.Close(); err != nil {
					v = evid.Failf("step %d Close: %v", i, err)
					return
				}
				refBuf.Reset() // Close empties the buffer exactly like Reset
				model = nil
				sawReset = true
			case "open":
				if err := tr.Open(); err != nil {
					v = evid.Failf("step %d Open: %v", i, err)
					return
				}
			case "flush":
				if err := tr.Flush(ctx); err != nil {
					v = evid.Failf("step %d Flush: %v", i, err)
					return
				}
			case "isopen":
				if !tr.IsOpen() {
					v = evid.Failf("step %d IsOpen is false", i)
					return
				}
			case "reg_check":
				regCheck = true
				calls := 0
				var verdict error
				apache.RegisterCheckTStruct(func(x interface{}) error {
					calls++
					if p, ok := x.(*int); !ok || *p != i {
						return errors.New("wrong argument")
					}
					return verdict
				})
				// several calls with values of the same type and changing verdicts: each call must reach the
				// callback and return what it returned
				for k, want := range []error{nil, retErr, nil, nil, retErr} {
					verdict = want
					arg := i
					if err := apache.CheckTStruct(&arg); err != want || calls != k+1 {
						v = evid.Failf("step %d CheckTStruct call %d with a registered callback returned %v (callback invoked %d times), want the callback's result %v", i, k+1, err, calls, want)
						return
					}
				}
			case "unreg_check":
				regCheck = false
				apache.RegisterCheckTStruct(nil)
			case "reg_read":
				regRead = true
				rd := bufiox.NewBytesReader([]byte{1})
				val := bridgeArg(i)
				calls := 0
				apache.RegisterThriftRead(func(r bufiox.Reader, x interface{}) error {
					calls++
					if r != bufiox.Reader(rd) || x != val {
						return errors.New("wrong argument")
					}
					return retErr
				})
				if err := apache.ThriftRead(rd, val); err != retErr || calls != 1 || rd.ReadLen() != 0 {
					v = evid.Failf("step %d ThriftRead with a registered callback returned %v, want the callback's result (arguments passed through unchanged)", i, err)
					return
				}
				apache.RegisterThriftRead(func(r bufiox.Reader, x interface{}) error { return nil })
				if err := apache.ThriftRead(rd, val); err != nil {
					v = evid.Failf("step %d ThriftRead with a callback returning nil returned %v", i, err)
					return
				}
			case "unreg_read":
				regRead = false
				apache.RegisterThriftRead(nil)
			case "reg_write":
				regWrite = true
				var tgt []byte
				wr := bufiox.NewBytesWriter(&tgt)
				val := bridgeArg(i)
				calls := 0
				apache.RegisterThriftWrite(func(w bufiox.Writer, x interface{}) error {
					calls++
					if w != bufiox.Writer(wr) || x != val {
						return errors.New("wrong argument")
					}
					return retErr
				})
				if err := apache.ThriftWrite(wr, val); err != retErr || calls != 1 || wr.WrittenLen() != 0 {
					v = evid.Failf("step %d ThriftWrite with a registered callback returned %v, want the callback's result", i, err)
					return
				}
			case "unreg_write":
				regWrite = false
				apache.RegisterThriftWrite(nil)
			case "call_check", "call_read", "call_write":
				var err error
				var reg bool
				var idx int
				switch op.K {
				case "call_check":
					reg, idx = regCheck, 0
					if !reg {
						err = apache.CheckTStruct(&i)
					}
				case "call_read":
					reg, idx = regRead, 1
					if !reg {
						err = apache.ThriftRead(bufiox.NewBytesReader(nil), &i)
					}
				default:
					reg, idx = regWrite, 2
					if !reg {
						var tgt []byte
						err = apache.ThriftWrite(bufiox.NewBytesWriter(&tgt), &i)
					}
				}
				if !reg {
					if err == nil {
						v = evid.Failf("step %d %s with no callback registered returned nil", i, op.K)
						return
					}
					if unregErrs[idx] != nil && !errors.Is(err, unregErrs[idx]) {
						v = evid.Failf("step %d %s: the not-registered error changed from %v to %v", i, op.K, unregErrs[idx], err)
						return
					}
					unregErrs[idx] = err
				}
			default:
				continue
			}
			if usedTr && usedBuf {
				sawBoth = true
			}
			if v = neighbours(); v != nil {
				v.Msg = fmt.Sprintf("after step %d %s(%d): %s", i, op.K, op.N, v.Msg)
				return
			}
			if got := tr.RemainingBytes(); got != uint64(len(model)) || buf.Len() != len(model) {
				v = evid.Failf("after step %d %s(%d): RemainingBytes()=%d, buffer Len()=%d, unread data has %d bytes", i, op.K, op.N, got, buf.Len(), len(model))
				return
			}
			if !bytes.Equal(buf.Bytes(), model) {
				v = evid.Failf("after step %d %s(%d): the buffer's unread bytes differ from the model", i, op.K, op.N)
				return
			}
		}
		// generic transport
		shared := &rwReadable{}
		sharedTr := apache.NewDefaultTransport(shared)
		for _, n := range append(append([]int{}, c.Readable...), 0, 5, -1, 7) {
			shared.n = n
			wantShared := uint64(math.MaxUint64)
			if n > 0 {
				wantShared = uint64(n)
			}
			if got := sharedTr.RemainingBytes(); got != wantShared {
				v = evid.Failf("generic transport (one transport, readable length changing over time) with ReadableLen()=%d: RemainingBytes()=%d, want %d", n, got, wantShared)
				return
			}
		}
		// reads and writes through a generic transport that fail in every way (no bytes / some bytes / all bytes
		// together with an error) are passed through as they are and do not change what the transport reports
		fl := &flakyRW{}
		flTr := apache.NewDefaultTransport(fl)
		ioErr := errors.New("connection reset")
		for k, n := range append(append([]int{}, c.Readable...), 9, 0, 3) {
			fl.n = n
			fl.rn, fl.rerr, fl.wn, fl.werr = k%4, nil, (k+1)%5, nil
			sentinels := []error{ioErr, io.ErrClosedPipe, os.ErrClosed, io.ErrUnexpectedEOF, os.ErrDeadlineExceeded, io.ErrShortWrite, context.Canceled}
			e1, e2 := sentinels[k%len(sentinels)], sentinels[(k/2+1)%len(sentinels)]
			switch k % 4 {
			case 1:
				fl.werr = e1
			case 2:
				fl.rerr = e1
			case 3:
				fl.werr, fl.rerr, fl.wn = e1, e2, 8
			}
			buf8 := make([]byte, 8)
			wn, werr := flTr.Write(buf8)
			rn, rerr := flTr.Read(buf8)
			if wn != minInt(fl.wn, 8) || werr != fl.werr || rn != minInt(fl.rn, 8) || rerr != fl.rerr {
				v = evid.Failf("generic transport: Write/Read returned (%d,%v)/(%d,%v), the wrapped object returned (%d,%v)/(%d,%v)", wn, werr, rn, rerr, minInt(fl.wn, 8), fl.werr, minInt(fl.rn, 8), fl.rerr)
				return
			}
			want := uint64(math.MaxUint64)
			if n > 0 {
				want = uint64(n)
			}
			if got := flTr.RemainingBytes(); got != want {
				v = evid.Failf("generic transport over an object with ReadableLen()=%d, after a Write that returned (%d,%v) and a Read that returned (%d,%v): RemainingBytes()=%d, want %d", n, wn, werr, rn, rerr, got, want)
				return
			}
		}
		for _, n := range c.Readable {
			d := apache.NewDefaultTransport(&rwReadable{n: n})
			want := uint64(math.MaxUint64)
			if n > 0 {
				want = uint64(n)
			}
			if got := d.RemainingBytes(); got != want {
				v = evid.Failf("generic transport over an object with ReadableLen()=%d: RemainingBytes()=%d, want %d", n, got, want)
				return
			}
			if !d.IsOpen() || d.Open() != nil || d.Flush(ctx) != nil || d.Close() != nil {
				v = evid.Failf("generic transport: IsOpen/Open/Flush/Close are not inert")
				return
			}
		}
		// an object that brings the whole transport method set (and a readable length) with it: the generic
		// transport rule still applies to what NewDefaultTransport returns
		for _, n := range []int{-3, 0, 9} {
			ft := &fullTransport{n: n}
			want := uint64(math.MaxUint64)
			if n > 0 {
				want = uint64(n)
			}
			if got := apache.NewDefaultTransport(ft).RemainingBytes(); got != want {
				v = evid.Failf("NewDefaultTransport over an object that itself has all transport methods and ReadableLen()=%d: RemainingBytes()=%d, want %d", n, got, want)
				return
			}
		}
		if got := apache.NewDefaultTransport(apache.NewBufferTransport(bytes.NewBufferString("abc"))).RemainingBytes(); got != math.MaxUint64 {
			v = evid.Failf("NewDefaultTransport over a buffer transport (an io.ReadWriter without ReadableLen): RemainingBytes()=%d, want max uint64", got)
			return
		}
		// several generic transports alive at once, some closed (Close is inert for them), each must keep
		// answering for its own object; objects of an uncomparable value type are legal io.ReadWriters too
		{
			type live struct {
				tr  apache.TTransport
				obj *rwReadable
			}
			var lives []live
			ns := append(append([]int{}, c.Readable...), 3, 11, 0, 29)
			for k, n := range ns {
				if n == math.MinInt64 {
					n = -1
				}
				o := &rwReadable{n: n}
				l := live{apache.NewDefaultTransport(o), o}
				lives = append(lives, l)
				if k%2 == 0 {
					l.tr.Close()
				}
				if k%3 == 0 {
					l.tr.Close() // closing twice is as inert as closing once
				}
			}
			for k, l := range lives {
				want := uint64(math.MaxUint64)
				if l.obj.n > 0 {
					want = uint64(l.obj.n)
				}
				if got := l.tr.RemainingBytes(); got != want {
					v = evid.Failf("generic transport %d of %d live ones (some closed in between) over an object with ReadableLen()=%d: RemainingBytes()=%d, want %d", k, len(lives), l.obj.n, got, want)
					return
				}
				msg := []byte{byte(k), 'm'}
				l.tr.Write(msg)
				if !bytes.Equal(l.obj.Bytes(), msg) {
					v = evid.Failf("generic transport %d of %d live ones: Write did not reach its own wrapped object", k, len(lives))
					return
				}
			}
			for rep := 0; rep < 3; rep++ {
				u := uncomparableRW{tag: make([]int, rep*4), inner: &bytes.Buffer{}}
				d := apache.NewDefaultTransport(u)
				want := uint64(math.MaxUint64)
				if rep > 0 {
					want = uint64(rep * 4)
				}
				if got := d.RemainingBytes(); got != want {
					v = evid.Failf("generic transport over a struct value with a slice field (uncomparable type), ReadableLen()=%d: RemainingBytes()=%d, want %d", rep*4, got, want)
					return
				}
				d.Write([]byte("q"))
				if u.inner.String() != "q" {
					v = evid.Failf("generic transport over an uncomparable struct value does not pass Write through")
					return
				}
			}
		}
		// objects that expose OTHER length-like methods (Len, Size, Available, RemainingBytes) but no ReadableLen:
		// "unknown", whatever those methods say
		emb := struct{ *bytes.Buffer }{bytes.NewBufferString("unread data")}
		for name, o := range map[string]io.ReadWriter{"struct embedding *bytes.Buffer (Len() = 11)": emb, "object with Len/Size/Available/RemainingBytes": &lenLike{}} {
			if got := apache.NewDefaultTransport(o).RemainingBytes(); got != math.MaxUint64 {
				v = evid.Failf("generic transport over a %s, which has no ReadableLen method: RemainingBytes()=%d, want max uint64", name, got)
				return
			}
		}
		inner := &rwPlain{}
		d := apache.NewDefaultTransport(onlyRW{inner, inner})
		if got := d.RemainingBytes(); got != math.MaxUint64 {
			v = evid.Failf("generic transport over an object without ReadableLen: RemainingBytes()=%d, want max uint64", got)
			return
		}
		d.Write([]byte("xyz"))
		p := make([]byte, 5)
		if n, _ := d.Read(p); n != 3 || string(p[:3]) != "xyz" {
			v = evid.Failf("generic transport does not pass Read/Write through")
			return
		}
	}
	if p, st := evid.Safe(body); p != nil {
		return &evid.Violation{Msg: fmt.Sprintf("panic: %v", p), Stack: st}
	}
	if v != nil {
		return v
	}
	cv.nontrivial = sawBoth && sawReset
	cv.labelIf(sawBoth, "both_handles_used")
	cv.labelIf(sawReset, "reset_or_close")
	cv.labelIf(c.ViaDefault, "via_NewDefaultTransport")
	return nil
}

func init() { register("c19_bridge", checkBridge) }

var bridgeOps = []string{"w_tr", "w_tr", "w_buf", "w_buf", "r_tr", "r_tr", "r_buf", "r_buf", "reset", "close", "close", "open", "flush", "isopen", "unread_byte", "unread_byte", "read_byte",
	"reg_check", "reg_read", "reg_write", "unreg_check", "unreg_read", "unreg_write", "call_check", "call_read", "call_write", "call_check", "call_read", "call_write"}

func genBridgeCase(t *rapid.T) BridgeCase {
	c := BridgeCase{ViaDefault: rapid.Bool().Draw(t, "viaDefault")}
	c.Ops = rapid.SliceOfN(rapid.Custom(func(t *rapid.T) TOp {
		return TOp{K: rapid.SampledFrom(bridgeOps).Draw(t, "k"), N: rapid.OneOf(rapid.IntRange(0, 70), rapid.IntRange(0, 10000), rapid.SampledFrom([]int{4096, 65535, 65536, 65537, 70000, 140000})).Draw(t, "n")}
	}), 1, 40).Draw(t, "ops")
	c.Readable = rapid.SliceOfN(rapid.OneOf(rapid.Int(), rapid.SampledFrom([]int{0, 1, -1, math.MaxInt64, math.MinInt64, math.MaxInt32})), 0, 3).Draw(t, "readable")
	return c
}

func TestC19_Random(t *testing.T) {
	rec := evid.New("C19", "c19_random", "rapid: histories of 1..40 operations over two handles on one bytes.Buffer (the buffer itself and the transport from NewBufferTransport / NewDefaultTransport): Write/Read of 0..10000 bytes through either handle, Reset, Close, Open, Flush, IsOpen, plus Register/unregister(nil)/call of the three callbacks with identity-checked arguments; model = byte queue + registration flags; after every step RemainingBytes == buffer Len == model; generic transports over objects with ReadableLen of any int (negative, 0, positive, extremes) or without it; non-trivial = both handles used and >= 1 Reset/Close")
	defer rec.Flush()
	rec.Assume("callback registrations are process globals; the check clears them first and runs single-threaded")
	runRapid(t, rec, "c19_bridge", evid.Pick(40000, 1000000), genBridgeCase, checkBridge)
}

// TestC19_ConcurrentRegister: the three callbacks are registered by three goroutines at the same time
// (different callbacks, so the registrations are independent of each other); after they have all
// returned, every callback must be in place.
func TestC19_ConcurrentRegister(t *testing.T) {
	rec := evid.New("C19", "c19_concurrent_register", "rounds: three goroutines leave a spin barrier together and register the check, read and write callback respectively (in later rounds some unregister with nil instead); after all three returned, each of CheckTStruct/ThriftRead/ThriftWrite must reach the callback registered in this round (identity-checked result) or yield the not-registered error; every round is one evaluation; non-trivial = always")
	defer rec.Flush()
	defer func() {
		apache.RegisterCheckTStruct(nil)
		apache.RegisterThriftRead(nil)
		apache.RegisterThriftWrite(nil)
	}()
	rounds := evid.Pick(60000, 1500000)
	b := evid.NewBatch()
	old := runtime.GOMAXPROCS(0)
	if old < 4 {
		runtime.GOMAXPROCS(4)
		defer runtime.GOMAXPROCS(old)
	}
	rd := bufiox.NewBytesReader([]byte{1})
	var tgt []byte
	wr := bufiox.NewBytesWriter(&tgt)
	for r := 0; r < rounds; r++ {
		errs := [3]error{fmt.Errorf("check %d", r), fmt.Errorf("read %d", r), fmt.Errorf("write %d", r)}
		unreg := [3]bool{r%7 == 3, r%11 == 5, r%13 == 7}
		var ready int32
		var wg sync.WaitGroup
		wg.Add(3)
		arrive := func() {
			atomic.AddInt32(&ready, 1)
			for spins := 0; atomic.LoadInt32(&ready) < 3; spins++ {
				if spins > 200 {
					runtime.Gosched() // do not burn a loaded machine's CPU while a peer is descheduled
				}
			}
		}
		go func() {
			defer wg.Done()
			arrive()
			if unreg[0] {
				apache.RegisterCheckTStruct(nil)
			} else {
				apache.RegisterCheckTStruct(func(interface{}) error { return errs[0] })
			}
		}()
		go func() {
			defer wg.Done()
			arrive()
			if unreg[1] {
				apache.RegisterThriftRead(nil)
			} else {
				apache.RegisterThriftRead(func(bufiox.Reader, interface{}) error { return errs[1] })
			}
		}()
		go func() {
			defer wg.Done()
			arrive()
			if unreg[2] {
				apache.RegisterThriftWrite(nil)
			} else {
				apache.RegisterThriftWrite(func(bufiox.Writer, interface{}) error { return errs[2] })
			}
		}()
		wg.Wait()
		got := [3]error{apache.CheckTStruct(&r), apache.ThriftRead(rd, &r), apache.ThriftWrite(wr, &r)}
		b.Evals++
		b.Distinct++
		b.Nontrivial++
		for k := 0; k < 3; k++ {
			name := []string{"CheckTStruct", "ThriftRead", "ThriftWrite"}[k]
			if unreg[k] {
				if got[k] == nil || got[k] == errs[k] {
					failEnum(t, rec, "c19_bridge", BridgeCase{Ops: []TOp{{K: "call_check"}}}, evid.Failf("round %d: %s after its callback was unregistered (while two other callbacks were being registered concurrently) returned %v, want the not-registered error", r, name, got[k]))
					rec.Merge(b)
					return
				}
				continue
			}
			if got[k] != errs[k] {
				failEnum(t, rec, "c19_bridge", BridgeCase{Ops: []TOp{{K: "reg_check"}, {K: "reg_read"}, {K: "reg_write"}}}, evid.Failf("round %d: the three callbacks were registered by three goroutines at the same time; afterwards %s returned %v instead of the result of the callback registered for it (%v): a registration was lost", r, name, got[k], errs[k]))
				rec.Merge(b)
				return
			}
		}
	}
	rec.Merge(b)
	rec.Sample(map[string]interface{}{"rounds": rounds, "goroutines_per_round": 3})
}

// ---- callbacks that use the registry themselves -----------------------------------------------------------

func c19ReentrantChild(inner bool) {
	fail := func(f string, a ...interface{}) {
		fmt.Printf("C19-REENTRANT-FAILED: "+f+"\n", a...)
		os.Exit(3)
	}
	errA, errB, errC := errors.New("A"), errors.New("B"), errors.New("C")
	x := 1
	// 1. a one-shot callback that replaces itself
	apache.RegisterCheckTStruct(func(interface{}) error {
		if inner {
			apache.RegisterCheckTStruct(func(interface{}) error { return errB })
		}
		return errA
	})
	if err := apache.CheckTStruct(&x); err != errA {
		fail("first call of a self-replacing check callback returned %v", err)
	}
	if err := apache.CheckTStruct(&x); inner && err != errB {
		fail("second call after the callback replaced itself returned %v, want the new callback's result", err)
	}
	// 2. a read callback that unregisters itself
	rd := bufiox.NewBytesReader([]byte{1})
	apache.RegisterThriftRead(func(bufiox.Reader, interface{}) error {
		if inner {
			apache.RegisterThriftRead(nil)
		}
		return nil
	})
	if err := apache.ThriftRead(rd, &x); err != nil {
		fail("self-unregistering read callback returned %v", err)
	}
	if err := apache.ThriftRead(rd, &x); inner && err == nil {
		fail("ThriftRead after the callback unregistered itself returned nil")
	}
	// 3. a write callback that validates through CheckTStruct and recurses once
	var tgt []byte
	wr := bufiox.NewBytesWriter(&tgt)
	apache.RegisterCheckTStruct(func(interface{}) error { return errC })
	depth := 0
	apache.RegisterThriftWrite(func(w bufiox.Writer, v interface{}) error {
		if !inner {
			return errC
		}
		depth++
		if depth == 1 {
			if err := apache.ThriftWrite(w, v); err != errC {
				return fmt.Errorf("nested ThriftWrite returned %v", err)
			}
		}
		return apache.CheckTStruct(v)
	})
	if err := apache.ThriftWrite(wr, &x); err != errC {
		fail("write callback calling CheckTStruct and itself returned %v, want the check callback's result", err)
	}
	fmt.Println("C19-REENTRANT-OK")
}

func runReentrantChild(inner bool) (out []byte, timedOut bool, elapsed time.Duration) {
	cmd := exec.Command(os.Args[0], "-test.run", "^TestC19_Reentrant$")
	mode := "control"
	if inner {
		mode = "inner"
	}
	cmd.Env = append(os.Environ(), "VERIF_C19_CHILD="+mode, "VERIF_OUT=")
	var buf bytes.Buffer
	cmd.Stdout, cmd.Stderr = &buf, &buf
	t0 := time.Now()
	if err := cmd.Start(); err != nil {
		return nil, false, 0
	}
	done := make(chan struct{})
	go func() { cmd.Wait(); close(done) }()
	select {
	case <-done:
	case <-time.After(20 * time.Second):
		cmd.Process.Kill()
		<-done
		timedOut = true
	}
	return buf.Bytes(), timedOut, time.Since(t0)
}

// TestC19_Reentrant: callbacks that register, unregister or call callbacks while they run. The scenario
// runs in a child process; a child that does not come back is compared with a control child that runs the
// same calls without the inner registrations, so that a stalled machine is not mistaken for a hang.
func TestC19_Reentrant(t *testing.T) {
	if m := os.Getenv("VERIF_C19_CHILD"); m != "" {
		c19ReentrantChild(m == "inner")
		return
	}
	rec := evid.New("C19", "c19_reentrant", "child processes: a check callback that replaces itself while it runs, a read callback that unregisters itself, a write callback that calls CheckTStruct and (once) ThriftWrite; every call must return the result of the callback that ran and later calls must see the new registration; a child that the Go runtime reports as deadlocked is a violation; a child that has not finished after 20 s counts as a hang only if a control child (the same calls without the inner registrations) finishes normally; every child is one evaluation; non-trivial = always")
	defer rec.Flush()
	rec.Assume("a hang is recognised by a 20 s limit on a child whose work takes microseconds, cross-checked against a control child")
	b := evid.NewBatch()
	for i := 0; i < evid.Pick(2, 6); i++ {
		out, timedOut, _ := runReentrantChild(true)
		b.Evals++
		b.Distinct++
		b.Nontrivial++
		switch {
		case bytes.Contains(out, []byte("C19-REENTRANT-FAILED")):
			msg := string(out)
			if len(msg) > 600 {
				msg = msg[:600]
			}
			failEnum(t, rec, "c19_bridge", BridgeCase{Ops: []TOp{{K: "reg_check"}, {K: "call_check"}}}, evid.Failf("callbacks that use the registry while they run: %s", msg))
			rec.Merge(b)
			return
		case bytes.Contains(out, []byte("all goroutines are asleep - deadlock")):
			// the Go runtime itself found the child deadlocked (no clock involved)
			failEnum(t, rec, "c19_bridge", BridgeCase{Ops: []TOp{{K: "reg_check"}, {K: "call_check"}}}, evid.Failf("a call whose callback registers, unregisters or calls a callback never returns: the Go runtime reports the child process deadlocked (all goroutines asleep)"))
			rec.Merge(b)
			return
		case timedOut:
			cout, ctimed, cel := runReentrantChild(false)
			if !ctimed && bytes.Contains(cout, []byte("C19-REENTRANT-OK")) {
				failEnum(t, rec, "c19_bridge", BridgeCase{Ops: []TOp{{K: "reg_check"}, {K: "call_check"}}}, evid.Failf("a call whose callback registers, unregisters or calls a callback did not return (child killed after 20 s; the control child without the inner registrations finished in %v)", cel))
				rec.Merge(b)
				return
			}
			b.Labels["child_and_control_both_stalled_inconclusive"]++
		case !bytes.Contains(out, []byte("C19-REENTRANT-OK")):
			b.Labels["child_could_not_run"]++
		}
	}
	rec.Merge(b)
	rec.Sample(map[string]interface{}{"scenario": "self-replacing check callback, self-unregistering read callback, write callback calling CheckTStruct and itself"})
}
