package props

import (
	"bytes"
	"fmt"
	"math"
	"testing"

	"github.com/cloudwego/gopkg/bufiox"
	"github.com/cloudwego/gopkg/protocol/thrift"
	"github.com/cloudwego/gopkg/verifharness/evid"
	"github.com/cloudwego/gopkg/verifharness/faultio"
	"github.com/cloudwego/gopkg/verifharness/ref"
	"pgregory.net/rapid"
)

// ---- C01: every writer and reader agrees with the wire format -----------------------------------

// Item is one typed item of a codec script.
type Item struct {
	K    string `json:"k"` // bool i8 i16 i32 i64 double string binary field stop list set map
	U    uint64 `json:"u,omitempty"`
	SLen int    `json:"slen,omitempty"`
	Seed byte   `json:"seed,omitempty"`
	T1   int8   `json:"t1,omitempty"`
	T2   int8   `json:"t2,omitempty"`
	ID   int16  `json:"id,omitempty"`
	Sz   int    `json:"sz,omitempty"`
}

func (it *Item) str() []byte { return patternBytes(it.Seed, it.SLen) }

// refItem is the wire format of an item, written from the Thrift Binary description.
func refItem(out []byte, it *Item) []byte {
	switch it.K {
	case "bool":
		return append(out, byte(it.U&1))
	case "i8":
		return append(out, byte(it.U))
	case "i16":
		return ref.Put16(out, uint16(it.U))
	case "i32":
		return ref.Put32(out, uint32(it.U))
	case "i64", "double":
		return ref.Put64(out, it.U)
	case "string", "binary":
		out = ref.Put32(out, uint32(it.SLen))
		return append(out, it.str()...)
	case "field":
		out = append(out, byte(it.T1))
		return ref.Put16(out, uint16(it.ID))
	case "stop":
		return append(out, 0)
	case "list", "set":
		out = append(out, byte(it.T1))
		return ref.Put32(out, uint32(it.Sz))
	case "map":
		out = append(out, byte(it.T1), byte(it.T2))
		return ref.Put32(out, uint32(it.Sz))
	}
	panic("bad item kind " + it.K)
}

// CodecCase is a script of items plus the writer/reader configuration.
type CodecCase struct {
	Items  []Item       `json:"items"`
	Plan   faultio.Plan `json:"plan"`
	Prefix evid.Hex     `json:"prefix,omitempty"` // non-empty prefix for the appending writer / bytes writer
}

type codecWriter struct {
	x      thrift.BinaryProtocol
	ap     []byte               // appending writer output (starts with prefix)
	w      *thrift.BufferWriter // stream writer over DefaultWriter(ScriptWriter)
	wb     *thrift.BufferWriter // stream writer over BytesWriter
	inplce []byte               // concatenation of in-place writes
}

func (cw *codecWriter) write(it *Item, want []byte) *evid.Violation {
	x := cw.x
	buf := make([]byte, len(want))
	var n, ln int
	var e1, e2 error
	switch it.K {
	case "bool":
		v := it.U&1 == 1
		n, ln = x.WriteBool(buf, v), x.BoolLength()
		cw.ap = x.AppendBool(cw.ap, v)
		e1, e2 = cw.w.WriteBool(v), cw.wb.WriteBool(v)
	case "i8":
		v := int8(it.U)
		n, ln = x.WriteByte(buf, v), x.ByteLength()
		cw.ap = x.AppendByte(cw.ap, v)
		e1, e2 = cw.w.WriteByte(v), cw.wb.WriteByte(v)
	case "i16":
		v := int16(it.U)
		n, ln = x.WriteI16(buf, v), x.I16Length()
		cw.ap = x.AppendI16(cw.ap, v)
		e1, e2 = cw.w.WriteI16(v), cw.wb.WriteI16(v)
	case "i32":
		v := int32(it.U)
		n, ln = x.WriteI32(buf, v), x.I32Length()
		cw.ap = x.AppendI32(cw.ap, v)
		e1, e2 = cw.w.WriteI32(v), cw.wb.WriteI32(v)
	case "i64":
		v := int64(it.U)
		n, ln = x.WriteI64(buf, v), x.I64Length()
		cw.ap = x.AppendI64(cw.ap, v)
		e1, e2 = cw.w.WriteI64(v), cw.wb.WriteI64(v)
	case "double":
		v := math.Float64frombits(it.U)
		n, ln = x.WriteDouble(buf, v), x.DoubleLength()
		cw.ap = x.AppendDouble(cw.ap, v)
		e1, e2 = cw.w.WriteDouble(v), cw.wb.WriteDouble(v)
	case "string":
		s := string(it.str())
		n, ln = x.WriteString(buf, s), x.StringLength(s)
		cw.ap = x.AppendString(cw.ap, s)
		e1, e2 = cw.w.WriteString(s), cw.wb.WriteString(s)
	case "binary":
		s := it.str()
		n, ln = x.WriteBinary(buf, s), x.BinaryLength(s)
		cw.ap = x.AppendBinary(cw.ap, s)
		e1, e2 = cw.w.WriteBinary(s), cw.wb.WriteBinary(s)
	case "field":
		n, ln = x.WriteFieldBegin(buf, it.T1, it.ID), x.FieldBeginLength()
		cw.ap = x.AppendFieldBegin(cw.ap, it.T1, it.ID)
		e1, e2 = cw.w.WriteFieldBegin(it.T1, it.ID), cw.wb.WriteFieldBegin(it.T1, it.ID)
	case "stop":
		n, ln = x.WriteFieldStop(buf), x.FieldStopLength()
		cw.ap = x.AppendFieldStop(cw.ap)
		e1, e2 = cw.w.WriteFieldStop(), cw.wb.WriteFieldStop()
	case "list":
		n, ln = x.WriteListBegin(buf, it.T1, it.Sz), x.ListBeginLength()
		cw.ap = x.AppendListBegin(cw.ap, it.T1, it.Sz)
		e1, e2 = cw.w.WriteListBegin(it.T1, it.Sz), cw.wb.WriteListBegin(it.T1, it.Sz)
	case "set":
		n, ln = x.WriteSetBegin(buf, it.T1, it.Sz), x.SetBeginLength()
		cw.ap = x.AppendSetBegin(cw.ap, it.T1, it.Sz)
		e1, e2 = cw.w.WriteSetBegin(it.T1, it.Sz), cw.wb.WriteSetBegin(it.T1, it.Sz)
	case "map":
		n, ln = x.WriteMapBegin(buf, it.T1, it.T2, it.Sz), x.MapBeginLength()
		cw.ap = x.AppendMapBegin(cw.ap, it.T1, it.T2, it.Sz)
		e1, e2 = cw.w.WriteMapBegin(it.T1, it.T2, it.Sz), cw.wb.WriteMapBegin(it.T1, it.T2, it.Sz)
	default:
		return nil
	}
	if e1 != nil || e2 != nil {
		return evid.Failf("%s: stream writer returned an error: %v / %v", it.K, e1, e2)
	}
	if n != len(want) {
		return evid.Failf("%s %+v: in-place writer returned %d, the wire format has %d bytes", it.K, *it, n, len(want))
	}
	if ln != len(want) {
		return evid.Failf("%s %+v: advertised length %d, the wire format has %d bytes", it.K, *it, ln, len(want))
	}
	if !bytes.Equal(buf, want) {
		return evid.Failf("%s %+v: in-place writer produced %s, wire format is %s", it.K, *it, hx(buf), hx(want))
	}
	cw.inplce = append(cw.inplce, buf...)
	return nil
}

// readItem decodes one item with the buffer reader at want[off:] and with the stream reader.
// retained collects the strings/binaries returned by the stream reader so that they can be re-verified
// after later reads and a Release of the underlying buffered reader.
type retainedVal struct {
	s    string
	b    []byte
	isB  bool
	want []byte
	idx  int
}

func readItem(it *Item, one []byte, rest []byte, r *thrift.BufferReader) *evid.Violation {
	return readItemKeep(it, one, rest, r, nil)
}

func readItemKeep(it *Item, one []byte, rest []byte, r *thrift.BufferReader, keep *[]retainedVal) *evid.Violation {
	x := thrift.Binary
	before := r.Readn()
	var l int
	var err, err2 error
	ok, ok2 := true, true
	switch it.K {
	case "bool":
		var v, v2 bool
		v, l, err = x.ReadBool(rest)
		v2, err2 = r.ReadBool()
		ok, ok2 = v == (it.U&1 == 1), v2 == (it.U&1 == 1)
	case "i8":
		var v, v2 int8
		v, l, err = x.ReadByte(rest)
		v2, err2 = r.ReadByte()
		ok, ok2 = v == int8(it.U), v2 == int8(it.U)
	case "i16":
		var v, v2 int16
		v, l, err = x.ReadI16(rest)
		v2, err2 = r.ReadI16()
		ok, ok2 = v == int16(it.U), v2 == int16(it.U)
	case "i32":
		var v, v2 int32
		v, l, err = x.ReadI32(rest)
		v2, err2 = r.ReadI32()
		ok, ok2 = v == int32(it.U), v2 == int32(it.U)
	case "i64":
		var v, v2 int64
		v, l, err = x.ReadI64(rest)
		v2, err2 = r.ReadI64()
		ok, ok2 = v == int64(it.U), v2 == int64(it.U)
	case "double":
		var v, v2 float64
		v, l, err = x.ReadDouble(rest)
		v2, err2 = r.ReadDouble()
		ok, ok2 = math.Float64bits(v) == it.U, math.Float64bits(v2) == it.U
	case "string":
		var v, v2 string
		v, l, err = x.ReadString(rest)
		v2, err2 = r.ReadString()
		s := string(it.str())
		ok, ok2 = v == s, v2 == s
		if keep != nil {
			*keep = append(*keep, retainedVal{s: v2, want: it.str()})
		}
	case "binary":
		var v, v2 []byte
		v, l, err = x.ReadBinary(rest)
		v2, err2 = r.ReadBinary()
		s := it.str()
		ok, ok2 = bytes.Equal(v, s), bytes.Equal(v2, s)
		if keep != nil {
			*keep = append(*keep, retainedVal{b: v2, isB: true, want: s})
		}
	case "field":
		var tp, tp2 int8
		var id, id2 int16
		tp, id, l, err = x.ReadFieldBegin(rest)
		tp2, id2, err2 = r.ReadFieldBegin()
		ok, ok2 = tp == it.T1 && id == it.ID, tp2 == it.T1 && id2 == it.ID
	case "stop":
		var tp, tp2 int8
		var id, id2 int16
		tp, id, l, err = x.ReadFieldBegin(rest)
		tp2, id2, err2 = r.ReadFieldBegin()
		ok, ok2 = tp == 0 && id == 0, tp2 == 0 && id2 == 0
	case "list":
		var tp, tp2 int8
		var sz, sz2 int
		tp, sz, l, err = x.ReadListBegin(rest)
		tp2, sz2, err2 = r.ReadListBegin()
		ok, ok2 = tp == it.T1 && sz == it.Sz, tp2 == it.T1 && sz2 == it.Sz
	case "set":
		var tp, tp2 int8
		var sz, sz2 int
		tp, sz, l, err = x.ReadSetBegin(rest)
		tp2, sz2, err2 = r.ReadSetBegin()
		ok, ok2 = tp == it.T1 && sz == it.Sz, tp2 == it.T1 && sz2 == it.Sz
	case "map":
		var k, v, k2, v2 int8
		var sz, sz2 int
		k, v, sz, l, err = x.ReadMapBegin(rest)
		k2, v2, sz2, err2 = r.ReadMapBegin()
		ok, ok2 = k == it.T1 && v == it.T2 && sz == it.Sz, k2 == it.T1 && v2 == it.T2 && sz2 == it.Sz
	}
	if err != nil || !ok || l != len(one) {
		return evid.Failf("buffer reader on %s %+v (wire %s): err=%v value-ok=%v consumed=%d want %d", it.K, *it, hx(one), err, ok, l, len(one))
	}
	if d := int(r.Readn() - before); err2 != nil || !ok2 || d != len(one) {
		return evid.Failf("stream reader on %s %+v (wire %s): err=%v value-ok=%v Readn delta=%d want %d", it.K, *it, hx(one), err2, ok2, d, len(one))
	}
	return nil
}

func checkCodec(c CodecCase, cv *cov) (v *evid.Violation) {
	var want []byte
	poisonBufferWriterPool() // pooled writer objects that saw a failed connection must be clean when reused
	sink := &faultio.ScriptWriter{}
	bw := bufiox.NewDefaultWriter(sink)
	target := append(make([]byte, 0, len(c.Prefix)+rapidCapPad(len(c.Prefix))), c.Prefix...)
	bbw := bufiox.NewBytesWriter(&target)
	cw := &codecWriter{ap: append([]byte(nil), c.Prefix...), w: thrift.NewBufferWriter(bw), wb: thrift.NewBufferWriter(bbw)}
	var where string
	split, multi := false, false
	body := func() {
		where = "writers"
		ones := make([][]byte, len(c.Items))
		for i := range c.Items {
			it := &c.Items[i]
			one := refItem(nil, it)
			ones[i] = one
			want = append(want, one...)
			if v = cw.write(it, one); v != nil {
				return
			}
			if len(one) > 1 {
				multi = true
			}
		}
		if err := bw.Flush(); err != nil {
			v = evid.Failf("Flush: %v", err)
			return
		}
		if err := bbw.Flush(); err != nil {
			v = evid.Failf("bytes writer Flush: %v", err)
			return
		}
		cw.w.Recycle()
		cw.wb.Recycle()
		if !bytes.Equal(cw.ap[:len(c.Prefix)], c.Prefix) {
			v = evid.Failf("appending writer changed the %d-byte prefix it appended to", len(c.Prefix))
			return
		}
		if !bytes.Equal(cw.ap[len(c.Prefix):], want) {
			v = evid.Failf("appending writer output differs from the wire format (%d vs %d bytes): got %s want %s", len(cw.ap)-len(c.Prefix), len(want), hx(cw.ap[len(c.Prefix):]), hx(want))
			return
		}
		if got := sink.Bytes(); !bytes.Equal(got, want) {
			v = evid.Failf("stream writer delivered %d bytes to the io.Writer, the wire format has %d: got %s want %s", len(got), len(want), hx(got), hx(want))
			return
		}
		if !bytes.Equal(target, append(append([]byte(nil), c.Prefix...), want...)) {
			v = evid.Failf("stream writer over a bytes writer: target has %d bytes, want prefix(%d)+wire(%d)", len(target), len(c.Prefix), len(want))
			return
		}
		where = "readers"
		sr := faultio.NewScriptReader(want, c.Plan)
		br := bufiox.NewDefaultReader(sr)
		r := thrift.NewBufferReader(br)
		off := 0
		var kept []retainedVal
		for i := range c.Items {
			calls := sr.Calls
			if i > 0 && i%5 == 0 {
				br.Release(releaseArg(i / 5)) // values returned so far must survive a Release (with any argument) and further reads
			}
			if v = readItemKeep(&c.Items[i], ones[i], want[off:], r, &kept); v != nil {
				v.Msg = fmt.Sprintf("item %d: %s (source plan %+v)", i, v.Msg, sr.Plan)
				return
			}
			if sr.Calls-calls >= 2 && len(ones[i]) > 1 {
				split = true
			}
			off += len(ones[i])
		}
		if sr.TermCalls > 0 {
			v = evid.Failf("stream reader: after every byte of the %d-byte stream had been delivered, the reader asked its source for more (%d further Read calls) while decoding values that were already complete; on a connection that stays open such a read blocks and the decode does not return (source plan %+v)", len(want), sr.TermCalls, sr.Plan)
			return
		}
		if _, err := br.Next(1); err == nil {
			v = evid.Failf("stream reader is not at the end of the stream after decoding every item")
			return
		}
		r.Recycle()
		br.Release(nil)
		for i := range kept {
			got := []byte(kept[i].s)
			if kept[i].isB {
				got = kept[i].b
			}
			if !bytes.Equal(got, kept[i].want) {
				v = evid.Failf("stream reader: string/binary value #%d (%d bytes) no longer equals the original value after later reads and Release of the reader (it was not an independent value)", i, len(kept[i].want))
				return
			}
		}
	}
	if p, st := evid.Safe(body); p != nil {
		return &evid.Violation{Msg: fmt.Sprintf("panic in %s: %v", where, p), Stack: st}
	}
	if v != nil {
		return v
	}
	cv.nontrivial = multi && split
	cv.labelIf(split, "item_split_across_reads")
	cv.labelIf(c.Plan.WithData, "final_data_with_eof")
	cv.labelIf(len(want) > 4096, "stream_gt_4096")
	cv.labelIf(len(want) > 8192, "stream_gt_8192")
	for i := range c.Items {
		cv.label("kind_" + c.Items[i].K)
	}
	return nil
}

func rapidCapPad(n int) int { return (n * 7) % 13 }

func init() { register("c01_codec_script", checkCodec) }

var itemKinds = []string{"bool", "i8", "i16", "i32", "i64", "double", "string", "binary", "field", "stop", "list", "set", "map"}

func genItem(t *rapid.T) Item {
	it := Item{K: rapid.SampledFrom(itemKinds).Draw(t, "k")}
	switch it.K {
	case "bool", "i8", "i16", "i32", "i64", "double":
		g := vgen{t: t}
		it.U = g.bits(ref.I64)
	case "string", "binary":
		it.SLen = rapid.OneOf(rapid.IntRange(0, 300), rapid.IntRange(0, 20), rapid.IntRange(4080, 4110), rapid.IntRange(8180, 8210), rapid.SampledFrom([]int{16383, 16384, 65535, 65536, 70000})).Draw(t, "slen")
		it.Seed = rapid.Byte().Draw(t, "seed")
	case "field":
		it.T1 = int8(rapid.IntRange(-128, 127).Draw(t, "t1"))
		if it.T1 == 0 {
			it.T1 = 11
		}
		it.ID = (&vgen{t: t}).fieldID()
	case "list", "set", "map":
		it.T1, it.T2 = int8(rapid.IntRange(-128, 127).Draw(t, "t1")), int8(rapid.IntRange(-128, 127).Draw(t, "t2"))
		if it.K != "map" {
			it.T2 = 0
		}
		it.Sz = rapid.OneOf(rapid.SampledFrom([]int{0, 1, 0x7f, 0x80, 0xff, 0x100, 0xffff, 0x10000, 0x7fffffff, 12345678}), rapid.IntRange(0, 0x7fffffff)).Draw(t, "sz")
	}
	return it
}

func genCodecCase(t *rapid.T) CodecCase {
	var c CodecCase
	c.Items = rapid.SliceOfN(rapid.Custom(genItem), 1, 40).Draw(t, "items")
	// keep total size bounded
	tot := 0
	for i := range c.Items {
		tot += c.Items[i].SLen
		if tot > 200000 {
			c.Items[i].SLen = c.Items[i].SLen % 300
		}
	}
	c.Plan = genPlan(t, 0)
	c.Plan.ErrAt = -1
	c.Plan.ErrKind = 0
	c.Prefix = rapid.SliceOfN(rapid.Byte(), 0, 9).Draw(t, "prefix")
	return c
}

func TestC01_Random(t *testing.T) {
	rec := evid.New("C01", "c01_random", "rapid: scripts of 1..40 typed items (13 kinds; scalar bit patterns from constants/single bits/uniform incl. NaN payloads; strings/binaries 0..300, 4080..4110, 8180..8210, 16383/16384/65535/65536/70000 bytes of non-UTF-8 pattern content; any type byte; container sizes 0..2^31-1) written by the in-place, appending (non-empty prefix) and stream writers (io.Writer-backed and bytes-backed) and read back by the buffer reader and by the stream reader under a generated source plan; non-trivial = a multi-byte item was split across >= 2 source reads")
	defer rec.Flush()
	runRapid(t, rec, "c01_codec_script", evid.Pick(25000, 300000), genCodecCase, checkCodec)
}

// TestC01_Exhaustive enumerates complete small domains through all writers and readers.
func TestC01_Exhaustive(t *testing.T) {
	rec := evid.New("C01", "c01_exhaustive", "enumeration through all 4 writers and both readers, batched 512 items per stream under cycling source plans: all 2 bool, all 256 i8, all 65536 i16, all 65536 field ids x 4 type bytes, all 255 non-zero field type bytes, all 256x256 map type-byte pairs, all 256 list/set type bytes, i64/double: all 64 single-bit, 63 adjacent-two-bit, byte-distinct, every 11-bit exponent x 3 mantissas, NaN payloads; string lengths 0..300, 4080..4110, 8180..8210, 16383,16384,65535,65536,70000; container sizes at every power of two +-1 up to 2^31-1; (thorough) all 2^32 i32 values through the in-place/appending writers and buffer reader, and every 251st through the stream pair; distinct by construction")
	defer rec.Flush()
	var items []Item
	add := func(it Item) { items = append(items, it) }
	add(Item{K: "bool", U: 0})
	add(Item{K: "bool", U: 1})
	for i := 0; i < 256; i++ {
		add(Item{K: "i8", U: uint64(i)})
	}
	for i := 0; i < 65536; i++ {
		add(Item{K: "i16", U: uint64(i)})
	}
	for _, ty := range []int8{11, 12, -128, 127} {
		for i := 0; i < 65536; i++ {
			add(Item{K: "field", T1: ty, ID: int16(i)})
		}
	}
	for ty := -128; ty <= 127; ty++ {
		if ty != 0 {
			add(Item{K: "field", T1: int8(ty), ID: 0x0102})
		}
		add(Item{K: "list", T1: int8(ty), Sz: 0x01020304})
		add(Item{K: "set", T1: int8(ty), Sz: 3})
		for t2 := -128; t2 <= 127; t2++ {
			add(Item{K: "map", T1: int8(ty), T2: int8(t2), Sz: 0x0a0b0c0d})
		}
	}
	add(Item{K: "stop"})
	for _, k := range []string{"i64", "double"} {
		for b := 0; b < 64; b++ {
			add(Item{K: k, U: 1 << uint(b)})
			if b < 63 {
				add(Item{K: k, U: 3 << uint(b)})
			}
		}
		add(Item{K: k, U: 0x0102030405060708})
		add(Item{K: k, U: 0xf1f2f3f4f5f6f7f8})
		for e := uint64(0); e < 2048; e++ {
			for _, m := range []uint64{0, 1, 0x000fffffffffffff} {
				add(Item{K: k, U: e<<52 | m})
				add(Item{K: k, U: 1<<63 | e<<52 | m})
			}
		}
		for p := uint64(1); p < 1<<51; p <<= 3 {
			add(Item{K: k, U: 0x7ff0000000000000 | p}) // signalling NaN payloads
			add(Item{K: k, U: 0x7ff8000000000000 | p}) // quiet NaN payloads
		}
	}
	for _, u := range []uint64{0, 1, 0x7f, 0x80, 0xff, 0x100, 0x7fff, 0x8000, 0xffff, 0x10000, 0x7fffffff, 0x80000000, 0xffffffff, 0x01020304} {
		add(Item{K: "i32", U: u})
	}
	var lens []int
	for n := 0; n <= 300; n++ {
		lens = append(lens, n)
	}
	for n := 4080; n <= 4110; n++ {
		lens = append(lens, n)
	}
	for n := 8180; n <= 8210; n++ {
		lens = append(lens, n)
	}
	lens = append(lens, 16383, 16384, 65535, 65536, 70000)
	for i, n := range lens {
		k := "string"
		if i%2 == 1 {
			k = "binary"
		}
		add(Item{K: k, SLen: n, Seed: byte(i)})
		if n >= 4080 && n < 9000 {
			add(Item{K: "binary", SLen: n, Seed: byte(i + 1)})
			add(Item{K: "string", SLen: n, Seed: byte(i + 2)})
		}
	}
	for b := uint(0); b < 31; b++ {
		for _, d := range []int{-1, 0, 1} {
			sz := (1 << b) + d
			if sz >= 0 && sz <= 0x7fffffff {
				add(Item{K: "list", T1: 11, Sz: sz})
				add(Item{K: "map", T1: 8, T2: 12, Sz: sz})
				add(Item{K: "set", T1: 3, Sz: sz})
			}
		}
	}
	add(Item{K: "map", T1: 11, T2: 11, Sz: 0x7fffffff})
	plans := []faultio.Plan{
		{Chunks: []int{1}}, {Chunks: []int{0}, WithData: true}, {Chunks: []int{3, 4096}, Zeros: []int{0, 1}},
		{Chunks: []int{4095}}, {Chunks: []int{4097, 1}, Zeros: []int{2}, WithData: true}, {Chunks: []int{7}},
	}
	const batch = 512
	nb := (len(items) + batch - 1) / batch
	var failed bool
	lock := make(chan struct{}, 1)
	parallelFor(nb, func(i int, b *evid.Batch) {
		if failed {
			return
		}
		hi := (i + 1) * batch
		if hi > len(items) {
			hi = len(items)
		}
		c := CodecCase{Items: items[i*batch : hi], Plan: plans[i%len(plans)], Prefix: []byte{0xAA, byte(i)}}
		c.Plan.ErrAt = -1
		// long strings: one plan with 1-byte chunks over 70000 bytes is slow but fine
		var cv cov
		v := checkCodec(c, &cv)
		b.Evals += int64(len(c.Items))
		b.Distinct += int64(len(c.Items))
		b.Nontrivial += int64(len(c.Items))
		for _, l := range cv.labels {
			b.Labels[l]++
		}
		if v != nil {
			lock <- struct{}{}
			if !failed {
				failed = true
				// narrow down to the single failing item for a small replay file
				for j := range c.Items {
					one := CodecCase{Items: c.Items[j : j+1], Plan: c.Plan, Prefix: c.Prefix}
					if vv := checkCodec(one, &cov{}); vv != nil {
						c, v = one, vv
						break
					}
				}
				failEnum(t, rec, "c01_codec_script", c, v)
			}
			<-lock
		}
	}, rec)
	rec.Sample(CodecCase{Items: []Item{items[300], items[len(items)-1]}, Plan: plans[4]})
	if evid.Thorough() && !failed {
		c01AllI32(t, rec)
	}
	rec.SetExhaustive()
}

// c01AllI32 runs all 2^32 i32 values through the in-place writer, the appending writer and the buffer
// reader, and every 251st value through the stream writer/reader pair.
func c01AllI32(t *testing.T, rec *evid.Recorder) {
	const blocks = 1 << 12 // each block covers 2^20 values
	var failed bool
	lock := make(chan struct{}, 1)
	parallelFor(blocks, func(bi int, b *evid.Batch) {
		if failed {
			return
		}
		x := thrift.Binary
		buf := make([]byte, 4)
		ap := make([]byte, 0, 8)
		var streamItems []Item
		base := uint32(bi) << 20
		for j := uint32(0); j < 1<<20; j++ {
			u := base | j
			v := int32(u)
			n := x.WriteI32(buf, v)
			ap = x.AppendI32(ap[:0], v)
			w0, w1, w2, w3 := byte(u>>24), byte(u>>16), byte(u>>8), byte(u)
			got, l, err := x.ReadI32(buf)
			if n != 4 || buf[0] != w0 || buf[1] != w1 || buf[2] != w2 || buf[3] != w3 ||
				len(ap) != 4 || ap[0] != w0 || ap[1] != w1 || ap[2] != w2 || ap[3] != w3 ||
				err != nil || l != 4 || got != v {
				lock <- struct{}{}
				if !failed {
					failed = true
					failEnum(t, rec, "c01_codec_script", CodecCase{Items: []Item{{K: "i32", U: uint64(u)}}, Plan: faultio.Plan{ErrAt: -1}}, evid.Failf("i32 0x%08x: in-place %x (n=%d) append %x read (%d,%d,%v)", u, buf, n, ap, got, l, err))
				}
				<-lock
				return
			}
			if u%251 == 0 {
				streamItems = append(streamItems, Item{K: "i32", U: uint64(u)})
			}
		}
		b.Evals += 1 << 20
		b.Distinct += 1 << 20
		b.Nontrivial += 1 << 20
		c := CodecCase{Items: streamItems, Plan: faultio.Plan{Chunks: []int{3, 4096, 1}, ErrAt: -1, WithData: bi%2 == 0}}
		if v := checkCodec(c, &cov{}); v != nil {
			lock <- struct{}{}
			if !failed {
				failed = true
				failEnum(t, rec, "c01_codec_script", c, v)
			}
			<-lock
		}
		b.Labels["i32_stream_pair_values"] += int64(len(streamItems))
	}, rec)
	rec.Label("i32_exhaustive_2^32", 1)
}
