package props

import (
	"bytes"
	"context"
	"errors"
	"fmt"
	"github.com/bytedance/gopkg/cloud/metainfo"
	"runtime/debug"
	"sort"
	"strings"
	"sync"
	"testing"

	"github.com/cloudwego/gopkg/bufiox"
	"github.com/cloudwego/gopkg/protocol/ttheader"
	"github.com/cloudwego/gopkg/verifharness/evid"
	"github.com/cloudwego/gopkg/verifharness/faultio"
	"github.com/cloudwego/gopkg/verifharness/guard"
	"github.com/cloudwego/gopkg/verifharness/ref"
	"pgregory.net/rapid"
)

// ---- shared ------------------------------------------------------------------------------------------

// PStr is a string given by length and pattern seed (arbitrary, mostly non-UTF-8 bytes).
type PStr struct {
	L   int    `json:"l"`
	S   byte   `json:"s,omitempty"`
	Lit string `json:"lit,omitempty"` // a literal text instead of the pattern (vocabulary of the package under test)
}

func (p PStr) String() string {
	if p.Lit != "" {
		return p.Lit
	}
	return string(patternBytes(p.S, p.L))
}

// tthValueVocabulary: values and keys the ttheader package itself names (frame types, string keys), plus
// a few conventional ones.
var tthValueVocabulary = []string{ttheader.FrameTypeMeta, ttheader.FrameTypeHeader, ttheader.FrameTypeData, ttheader.FrameTypeTrailer, "0", "5", "thrift", "grpc", "ttheader", "true"}
var tthKeyVocabulary = []string{ttheader.HeaderIDLServiceName, ttheader.HeaderTransRemoteAddr, ttheader.HeaderTransToCluster, ttheader.HeaderTransToIDC, ttheader.HeaderTransPerfTConnStart,
	ttheader.HeaderTransPerfTConnEnd, ttheader.HeaderTransPerfTSendStart, ttheader.HeaderTransPerfTRecvStart, ttheader.HeaderTransPerfTRecvEnd, ttheader.HeaderConnectionReadyToReset, ttheader.HeaderProcessAtTime,
	// keys that differ from a named key only in letter case, or by one character
	strings.ToLower(ref.ACLTokenKey), strings.ToUpper(ref.ACLTokenKey), strings.Title(strings.ToLower(ref.ACLTokenKey)), ref.ACLTokenKey + " ", ref.ACLTokenKey[1:], "ISN", "Rip", "k_processattime", "CRRST",
	// other spellings of the token key that exist around the library (metainfo prefixes, HTTP header form)
	"gdpr-token", "rpc-transit-gdpr-token", "rpc-persist-gdpr-token", "RPC_PERSIST_gdpr-token", "RPC_TRANSIT_GDPR_TOKEN", "rpc_transit_gdpr-token", "Rpc-Transit-Gdpr-Token", "RPC_TRANSIT_", "RPC_PERSIST_"}

func eqStrMap(a, b map[string]string) bool {
	if len(a) != len(b) {
		return false
	}
	for k, v := range a {
		if w, ok := b[k]; !ok || w != v {
			return false
		}
	}
	return true
}

func eqIntMap(a, b map[uint16]string) bool {
	if len(a) != len(b) {
		return false
	}
	for k, v := range a {
		if w, ok := b[k]; !ok || w != v {
			return false
		}
	}
	return true
}

func infoUnpadded(intKV map[uint16]string, strKV map[string]string) int {
	n := 2
	nstr := len(strKV)
	if v, ok := strKV[ref.ACLTokenKey]; ok {
		nstr--
		n += 3 + len(v)
	}
	if nstr > 0 {
		n += 3
		for k, v := range strKV {
			if k != ref.ACLTokenKey {
				n += 4 + len(k) + len(v)
			}
		}
	}
	if len(intKV) > 0 {
		n += 3
		for _, v := range intKV {
			n += 4 + len(v)
		}
	}
	return n
}

// ---- C06: encode/decode round trip and layout conformance -----------------------------------------

type TTHIntEntry struct {
	K uint16 `json:"k"`
	V PStr   `json:"v"`
}
type TTHStrEntry struct {
	K PStr `json:"k"`
	V PStr `json:"v"`
}

// TTHCase describes 1..3 frames written to one stream and read back.
type TTHCase struct {
	Flags     uint16        `json:"flags"`
	Seq       int32         `json:"seq"`
	Proto     byte          `json:"proto"`
	Int       []TTHIntEntry `json:"int,omitempty"`
	IntNonNil bool          `json:"int_nonnil,omitempty"`
	Str       []TTHStrEntry `json:"str,omitempty"`
	StrNonNil bool          `json:"str_nonnil,omitempty"`
	ACL       *PStr         `json:"acl,omitempty"`
	Steer     int           `json:"steer,omitempty"` // target unpadded info size, reached by an extra int entry (key 0xfffe)
	Payload   int           `json:"payload"`
	Frames    int           `json:"frames"`
	Writer    int           `json:"writer"` // 0 EncodeToBytes, 1 Encode over BytesWriter with prefix, 2 Encode over DefaultWriter
	Reader    int           `json:"reader"` // 0 DecodeFromBytes, 1 Decode over DefaultReader(ScriptReader)
	Plan      faultio.Plan  `json:"plan"`
}

func (c *TTHCase) params(frame int) ttheader.EncodeParam {
	p := ttheader.EncodeParam{Flags: ttheader.HeaderFlags(c.Flags), SeqID: c.Seq + int32(frame), ProtocolID: ttheader.ProtocolID(c.Proto)}
	if len(c.Int) > 0 || c.IntNonNil || c.Steer > 0 {
		p.IntInfo = map[uint16]string{}
	}
	for _, e := range c.Int {
		p.IntInfo[e.K] = e.V.String()
	}
	if len(c.Str) > 0 || c.StrNonNil || c.ACL != nil {
		p.StrInfo = map[string]string{}
	}
	for _, e := range c.Str {
		k := e.K.String()
		if k == ref.ACLTokenKey {
			continue
		}
		p.StrInfo[k] = e.V.String()
	}
	if c.ACL != nil {
		p.StrInfo[ref.ACLTokenKey] = c.ACL.String()
	}
	if c.Steer > 0 {
		delete(p.IntInfo, 0xfffe)
		p.IntInfo[0xfffe] = ""
		base := infoUnpadded(p.IntInfo, p.StrInfo)
		if l := c.Steer - base; l >= 0 && l <= 65535 {
			p.IntInfo[0xfffe] = string(patternBytes(0x33, l))
		}
	}
	return p
}

func payloadBytes(frame, n int) []byte {
	b := make([]byte, n)
	for i := range b {
		b[i] = byte(frame*53 + i*3 + i>>9 + 0x10)
	}
	return b
}

func checkTTHRoundTrip(c TTHCase, cv *cov) (v *evid.Violation) {
	if c.Frames < 1 {
		c.Frames = 1
	}
	if c.Frames > 3 || c.Payload < 0 || c.Payload > 1<<26 {
		return nil
	}
	if !ref.SupportedProto(c.Proto) {
		return nil // outside the property's domain ("supported protocol id")
	}
	// the context argument carries nothing the encoder or decoder may use: with values of the request-metadata
	// package in it (also under the names of the acl token) every frame must come out the same
	ctx := context.Background()
	switch (int(c.Seq) + c.Payload + len(c.Int)) % 3 {
	case 1:
		ctx = metainfo.WithValue(metainfo.WithPersistentValue(ctx, "gdpr-token", "from-context"), "gdpr-token", "transient-from-context")
		ctx = metainfo.WithPersistentValue(ctx, "k", "ctx-v")
	case 2:
		type ctxKey string
		ctx = context.WithValue(context.WithValue(ctx, ctxKey("gdpr-token"), "x"), ref.ACLTokenKey, "y") //nolint
	}
	var stream []byte
	type frameInfo struct {
		off, hlen int
		p         ttheader.EncodeParam
		payload   []byte
	}
	var frames []frameInfo
	encodeFailed := false
	var nearLimit, hasInfo bool
	body := func() {
		prefix := []byte{0xde, 0xad, 0xbe}
		var sink faultio.ScriptWriter
		var target []byte
		var bw bufiox.Writer
		retain := &faultio.RetainWriter{} // a writer that keeps WriteBinary payloads by reference until Flush
		switch c.Writer {
		case 1:
			target = append(make([]byte, 0, 64), prefix...)
			bw = bufiox.NewBytesWriter(&target)
		case 2:
			bw = bufiox.NewDefaultWriter(&sink)
		case 3:
			bw = retain
		}
		for fi := 0; fi < c.Frames; fi++ {
			p := c.params(fi)
			payload := payloadBytes(fi, c.Payload)
			unp := infoUnpadded(p.IntInfo, p.StrInfo)
			if unp >= 65536-8 && unp <= 65536+8 {
				nearLimit = true
			}
			if len(p.IntInfo) > 0 || len(p.StrInfo) > 0 {
				hasInfo = true
			}
			var frame []byte
			if c.Writer == 0 {
				buf, err := ttheader.EncodeToBytes(ctx, p)
				if err != nil {
					encodeFailed = true
					return
				}
				total := len(buf) + len(payload) - 4
				buf[0], buf[1], buf[2], buf[3] = byte(total>>24), byte(total>>16), byte(total>>8), byte(total)
				frames = append(frames, frameInfo{len(stream), len(buf), p, payload})
				frame = append(buf, payload...)
				stream = append(stream, frame...)
				continue
			}
			w0 := bw.WrittenLen()
			lenField, err := ttheader.Encode(ctx, p, bw)
			if err != nil {
				encodeFailed = true
				return
			}
			hl := bw.WrittenLen() - w0
			if len(lenField) != 4 {
				v = evid.Failf("Encode returned a total-length field of %d bytes", len(lenField))
				return
			}
			total := hl + len(payload) - 4
			lenField[0], lenField[1], lenField[2], lenField[3] = byte(total>>24), byte(total>>16), byte(total>>8), byte(total)
			if _, err := bw.WriteBinary(payload); err != nil {
				v = evid.Failf("WriteBinary(payload): %v", err)
				return
			}
			frames = append(frames, frameInfo{-1, hl, p, payload})
		}
		if c.Writer != 0 {
			if err := bw.Flush(); err != nil {
				v = evid.Failf("Flush: %v", err)
				return
			}
			if c.Writer == 1 {
				if !bytes.HasPrefix(target, prefix) {
					v = evid.Failf("bytes writer lost the prefix")
					return
				}
				stream = target[len(prefix):]
			} else if c.Writer == 3 {
				stream = retain.Out
			} else {
				stream = sink.Bytes()
			}
			off := 0
			for i := range frames {
				frames[i].off = off
				off += frames[i].hlen + len(frames[i].payload)
			}
			if off != len(stream) {
				v = evid.Failf("writer delivered %d bytes, frames account for %d", len(stream), off)
				return
			}
		}
		// (1) layout conformance of every frame, by the reference parser
		for i, fr := range frames {
			fb := stream[fr.off:]
			rf := ref.ParseFrame(fb)
			if !rf.OK {
				v = evid.Failf("frame %d: encoded frame does not follow the TTHeader layout: %s (header bytes %s)", i, rf.Why, hx(fb[:minInt(len(fb), fr.hlen)]))
				return
			}
			p := fr.p
			if rf.Flags != uint16(p.Flags) || rf.Seq != p.SeqID || rf.Proto != byte(p.ProtocolID) {
				v = evid.Failf("frame %d: layout fields flags=%#x seq=%d proto=%#x, parameters flags=%#x seq=%d proto=%#x", i, rf.Flags, rf.Seq, rf.Proto, uint16(p.Flags), p.SeqID, byte(p.ProtocolID))
				return
			}
			if rf.HeaderLen != fr.hlen {
				v = evid.Failf("frame %d: size field says header is %d bytes, the encoder wrote %d", i, rf.HeaderLen, fr.hlen)
				return
			}
			// entries: exactly the input pairs, each once (order free); ACL token only under its own id
			if len(rf.IntList) != len(p.IntInfo) || !eqIntMap(rf.Int, p.IntInfo) {
				v = evid.Failf("frame %d: integer key/values on the wire (%d entries) differ from the parameters (%d entries)", i, len(rf.IntList), len(p.IntInfo))
				return
			}
			wantStr := map[string]string{}
			for k, val := range p.StrInfo {
				if k != ref.ACLTokenKey {
					wantStr[k] = val
				}
			}
			gotStr := map[string]string{}
			for _, e := range rf.StrList {
				gotStr[e.K] = e.V
			}
			if len(rf.StrList) != len(wantStr) || !eqStrMap(gotStr, wantStr) {
				v = evid.Failf("frame %d: string key/values on the wire (%d entries) differ from the parameters (%d entries, ACL token excluded)", i, len(rf.StrList), len(wantStr))
				return
			}
			if tok, ok := p.StrInfo[ref.ACLTokenKey]; ok {
				if len(rf.ACL) != 1 || rf.ACL[0] != tok {
					v = evid.Failf("frame %d: ACL token must be written once under info id 0x11, found %d ACL sections", i, len(rf.ACL))
					return
				}
			} else if len(rf.ACL) != 0 {
				v = evid.Failf("frame %d: an ACL section was written without an ACL token parameter", i)
				return
			}
			unp := infoUnpadded(p.IntInfo, p.StrInfo) + rf.NTransf
			pad := fr.hlen - 14 - unp
			if pad < 0 || pad > 3 {
				v = evid.Failf("frame %d: info area is %d bytes for %d bytes of content (padding %d not in 0..3)", i, fr.hlen-14, unp, pad)
				return
			}
			for j := 14 + unp; j < fr.hlen; j++ {
				if fb[j] != 0 {
					v = evid.Failf("frame %d: padding byte at header offset %d is %#x, not zero", i, j, fb[j])
					return
				}
			}
			if (fr.hlen-14)%4 != 0 {
				v = evid.Failf("frame %d: info size %d is not a multiple of 4", i, fr.hlen-14)
				return
			}
			if !ttheader.IsTTHeader(fb) {
				v = evid.Failf("frame %d: IsTTHeader is false on an encoded frame", i)
				return
			}
			if got, want := ttheader.IsStreaming(fb), uint16(p.Flags)&2 != 0; got != want {
				v = evid.Failf("frame %d: IsStreaming=%v with flags %#x", i, got, uint16(p.Flags))
				return
			}
		}
		// (2) decode back
		var r bufiox.Reader
		if c.Reader == 1 {
			r = bufiox.NewDefaultReader(faultio.NewScriptReader(stream, c.Plan))
		}
		for i, fr := range frames {
			var dp ttheader.DecodeParam
			var err error
			consumed := -1
			if c.Reader == 0 {
				dp, err = ttheader.DecodeFromBytes(ctx, stream[fr.off:])
			} else {
				r0 := r.ReadLen()
				dp, err = ttheader.Decode(ctx, r)
				consumed = r.ReadLen() - r0
			}
			p := fr.p
			if err != nil {
				v = evid.Failf("frame %d: a frame produced by Encode (header %d bytes, info content %d bytes) fails to decode: %v", i, fr.hlen, infoUnpadded(p.IntInfo, p.StrInfo), err)
				return
			}
			if dp.Flags != p.Flags || dp.SeqID != p.SeqID || dp.ProtocolID != p.ProtocolID {
				v = evid.Failf("frame %d: decoded flags/seq/protocol %#x/%d/%#x differ from %#x/%d/%#x", i, dp.Flags, dp.SeqID, dp.ProtocolID, p.Flags, p.SeqID, p.ProtocolID)
				return
			}
			if !eqIntMap(dp.IntInfo, p.IntInfo) {
				v = evid.Failf("frame %d: decoded IntInfo (%d entries) differs from the encoded one (%d entries)", i, len(dp.IntInfo), len(p.IntInfo))
				return
			}
			if !eqStrMap(dp.StrInfo, p.StrInfo) {
				v = evid.Failf("frame %d: decoded StrInfo (%d entries) differs from the encoded one (%d entries)", i, len(dp.StrInfo), len(p.StrInfo))
				return
			}
			if dp.HeaderLen != fr.hlen {
				v = evid.Failf("frame %d: decoded HeaderLen=%d, the encoder wrote %d bytes", i, dp.HeaderLen, fr.hlen)
				return
			}
			if consumed >= 0 && consumed != fr.hlen {
				v = evid.Failf("frame %d: Decode consumed %d bytes (ReadLen), the header has %d", i, consumed, fr.hlen)
				return
			}
			if dp.PayloadLen != len(fr.payload) {
				v = evid.Failf("frame %d: decoded PayloadLen=%d, payload has %d bytes", i, dp.PayloadLen, len(fr.payload))
				return
			}
			if c.Reader == 1 {
				pb, err := r.Next(dp.PayloadLen)
				if err != nil || !bytes.Equal(pb, fr.payload) {
					v = evid.Failf("frame %d: reading PayloadLen=%d bytes after the header does not yield the payload (err=%v)", i, dp.PayloadLen, err)
					return
				}
				if i%2 == 1 {
					r.Release(releaseArg(i / 2))
				}
			} else if !bytes.Equal(stream[fr.off+dp.HeaderLen:fr.off+dp.HeaderLen+dp.PayloadLen], fr.payload) {
				v = evid.Failf("frame %d: HeaderLen/PayloadLen do not delimit the payload", i)
				return
			}
		}
		if c.Reader == 1 {
			if _, err := r.Next(1); err == nil {
				v = evid.Failf("reader is not at the end of the stream after the last frame")
				return
			}
		}
		// decoded parameters are values of their own: they must survive Release of the reader and reuse of the input
		var kept []ttheader.DecodeParam
		var r2 bufiox.Reader
		cp := append([]byte(nil), stream...)
		if c.Reader == 1 {
			r2 = bufiox.NewDefaultReader(faultio.NewScriptReader(cp, faultio.Plan{Chunks: []int{0}, ErrAt: -1}))
		}
		for _, fr := range frames {
			var dp ttheader.DecodeParam
			var err error
			if c.Reader == 0 {
				dp, err = ttheader.DecodeFromBytes(ctx, cp[fr.off:])
			} else {
				dp, err = ttheader.Decode(ctx, r2)
				if err == nil {
					_, err = r2.Next(dp.PayloadLen)
				}
				r2.Release(nil)
			}
			if err != nil {
				v = evid.Failf("second decode pass failed: %v", err)
				return
			}
			kept = append(kept, dp)
		}
		for i := range cp {
			cp[i] = 0xEE
		}
		for i, fr := range frames {
			if !eqIntMap(kept[i].IntInfo, fr.p.IntInfo) || !eqStrMap(kept[i].StrInfo, fr.p.StrInfo) {
				v = evid.Failf("frame %d: the decoded maps changed after the reader was released / the input buffer was reused (they are views of the buffer, not values)", i)
				return
			}
		}
	}
	if p, st := evid.Safe(body); p != nil {
		return &evid.Violation{Msg: fmt.Sprintf("panic: %v", p), Stack: st}
	}
	if v != nil {
		return v
	}
	cv.labelIf(encodeFailed, "encode_error")
	cv.labelIf(!encodeFailed, "round_trip_ok")
	cv.labelIf(nearLimit, "info_size_within_8_of_65536")
	cv.labelIf(c.ACL != nil, "acl_token")
	cv.labelIf(c.Frames > 1, "multi_frame")
	cv.label(fmt.Sprintf("writer_%d_reader_%d", c.Writer, c.Reader))
	if !encodeFailed && len(frames) > 0 {
		cv.label(fmt.Sprintf("pad_residue_%d", (frames[0].hlen - 14 - infoUnpadded(frames[0].p.IntInfo, frames[0].p.StrInfo))))
	}
	cv.nontrivial = !encodeFailed && hasInfo && c.Payload > 0
	return nil
}

func minInt(a, b int) int {
	if a < b {
		return a
	}
	return b
}

func init() { register("c06_tth_roundtrip", checkTTHRoundTrip) }

func genPStr(t *rapid.T, label string, big bool) PStr {
	k := rapid.IntRange(0, 22).Draw(t, label+"k")
	var l int
	switch {
	case k >= 20:
		if label == "sk" {
			return PStr{Lit: rapid.SampledFrom(tthKeyVocabulary).Draw(t, label+"voc")}
		}
		return PStr{Lit: rapid.SampledFrom(tthValueVocabulary).Draw(t, label+"voc")}
	case k < 3:
		l = 0
	case k < 14:
		l = rapid.IntRange(1, 24).Draw(t, label+"l")
	case k < 18:
		l = rapid.IntRange(25, 400).Draw(t, label+"l")
	default:
		if big {
			l = rapid.SampledFrom([]int{4096, 20000, 65535, 65536 - 20, 30000}).Draw(t, label+"l")
		} else {
			l = rapid.IntRange(25, 400).Draw(t, label+"l")
		}
	}
	return PStr{L: l, S: rapid.Byte().Draw(t, label+"s")}
}

func genTTHCase(t *rapid.T) TTHCase {
	c := TTHCase{
		Flags: rapid.OneOf(rapid.Uint16(), rapid.SampledFrom([]uint16{0, 1, 2, 3, 8, 0x10, 0xffff, 0x8000})).Draw(t, "flags"),
		Seq:   rapid.OneOf(rapid.Int32(), rapid.SampledFrom([]int32{0, 1, -1, 0x7fffffff, -0x80000000, 0x7ffffffe})).Draw(t, "seq"),
		Proto: rapid.SampledFrom([]byte{0, 3, 4, 0x10, 0x11}).Draw(t, "proto"),
	}
	ni := rapid.SampledFrom([]int{0, 0, 0, 1, 1, 2, 2, 3, 3, 8, 8, 30, 30, 255, 256, 257, 1000}).Draw(t, "ni")
	for i := 0; i < ni; i++ {
		if ni > 30 {
			c.Int = append(c.Int, TTHIntEntry{K: uint16(i * 7), V: PStr{L: i % 4, S: byte(i)}})
			continue
		}
		c.Int = append(c.Int, TTHIntEntry{K: rapid.OneOf(rapid.Uint16(), rapid.Uint16Range(0, 30)).Draw(t, "ik"), V: genPStr(t, "iv", i == 0)})
	}
	c.IntNonNil = rapid.Bool().Draw(t, "intNonNil")
	ns := rapid.SampledFrom([]int{0, 0, 0, 1, 1, 2, 2, 3, 3, 8, 8, 30, 30, 255, 256, 257, 1000}).Draw(t, "ns")
	for i := 0; i < ns; i++ {
		if ns > 30 {
			c.Str = append(c.Str, TTHStrEntry{K: PStr{L: 3 + i/250, S: byte(i)}, V: PStr{L: i % 3, S: byte(i)}})
			continue
		}
		c.Str = append(c.Str, TTHStrEntry{K: genPStr(t, "sk", false), V: genPStr(t, "sv", i == 0)})
	}
	c.StrNonNil = rapid.Bool().Draw(t, "strNonNil")
	if rapid.IntRange(0, 2).Draw(t, "acl") == 0 {
		a := genPStr(t, "acl", false)
		c.ACL = &a
	}
	switch rapid.IntRange(0, 5).Draw(t, "steer") {
	case 0:
		c.Steer = rapid.IntRange(65500, 65560).Draw(t, "steerTo")
	case 1:
		c.Steer = rapid.IntRange(10, 80).Draw(t, "steerTo")
	}
	c.Payload = rapid.OneOf(rapid.IntRange(0, 64), rapid.IntRange(0, 5000), rapid.SampledFrom([]int{0, 4095, 4096, 8192, 70000})).Draw(t, "payload")
	c.Frames = rapid.SampledFrom([]int{1, 1, 2, 3}).Draw(t, "frames")
	c.Writer = rapid.SampledFrom([]int{0, 1, 2, 2, 3}).Draw(t, "writer")
	c.Reader = rapid.IntRange(0, 1).Draw(t, "reader")
	c.Plan = genPlan(t, 0)
	c.Plan.ErrAt = -1
	return c
}

func TestC06_Random(t *testing.T) {
	rec := evid.New("C06", "c06_random", "rapid: header parameter sets (any flags/seq, supported protocol ids, 0..30 int and string entries with empty/short/long/64KiB-scale pattern strings, ACL token, nil vs empty maps, an extra entry solved so that the info size lands on a target in 65500..65560 or 10..80) x payload 0..70000 x 1..3 frames per stream x 3 writers x 2 readers under generated fragmentation; oracle = reference layout parser + round trip; non-trivial = successful round trip with >= 1 info entry and a non-empty payload")
	defer rec.Flush()
	runRapid(t, rec, "c06_tth_roundtrip", evid.Pick(20000, 150000), genTTHCase, checkTTHRoundTrip)
}

func TestC06_Exhaustive(t *testing.T) {
	rec := evid.New("C06", "c06_exhaustive", "enumeration: all 65536 flag values (small fixed info, 2 writers x 2 readers alternating); every unpadded info size 2..400 and 65440..65560 (every padding residue, at/under/over the 65536 limit) x 3 writers x 2 readers; distinct by construction")
	defer rec.Flush()
	var failed bool
	lock := make(chan struct{}, 1)
	run := func(c TTHCase, b *evid.Batch) {
		if failed {
			return
		}
		var cv cov
		v := checkTTHRoundTrip(c, &cv)
		b.Evals++
		b.Distinct++
		if cv.nontrivial {
			b.Nontrivial++
		}
		for _, l := range cv.labels {
			b.Labels[l]++
		}
		if v != nil {
			lock <- struct{}{}
			if !failed {
				failed = true
				failEnum(t, rec, "c06_tth_roundtrip", c, v)
			}
			<-lock
		}
	}
	parallelFor(65536, func(i int, b *evid.Batch) {
		run(TTHCase{Flags: uint16(i), Seq: int32(i * 65537), Proto: []byte{0, 3, 4, 0x10, 0x11}[i%5], Int: []TTHIntEntry{{K: uint16(i), V: PStr{L: i % 7, S: byte(i)}}},
			Payload: i % 5, Frames: 1, Writer: i % 4, Reader: (i / 3) % 2, Plan: faultio.Plan{Chunks: []int{1 + i%9}, ErrAt: -1}}, b)
	}, rec)
	var sizes []int
	for s := 9; s <= 400; s++ {
		sizes = append(sizes, s)
	}
	for s := 65440; s <= 65560; s++ {
		sizes = append(sizes, s)
	}
	parallelFor(len(sizes), func(i int, b *evid.Batch) {
		for w := 0; w < 3; w++ {
			for r := 0; r < 2; r++ {
				run(TTHCase{Flags: 2, Seq: 7, Proto: 0, Steer: sizes[i], Payload: 10, Frames: 2, Writer: w, Reader: r, Plan: faultio.Plan{Chunks: []int{4096, 1}, ErrAt: -1, WithData: true}}, b)
			}
		}
	}, rec)
	rec.Sample(TTHCase{Flags: 2, Seq: 7, Steer: 65536, Payload: 10, Frames: 2, Writer: 2, Reader: 1})
	rec.SetExhaustive()
}

// TestC06_HugePayload: frames whose payload is 4..32 MiB, written behind the header through the same writer.
func TestC06_HugePayload(t *testing.T) {
	rec := evid.New("C06", "c06_huge_payload", "enumeration: payload sizes {2^k-30, 2^k, 2^k+1 : k = 22..25} x 3 writers x 2 readers, small info section, 1 MiB source chunks; the whole frame (header + payload) is buffered in the writer before Flush; run one at a time; distinct by construction")
	defer rec.Flush()
	bt := evid.NewBatch()
	shard, nshards := evid.Shard()
	idx := 0
	for k := 22; k <= 25; k++ {
		for _, d := range []int{-30, 0, 1} {
			for w := 0; w < 3; w++ {
				idx++
				if idx%nshards != shard {
					continue
				}
				c := TTHCase{Flags: 0, Seq: int32(k), Proto: 0, Int: []TTHIntEntry{{K: 9, V: PStr{Lit: "method"}}}, Payload: 1<<k + d, Frames: 1, Writer: w, Reader: (k + w) % 2, Plan: faultio.Plan{Chunks: []int{1 << 20}, ErrAt: -1}}
				var cv cov
				v := checkTTHRoundTrip(c, &cv)
				bt.Evals++
				bt.Distinct++
				bt.Nontrivial++
				if v != nil {
					failEnum(t, rec, "c06_tth_roundtrip", c, v)
					rec.Merge(bt)
					return
				}
			}
		}
		debug.FreeOSMemory()
	}
	rec.Merge(bt)
	rec.Sample(TTHCase{Proto: 0, Int: []TTHIntEntry{{K: 9, V: PStr{Lit: "method"}}}, Payload: 1<<24 + 1, Frames: 1, Writer: 1})
	rec.SetExhaustive()
}

// TestC06_Vocabulary: header parameter sets built from the constants the package itself names.
func TestC06_Vocabulary(t *testing.T) {
	rec := evid.New("C06", "c06_vocabulary", "enumeration: flags {0, streaming, out-of-order, duplex-reverse, SASL, streaming|out-of-order} x the 5 supported protocol ids x int info {none, empty map, one entry (k, v) for every key k = 0..29 (all named uint16 keys incl. FrameType, and two beyond) and v in {\"\", the four frame-type values, \"0\"}, FrameType = v together with a second named key} x string info {nil, empty, one named string key; keys that differ from the acl-token key in letter case or by one character, with and without a real token} x 3 writers alternating 2 readers; distinct by construction")
	defer rec.Flush()
	flags := []uint16{0, uint16(ttheader.HeaderFlagsStreaming), uint16(ttheader.HeaderFlagSupportOutOfOrder), uint16(ttheader.HeaderFlagDuplexReverse), uint16(ttheader.HeaderFlagSASL), uint16(ttheader.HeaderFlagsStreaming | ttheader.HeaderFlagSupportOutOfOrder)}
	protos := []byte{byte(ttheader.ProtocolIDThriftBinary), byte(ttheader.ProtocolIDThriftCompactV2), byte(ttheader.ProtocolIDKitexProtobuf), byte(ttheader.ProtocolIDThriftStruct), byte(ttheader.ProtocolIDProtobufStruct)}
	vals := []string{"", ttheader.FrameTypeMeta, ttheader.FrameTypeHeader, ttheader.FrameTypeData, ttheader.FrameTypeTrailer, "0"}
	type intSet struct {
		entries []TTHIntEntry
		nonNil  bool
	}
	lit := func(v string) PStr {
		if v == "" {
			return PStr{}
		}
		return PStr{Lit: v}
	}
	var ints []intSet
	ints = append(ints, intSet{}, intSet{nonNil: true})
	for k := uint16(0); k < 30; k++ {
		for _, v := range vals {
			ints = append(ints, intSet{entries: []TTHIntEntry{{K: k, V: lit(v)}}})
		}
	}
	for _, v := range vals {
		ints = append(ints, intSet{entries: []TTHIntEntry{{K: ttheader.FrameType, V: lit(v)}, {K: ttheader.ToMethod, V: PStr{Lit: "method"}}}})
		ints = append(ints, intSet{entries: []TTHIntEntry{{K: ttheader.FrameType, V: lit(v)}, {K: ttheader.MsgType, V: PStr{Lit: "1"}}}})
	}
	type job struct {
		f  uint16
		p  byte
		is intSet
		sm int
	}
	var jobs []job
	for _, f := range flags {
		for _, p := range protos {
			for _, is := range ints {
				for sm := 0; sm < 3; sm++ {
					jobs = append(jobs, job{f, p, is, sm})
				}
				if len(is.entries) == 0 && !is.nonNil {
					// string keys that look like the acl-token key (letter case, one character more or less),
					// with and without a real acl token next to them
					for sm := 3; sm < 3+2*5; sm++ {
						jobs = append(jobs, job{f, p, is, sm})
					}
				}
			}
		}
	}
	var failed bool
	lock := make(chan struct{}, 1)
	parallelFor(len(jobs), func(i int, b *evid.Batch) {
		if failed {
			return
		}
		j := jobs[i]
		c := TTHCase{Flags: j.f, Seq: int32(i), Proto: j.p, Int: j.is.entries, IntNonNil: j.is.nonNil, Payload: i % 7, Frames: 1 + i%2, Writer: i % 4, Reader: (i / 3) % 2, Plan: faultio.Plan{Chunks: []int{1 + i%11}, ErrAt: -1}}
		switch j.sm {
		case 1:
			c.StrNonNil = true
		case 2:
			c.Str = []TTHStrEntry{{K: PStr{Lit: tthKeyVocabulary[i%len(tthKeyVocabulary)]}, V: PStr{Lit: "v"}}}
		case 0:
		default:
			alike := []string{strings.ToLower(ref.ACLTokenKey), strings.ToUpper(ref.ACLTokenKey), strings.Title(strings.ToLower(ref.ACLTokenKey)), ref.ACLTokenKey + " ", ref.ACLTokenKey[1:]}
			c.Str = []TTHStrEntry{{K: PStr{Lit: alike[(j.sm-3)%5]}, V: PStr{Lit: "look-alike"}}}
			if (j.sm-3)/5 == 1 {
				c.ACL = &PStr{Lit: "real-token"}
			}
		}
		var cv cov
		v := checkTTHRoundTrip(c, &cv)
		b.Evals++
		b.Distinct++
		if cv.nontrivial {
			b.Nontrivial++
		}
		for _, l := range cv.labels {
			b.Labels[l]++
		}
		if v != nil {
			lock <- struct{}{}
			if !failed {
				failed = true
				failEnum(t, rec, "c06_tth_roundtrip", c, v)
			}
			<-lock
		}
	}, rec)
	rec.Sample(TTHCase{Flags: 2, Proto: 0x11, Int: []TTHIntEntry{{K: ttheader.FrameType, V: PStr{Lit: "3"}}}, Payload: 3, Frames: 1})
	rec.SetExhaustive()
}

// ---- C10: hostile frames ----------------------------------------------------------------------------

var twoFramesOnce struct {
	sync.Once
	b []byte
}

// twoFrames returns a fresh copy of a buffer holding two complete frames back to back (the first without payload).
func twoFrames() []byte {
	twoFramesOnce.Do(func() {
		for i := 0; i < 2; i++ {
			f := buildFrame(0, 0, int32(40+i), 0, nil, []tthSection{{id: 0x10, count: 1, ints: []ref.IntKV{{K: 9, V: "m"}}}}, nil)
			if i == 1 {
				f = append(f, 1, 2, 3) // only the second frame has a payload: what follows the first header is a frame
			}
			total := uint32(len(f) - 4)
			f[0], f[1], f[2], f[3] = byte(total>>24), byte(total>>16), byte(total>>8), byte(total)
			twoFramesOnce.b = append(twoFramesOnce.b, f...)
		}
	})
	return append([]byte(nil), twoFramesOnce.b...)
}

// TTHFrameCase is an arbitrary byte string given to the TTHeader decoders.
type TTHFrameCase struct {
	Data evid.Hex     `json:"data"`
	Plan faultio.Plan `json:"plan"`
	Op   string       `json:"op,omitempty"`
}

func checkTTHDecode(c TTHFrameCase, cv *cov) *evid.Violation {
	in := []byte(c.Data)
	rf := ref.ParseFrame(in)
	ctx := context.Background()
	declared := 0
	if rf.MetaOK {
		declared = rf.HeaderLen - 14
	}
	// the exported magic predicates look at bytes 4..7 only: any prefix of at least 8 bytes must give the
	// same answer, and that answer is "bytes 4 and 5 are 0x10 0x00" (and, for IsStreaming, flag bit 1)
	// IsStreaming guards its own length: every prefix shorter than 8 bytes must be answered (with anything) and
	// not panic; in guard-page memory, so that a read beyond the prefix faults
	for k := 0; k < 8 && k <= len(in); k++ {
		ar := guard.Get(k)
		pre := ar.Right(in[:k])
		p, st := safeFault(func() { _ = ttheader.IsStreaming(pre) })
		guard.Put(ar)
		if p != nil {
			return &evid.Violation{Msg: fmt.Sprintf("IsStreaming panicked on the %d-byte prefix %s: %v", k, hx(in[:k]), p), Stack: st}
		}
	}
	if len(in) >= 8 {
		wantMagic := in[4] == 0x10 && in[5] == 0x00
		wantStreaming := wantMagic && in[7]&0x02 != 0
		for _, k := range []int{8, 9, 13, 14, len(in)} {
			if k > len(in) {
				continue
			}
			var gotM, gotS bool
			if p, st := evid.Safe(func() { gotM, gotS = ttheader.IsTTHeader(in[:k:k]), ttheader.IsStreaming(in[:k:k]) }); p != nil {
				return &evid.Violation{Msg: fmt.Sprintf("IsTTHeader/IsStreaming panicked on a %d-byte prefix: %v", k, p), Stack: st}
			}
			if gotM != wantMagic || gotS != wantStreaming {
				return evid.Failf("IsTTHeader/IsStreaming on the first %d bytes %s = %v/%v, the magic bytes say %v/%v", k, hx(in[:k]), gotM, gotS, wantMagic, wantStreaming)
			}
		}
	}
	arena := guard.Get(len(in))
	defer guard.Put(arena)
	type res struct {
		dp          ttheader.DecodeParam
		err         error
		readLen     int
		textChanged string
	}
	for variant := 0; variant < 7; variant++ {
		var r res
		r.readLen = -1
		if (variant == 4 || variant == 5) && !rf.OK {
			continue
		}
		name := ""
		p, st := safeFault(func() {
			switch variant {
			case 6:
				// history: the previous call decoded a buffer that holds a complete frame followed by more bytes
				// (a second frame); this call gets a buffer of exactly its own bytes (nil when empty)
				name = "DecodeFromBytes right after a DecodeFromBytes call that left unread bytes behind its frame"
				if _, perr := ttheader.DecodeFromBytes(ctx, twoFrames()); perr != nil {
					panic(fmt.Sprintf("harness: the two-frame buffer does not decode: %v", perr))
				}
				var own []byte
				if len(in) > 0 {
					own = append(make([]byte, 0, len(in)), in...)
				} else if c.Plan.WithData {
					own = []byte{}
				}
				r.dp, r.err = ttheader.DecodeFromBytes(ctx, own)
			case 5:
				// decode the same bytes three times and scribble over the maps of the earlier results: every
				// decode must hand out maps of its own
				name = "third DecodeFromBytes of the same frame after the earlier results were modified"
				for k := 0; k < 3; k++ {
					r.dp, r.err = ttheader.DecodeFromBytes(ctx, in)
					if r.err != nil || k == 2 {
						break
					}
					for key := range r.dp.StrInfo {
						r.dp.StrInfo[key] = "scribbled"
					}
					if r.dp.StrInfo != nil {
						r.dp.StrInfo["verif-extra"] = "x"
					}
					for key := range r.dp.IntInfo {
						delete(r.dp.IntInfo, key)
					}
					if r.dp.IntInfo != nil {
						r.dp.IntInfo[0xabcd] = "x"
					}
				}
			case 4:
				// the decoded maps must be values of their own: overwrite the input afterwards
				name = "DecodeFromBytes followed by overwriting the input"
				cp := append([]byte(nil), in...)
				r.dp, r.err = ttheader.DecodeFromBytes(ctx, cp)
				for i := range cp {
					cp[i] = 0xEE
				}
			case 0:
				name = "DecodeFromBytes (guard page after the input)"
				r.dp, r.err = ttheader.DecodeFromBytes(ctx, arena.Right(in))
			case 1:
				name = "DecodeFromBytes (guard page before the input)"
				r.dp, r.err = ttheader.DecodeFromBytes(ctx, arena.Left(in))
			case 2:
				// the frame does not start at read offset 0: 5 bytes were consumed before, without a Release
				name = "Decode over a bytes reader at read offset 5"
				br := bufiox.NewBytesReader(append([]byte{9, 9, 9, 9, 9}, in...))
				br.Next(5)
				r.dp, r.err = ttheader.Decode(ctx, br)
				r.readLen = br.ReadLen() - 5
			default:
				name = "Decode over a fragmented stream reader at read offset 3"
				br := bufiox.NewDefaultReader(faultio.NewScriptReader(append([]byte{7, 7, 7}, in...), c.Plan))
				br.Next(3)
				r.dp, r.err = ttheader.Decode(ctx, br)
				r.readLen = br.ReadLen() - 3
				if r.err != nil {
					// the error is a value of its own: what it says must not change when the reader is released
					// and its buffers are used by others
					t1 := r.err.Error()
					br.Release(nil)
					for _, sz := range []int{4096, 8192, 16384, 65536} {
						scr := bufiox.NewDefaultReader(bytes.NewReader(bytes.Repeat([]byte{0xEE}, sz)))
						scr.Next(sz)
						scr.Release(nil)
					}
					if t2 := r.err.Error(); t2 != t1 {
						r.textChanged = fmt.Sprintf("%q, and after the reader was released and its buffers reused: %q", clipStr(t1, 300), clipStr(t2, 300))
					}
				}
			}
		})
		if p != nil {
			return &evid.Violation{Msg: fmt.Sprintf("%s panicked: %v; input %s", name, p, hx(in)), Stack: st}
		}
		if r.textChanged != "" {
			return evid.Failf("%s: the text of the returned error changed: first %s; input %s", name, r.textChanged, hx(in))
		}
		if r.readLen >= 0 {
			if r.readLen > len(in) || r.readLen > 14+declared {
				return evid.Failf("%s consumed %d bytes; input has %d, 14 + declared header size is %d; input %s", name, r.readLen, len(in), 14+declared, hx(in))
			}
		}
		if (r.err == nil) != rf.OK {
			if rf.OK {
				return evid.Failf("%s rejected a frame the layout accepts: err=%v; input %s", name, r.err, hx(in))
			}
			return evid.Failf("%s accepted (HeaderLen=%d) a frame that must be rejected: %s; input %s", name, r.dp.HeaderLen, rf.Why, hx(in))
		}
		if r.err != nil {
			continue
		}
		dp := r.dp
		if dp.HeaderLen != rf.HeaderLen {
			return evid.Failf("%s: HeaderLen=%d, want 14 + 4*%d = %d; input %s", name, dp.HeaderLen, rf.SizeField, rf.HeaderLen, hx(in))
		}
		wantPL := int(int64(rf.Total) + 4 - int64(rf.HeaderLen))
		if dp.PayloadLen != wantPL {
			return evid.Failf("%s: PayloadLen=%d, want total(%d)+4-HeaderLen(%d)=%d; input %s", name, dp.PayloadLen, rf.Total, rf.HeaderLen, wantPL, hx(in))
		}
		if uint16(dp.Flags) != rf.Flags || dp.SeqID != rf.Seq || byte(dp.ProtocolID) != rf.Proto {
			return evid.Failf("%s: flags/seq/protocol %#x/%d/%#x, the frame says %#x/%d/%#x; input %s", name, uint16(dp.Flags), dp.SeqID, byte(dp.ProtocolID), rf.Flags, rf.Seq, rf.Proto, hx(in))
		}
		if !eqIntMap(dp.IntInfo, rf.Int) || !eqStrMap(dp.StrInfo, rf.Str) {
			return evid.Failf("%s: decoded maps (int %d, str %d entries) differ from the info sections (int %d, str %d); input %s", name, len(dp.IntInfo), len(dp.StrInfo), len(rf.Int), len(rf.Str), hx(in))
		}
		if r.readLen >= 0 && r.readLen != rf.HeaderLen {
			return evid.Failf("%s: consumed %d bytes on success, header is %d; input %s", name, r.readLen, rf.HeaderLen, hx(in))
		}
	}
	cv.labelIf(rf.OK, "accepted")
	cv.labelIf(!rf.OK, "rejected:"+rf.Why)
	cv.labelIf(c.Op != "", "op_"+c.Op)
	cv.nontrivial = rf.MetaOK && len(in) > 16
	cv.key = in
	return nil
}

func init() { register("c10_tth_decode", checkTTHDecode) }

// frame builder with explicit structure (may lie about counts and lengths)
type tthSection struct {
	id    byte
	count int // declared count for kv sections
	strs  []ref.StrKV
	ints  []ref.IntKV
	token string
	pad   int // padding bytes before the section
}

func buildFrame(total uint32, flags uint16, seq int32, proto byte, transforms []byte, secs []tthSection, marks *[]int) []byte {
	info := []byte{proto, byte(len(transforms))}
	info = append(info, transforms...)
	mark := func() {
		if marks != nil {
			*marks = append(*marks, 14+len(info))
		}
	}
	str := func(s string) {
		mark()
		info = ref.Put16(info, uint16(len(s)))
		info = append(info, s...)
	}
	for _, s := range secs {
		for i := 0; i < s.pad; i++ {
			info = append(info, 0)
		}
		mark()
		info = append(info, s.id)
		switch s.id {
		case 1:
			mark()
			info = ref.Put16(info, uint16(s.count))
			for _, e := range s.strs {
				str(e.K)
				str(e.V)
			}
		case 0x10:
			mark()
			info = ref.Put16(info, uint16(s.count))
			for _, e := range s.ints {
				mark()
				info = ref.Put16(info, e.K)
				str(e.V)
			}
		case 0x11:
			str(s.token)
		}
	}
	for len(info)%4 != 0 {
		info = append(info, 0)
	}
	b := ref.Put32(nil, total)
	b = append(b, 0x10, 0x00)
	b = ref.Put16(b, flags)
	b = ref.Put32(b, uint32(seq))
	b = ref.Put16(b, uint16(len(info)/4))
	return append(b, info...)
}

func genTTHFrameCase(t *rapid.T) TTHFrameCase {
	var c TTHFrameCase
	short := func(l string) string {
		return string(rapid.SliceOfN(rapid.Byte(), 0, 6).Draw(t, l))
	}
	var secs []tthSection
	nsec := rapid.IntRange(0, 5).Draw(t, "nsec")
	for i := 0; i < nsec; i++ {
		s := tthSection{id: rapid.SampledFrom([]byte{1, 1, 0x10, 0x10, 0x11}).Draw(t, "sid"), pad: rapid.SampledFrom([]int{0, 0, 0, 0, 1, 3, 4, 7, 8, 9, 16, 24, 32, 40}).Draw(t, "pad")}
		n := rapid.IntRange(0, 3).Draw(t, "n")
		for j := 0; j < n; j++ {
			key := short("k")
			switch rapid.IntRange(0, 11).Draw(t, "aclKey") {
			case 0, 1:
				key = ref.ACLTokenKey // the ACL token's map key written as an ordinary entry: order decides
			case 2:
				key = rapid.SampledFrom([]string{strings.ToLower(ref.ACLTokenKey), strings.ToUpper(ref.ACLTokenKey), strings.Title(strings.ToLower(ref.ACLTokenKey)), ref.ACLTokenKey + " ", ref.ACLTokenKey[1:]}).Draw(t, "alike")
			}
			s.strs = append(s.strs, ref.StrKV{K: key, V: short("v")})
			s.ints = append(s.ints, ref.IntKV{K: rapid.Uint16Range(0, 5).Draw(t, "ik"), V: short("iv")})
		}
		s.count = n
		if rapid.IntRange(0, 7).Draw(t, "lie") == 0 {
			s.count = rapid.SampledFrom([]int{0, n + 1, 0xffff, 1}).Draw(t, "liec")
		}
		s.token = short("tok")
		secs = append(secs, s)
	}
	var transforms []byte
	if rapid.IntRange(0, 5).Draw(t, "tr") == 0 {
		transforms = rapid.SliceOfN(rapid.Byte(), 1, 4).Draw(t, "transforms")
	}
	var marks []int
	total := rapid.OneOf(rapid.Uint32Range(0, 200), rapid.Uint32(), rapid.SampledFrom([]uint32{0x7fffffff, 0x80000000, 0xffffffff, 0x3fffffff})).Draw(t, "total")
	b := buildFrame(total, rapid.Uint16().Draw(t, "flags"), rapid.Int32().Draw(t, "seq"), rapid.SampledFrom([]byte{0, 0, 3, 4, 0x10, 0x11, 2, 1, 0xff}).Draw(t, "proto"), transforms, secs, &marks)
	c.Op = rapid.SampledFrom([]string{"none", "cut", "cut", "meta", "mark", "mark", "size", "byte", "tail", "uniform"}).Draw(t, "op")
	switch c.Op {
	case "cut":
		b = b[:rapid.IntRange(0, len(b)-1).Draw(t, "cutAt")]
	case "meta":
		i := rapid.SampledFrom([]int{4, 5, 12, 13, 14, 15}).Draw(t, "mi")
		if i < len(b) {
			b[i] = rapid.SampledFrom([]byte{0, 1, 2, 3, 4, 0x10, 0x11, 0x12, 0x3f, 0x40, 0x7f, 0x80, 0xff}).Draw(t, "mv")
		}
	case "mark":
		if len(marks) > 0 {
			i := marks[rapid.IntRange(0, len(marks)-1).Draw(t, "mk")]
			if rapid.Bool().Draw(t, "second") {
				i++
			}
			if i < len(b) {
				b[i] = rapid.SampledFrom([]byte{0, 1, 2, 0x10, 0x11, 0x12, 0x7f, 0x80, 0xff}).Draw(t, "mkv")
			}
		}
	case "size":
		v := rapid.SampledFrom([]int{0, 1, 2, len(b)/4 - 3, len(b)/4 - 4, len(b)/4 - 2, 0x3fff, 0x4000, 0x4001, 0x8000, 0xffff}).Draw(t, "sz")
		if v < 0 {
			v = 0
		}
		b[12], b[13] = byte(v>>8), byte(v)
	case "byte":
		if len(b) > 14 {
			b[rapid.IntRange(14, len(b)-1).Draw(t, "bi")] = rapid.Byte().Draw(t, "bv")
		}
	case "tail":
		b = append(b, rapid.SliceOfN(rapid.Byte(), 1, 20).Draw(t, "tail")...)
	case "uniform":
		n := rapid.IntRange(1, 10).Draw(t, "words") * 4
		b = append(b[:12], byte(n/4>>8), byte(n/4))
		b = append(b, rapid.SliceOfN(rapid.SampledFrom([]byte{0, 0, 1, 2, 0x10, 0x11, 0, 3, 'a', 0xff}), n, n).Draw(t, "info")...)
	}
	c.Data = b
	c.Plan = faultio.Plan{Chunks: rapid.SliceOfN(rapid.SampledFrom([]int{0, 1, 3, 14, 15}), 1, 2).Draw(t, "chunks"), Zeros: []int{rapid.IntRange(0, 1).Draw(t, "z")}, ErrAt: -1,
		WithData: rapid.Bool().Draw(t, "wd"), ErrKind: rapid.SampledFrom([]int{0, 2}).Draw(t, "ek")}
	return c
}

func TestC10_Random(t *testing.T) {
	rec := evid.New("C10", "c10_random", "rapid: frames built from an explicit structure (0..5 sections of ids 0x01/0x10/0x11 in any order, repeated, with interleaved padding, declared counts lying high/low, optional transforms, any total length/flags/seq, supported and unsupported protocol ids) then one operator: cut at any offset, meta byte (magic, size, protocol, transform count) replaced, structural byte at a section id/count/length mark replaced, size field replaced by a hostile constant, random byte, appended tail, uniform info bytes behind a valid meta; DecodeFromBytes in two guard-page placements, Decode over a bytes reader and over a fragmented stream; non-trivial = valid 14-byte meta and > 16 bytes")
	defer rec.Flush()
	runRapid(t, rec, "c10_tth_decode", evid.Pick(50000, 300000), genTTHFrameCase, checkTTHDecode)
}

func TestC10_Exhaustive(t *testing.T) {
	rec := evid.New("C10", "c10_exhaustive", "enumeration: all 65536 header-size field values x {input holds the full declared size (capped at 65536+8 bytes), holds only (4*size mod 65536) bytes, holds 14 bytes}; all 65536 flag values; all 256 protocol ids; all 256 info ids at the first section start (x 2 tails); all transform counts 0..255 (x 2 info sizes); distinct by construction")
	defer rec.Flush()
	var failed bool
	lock := make(chan struct{}, 1)
	run := func(data []byte, op string, b *evid.Batch) {
		if failed {
			return
		}
		c := TTHFrameCase{Data: data, Plan: faultio.Plan{Chunks: []int{0}, ErrAt: -1}, Op: op}
		var cv cov
		v := checkTTHDecode(c, &cv)
		b.Evals++
		b.Distinct++
		b.Nontrivial++
		for _, l := range cv.labels {
			b.Labels[l]++
		}
		if v != nil {
			lock <- struct{}{}
			if !failed {
				failed = true
				failEnum(t, rec, "c10_tth_decode", c, v)
			}
			<-lock
		}
	}
	meta := func(total uint32, flags uint16, size int) []byte {
		b := ref.Put32(nil, total)
		b = append(b, 0x10, 0x00)
		b = ref.Put16(b, flags)
		b = ref.Put32(b, 0x01020304)
		return ref.Put16(b, uint16(size))
	}
	parallelFor(65536, func(sz int, b *evid.Batch) {
		full := 4 * sz
		if full > 65536+8 {
			full = 65536 + 8
		}
		for _, n := range []int{full, (4 * sz) % 65536, 0} {
			d := meta(uint32(14+4*sz+6), 0, sz)
			info := make([]byte, n) // protocol 0, no transforms, rest padding
			run(append(d, info...), "size_sweep", b)
		}
	}, rec)
	parallelFor(65536, func(fl int, b *evid.Batch) {
		d := meta(100, uint16(fl), 1)
		run(append(d, 0, 0, 0, 0), "flags_sweep", b)
	}, rec)
	bt := evid.NewBatch()
	for p := 0; p < 256; p++ {
		d := meta(30, 0, 1)
		run(append(d, byte(p), 0, 0, 0), "protocol_sweep", bt)
		for _, tail := range [][]byte{{0, 0}, {0, 1, 'x', 0, 0}} {
			d := meta(30, 0, 2)
			info := append([]byte{0, 0, byte(p)}, tail...)
			for len(info) < 8 {
				info = append(info, 0)
			}
			run(append(d, info...), "infoid_sweep", bt)
		}
		for _, words := range []int{1, 64} {
			d := meta(30, 0, words)
			info := make([]byte, 4*words)
			info[1] = byte(p)
			run(append(d, info...), "transform_sweep", bt)
		}
	}
	rec.Merge(bt)
	rec.Sample(TTHFrameCase{Data: append(meta(100, 2, 0x4001), 0, 0, 0, 0), Op: "size_sweep"})
	rec.SetExhaustive()
}

var _ = sort.Strings

// TestC10_ManyKeys: frames with 1000 distinct 12-byte string keys each, decoded one after the other.
// TestC10_PaddingRuns: zero runs of every length 0..72 in front of every kind of section, at the start of
// the info area and behind another section.
func TestC10_PaddingRuns(t *testing.T) {
	rec := evid.New("C10", "c10_padding_runs", "enumeration: a run of 0..72 zero bytes (padding ids) in front of a section of each kind {string pairs, int pairs, acl token (empty and non-empty)}, with and without another section before the run and with 0..3 transform ids (so that the run starts at every alignment); decoded by all variants and compared with the reference parser; distinct by construction")
	defer rec.Flush()
	b := evid.NewBatch()
	kinds := []tthSection{
		{id: 1, count: 1, strs: []ref.StrKV{{K: "k", V: "v"}}},
		{id: 0x10, count: 1, ints: []ref.IntKV{{K: 5, V: "iv"}}},
		{id: 0x11, token: ""},
		{id: 0x11, token: "tok"},
	}
	for run := 0; run <= 72; run++ {
		for ki, k := range kinds {
			for lead := 0; lead < 2; lead++ {
				for ntr := 0; ntr < 4; ntr++ {
					var secs []tthSection
					if lead == 1 {
						secs = append(secs, tthSection{id: 0x10, count: 1, ints: []ref.IntKV{{K: 1, V: "x"}}})
					}
					sec := k
					sec.pad = run
					secs = append(secs, sec)
					frame := buildFrame(100, 0, int32(run), 0, make([]byte, ntr), secs, nil)
					c := TTHFrameCase{Data: append(frame, 9, 9, 9), Plan: faultio.Plan{Chunks: []int{1 + (run+ki)%9}, ErrAt: -1, WithData: run%2 == 0}}
					var cv cov
					v := checkTTHDecode(c, &cv)
					b.Evals++
					b.Distinct++
					if cv.nontrivial {
						b.Nontrivial++
					}
					if v != nil {
						failEnum(t, rec, "c10_tth_decode", c, v)
						rec.Merge(b)
						return
					}
				}
			}
		}
	}
	rec.Merge(b)
	rec.Sample(map[string]interface{}{"zero_run": 16, "then": "acl token section with an empty token"})
	rec.SetExhaustive()
}

func TestC10_ManyKeys(t *testing.T) {
	rec := evid.New("C10", "c10_many_keys", "frames carrying 1000 distinct 12-byte (and 7-byte) string keys (counter-valued) with 1-byte values, decoded one after the other by DecodeFromBytes; every key and value compared with the frame; distinct by construction")
	defer rec.Flush()
	total := evid.Pick(20_000_000, 80_000_000)
	shard, _ := evid.Shard()
	const per = 1000
	ctx := context.Background()
	b := evid.NewBatch()
	counter := shard * 7_000_003
	keyOf := func(x, kl int) []byte {
		k := make([]byte, kl)
		copy(k, "key-")
		for j := kl - 1; j >= 4; j-- {
			k[j] = byte('0' + x%10)
			x /= 10
		}
		return k
	}
	for done := 0; done < total; done += per {
		kl := 12
		if (done/per)%3 == 2 {
			kl = 11
		}
		info := []byte{0, 0, 1}
		info = ref.Put16(info, per)
		base := counter
		for i := 0; i < per; i++ {
			info = ref.Put16(info, uint16(kl))
			info = append(info, keyOf(counter, kl)...)
			info = ref.Put16(info, 1)
			info = append(info, byte('A'+counter%26))
			counter++
		}
		for len(info)%4 != 0 {
			info = append(info, 0)
		}
		frame := ref.Put32(nil, uint32(14+len(info)-4))
		frame = append(frame, 0x10, 0, 0, 0)
		frame = ref.Put32(frame, 1)
		frame = ref.Put16(frame, uint16(len(info)/4))
		frame = append(frame, info...)
		dp, err := ttheader.DecodeFromBytes(ctx, frame)
		bad := ""
		if err != nil || len(dp.StrInfo) != per {
			bad = fmt.Sprintf("err=%v, %d entries", err, len(dp.StrInfo))
		} else {
			for i := 0; i < per; i++ {
				k := string(keyOf(base+i, kl))
				if v, ok := dp.StrInfo[k]; !ok || v != string([]byte{byte('A' + (base+i)%26)}) {
					bad = fmt.Sprintf("key %q (key #%d of the run) is missing or has value %q", k, base+i, v)
					break
				}
			}
		}
		if bad != "" {
			failEnum(t, rec, "c10_tth_decode", TTHFrameCase{Data: frame}, evid.Failf("DecodeFromBytes of a frame with %d distinct %d-byte keys: %s", per, kl, bad))
			break
		}
		b.Evals += per
	}
	b.Distinct, b.Nontrivial = b.Evals, b.Evals
	rec.Merge(b)
	rec.Sample(map[string]interface{}{"keys": total, "per_frame": per, "key_length": 12})
}

// countingWriter is a bufiox.Writer that stores nothing: regions of up to 64 bytes get memory of their own
// (the encoder keeps some of them to fill in later), larger ones share one scratch buffer.
type countingWriter struct {
	n       int
	scratch []byte
}

func (w *countingWriter) Malloc(n int) ([]byte, error) {
	if n < 0 {
		return nil, errors.New("verif: negative count")
	}
	w.n += n
	if n <= 64 {
		return make([]byte, n), nil
	}
	if cap(w.scratch) < n {
		w.scratch = make([]byte, n)
	}
	return w.scratch[:n], nil
}
func (w *countingWriter) WriteBinary(bs []byte) (int, error) { w.n += len(bs); return len(bs), nil }
func (w *countingWriter) WrittenLen() int                    { return w.n }
func (w *countingWriter) Flush() error                       { return nil }

// OversizedInfoCase: info maps whose encoded size lies far beyond the 64 KiB header limit, chosen so that
// the size is close to a multiple of 2^32.
type OversizedInfoCase struct {
	Entries int  `json:"entries"` // number of int-keyed entries (<= 65536, distinct keys)
	ValLen  int  `json:"val_len"` // length of every value
	Str     bool `json:"str,omitempty"`
}

func checkOversizedInfo(c OversizedInfoCase, cv *cov) *evid.Violation {
	if c.Entries < 1 || c.Entries > 65536 || c.ValLen < 0 || c.ValLen > 65535 {
		return nil
	}
	val := string(patternBytes(7, c.ValLen))
	p := ttheader.EncodeParam{SeqID: 1}
	size := int64(2)
	if c.Str {
		p.StrInfo = make(map[string]string, c.Entries)
		for i := 0; i < c.Entries; i++ {
			p.StrInfo[fmt.Sprintf("k%05d", i)] = val
		}
		size += 3 + int64(c.Entries)*int64(2+6+2+c.ValLen)
	} else {
		p.IntInfo = make(map[uint16]string, c.Entries)
		for i := 0; i < c.Entries; i++ {
			p.IntInfo[uint16(i)] = val
		}
		size += 3 + int64(c.Entries)*int64(2+2+c.ValLen)
	}
	if size <= 65536 {
		return nil // not oversized: the round-trip check covers it
	}
	w := &countingWriter{}
	var err error
	if pn, st := evid.Safe(func() { _, err = ttheader.Encode(context.Background(), p, w) }); pn != nil {
		return &evid.Violation{Msg: fmt.Sprintf("Encode panicked on %d entries with %d-byte values: %v", c.Entries, c.ValLen, pn), Stack: st}
	}
	cv.nontrivial = size >= 1<<32
	cv.labelIf(size >= 1<<32, "info >= 2^32 bytes")
	cv.labelIf(size < 1<<32, "64 KiB < info < 2^32 bytes")
	if err == nil {
		return evid.Failf("Encode returned no error for %d entries with %d-byte values: the header info needs %d bytes (%d modulo 2^32), the limit is 65536; %d bytes were written, no frame with a 16-bit size field can describe them", c.Entries, c.ValLen, size, size%(1<<32), w.n)
	}
	return nil
}

func init() { register("c06_oversized_info", checkOversizedInfo) }

func TestC06_OversizedInfo(t *testing.T) {
	rec := evid.New("C06", "c06_oversized_info", "enumeration: info maps of 65536 int entries (and 65536 string entries) whose values have the length that puts the total info size at 2^32 + r for several small r (the size looks legal modulo 2^32), plus sizes of 70000 bytes, 1 MiB and 2^31; Encode writes into a counting writer (nothing is stored) and must return an error; distinct by construction")
	defer rec.Flush()
	cases := []OversizedInfoCase{
		{Entries: 65536, ValLen: 65532},            // 2^32 + 5
		{Entries: 65536, ValLen: 65532, Str: true}, // far beyond, not near a multiple
		{Entries: 65536, ValLen: 65526, Str: true}, // 2 + 3 + 65536*(10+65526) = 2^32 + 5
		{Entries: 32768, ValLen: 65532},            // 2^31 + 5
		{Entries: 1000, ValLen: 66},                // 70005
		{Entries: 16, ValLen: 65535},               // about 1 MiB
	}
	if evid.Thorough() {
		cases = append(cases, OversizedInfoCase{Entries: 65535, ValLen: 65535}, OversizedInfoCase{Entries: 65536, ValLen: 65533})
	}
	b := evid.NewBatch()
	for _, c := range cases {
		var cv cov
		v := checkOversizedInfo(c, &cv)
		b.Evals++
		b.Distinct++
		if cv.nontrivial {
			b.Nontrivial++
		}
		for _, l := range cv.labels {
			b.Labels[l]++
		}
		if v != nil {
			failEnum(t, rec, "c06_oversized_info", c, v)
			break
		}
	}
	rec.Merge(b)
	rec.Sample(OversizedInfoCase{Entries: 65536, ValLen: 65532})
	rec.SetExhaustive()
}

func clipStr(s string, n int) string {
	if len(s) > n {
		return s[:n] + "..."
	}
	return s
}
