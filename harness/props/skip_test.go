package props

import (
	"bytes"
	"errors"
	"fmt"
	"io"
	"runtime/debug"
	"testing"

	"github.com/cloudwego/gopkg/bufiox"
	"github.com/cloudwego/gopkg/protocol/thrift"
	"github.com/cloudwego/gopkg/verifharness/evid"
	"github.com/cloudwego/gopkg/verifharness/faultio"
	"github.com/cloudwego/gopkg/verifharness/ref"
	"pgregory.net/rapid"
)

const allocCap = 1 << 20 // largest positive declared acquisition fed to allocating skippers (C03 statement)

// skipOut is what one skipping facility did on one input.
type skipOut struct {
	name    string
	ran     bool
	err     error
	n       int    // consumed extent as observable for this facility
	out     []byte // returned bytes (decoders)
	hasOut  bool
	srcPos  int // ScriptReader position (ReaderSkipDecoder)
	panic   interface{}
	stack   string
	splitRd bool // stream skipper saw the value across >= 2 source reads
}

const (
	skBin = iota
	skBytesDec
	skBufReader
	skSkipDec
	skReaderDec
	skBufReaderStrict  // BufferReader.Skip over a non-allocating bufiox.Reader (no allocation cap needed)
	skSkipDecStrict    // SkipDecoder.Next over a non-allocating bufiox.Reader
	skTplScratch       // SkipDecoderTpl over a caller-written SkipDecoderIface that reuses one scratch buffer for every SkipN
	skBufReaderLenient // BufferReader.Skip over a bufiox.Reader for which Skip(negative) is a no-op
	nSkippers
)

var skipperNames = [nSkippers]string{"Binary.Skip", "BytesSkipDecoder.Next", "BufferReader.Skip", "SkipDecoder.Next", "ReaderSkipDecoder.Next",
	"BufferReader.Skip (non-allocating bufiox.Reader)", "SkipDecoder.Next (non-allocating bufiox.Reader)", "SkipDecoderTpl over a SkipDecoderIface that reuses its buffer", "BufferReader.Skip (bufiox.Reader whose Skip ignores negative counts)"}

// scratchSkipper is a SkipDecoderIface as its documentation allows: the bytes it returns are only valid until
// the next SkipN call, because every call copies into (and overwrites) the same scratch buffer. Requests
// larger than the scratch are served from the data itself after the scratch has been overwritten.
type scratchSkipper struct {
	data    []byte
	pos     int
	scratch [64]byte
}

func (s *scratchSkipper) SkipN(n int) ([]byte, error) {
	if n < 0 {
		return nil, errors.New("verif: negative count")
	}
	if s.pos+n > len(s.data) || s.pos+n < s.pos {
		return nil, io.EOF
	}
	for i := range s.scratch {
		s.scratch[i] ^= 0xA5 // whatever was handed out before is gone
	}
	src := s.data[s.pos : s.pos+n]
	s.pos += n
	if n <= len(s.scratch) {
		copy(s.scratch[:], src)
		return s.scratch[:n], nil
	}
	return src, nil
}

// ---- C02 ---------------------------------------------------------------------------------------------

// SkipSeqCase: a sequence of well-formed values followed by a trailer, read through every skipper.
type SkipSeqCase struct {
	Types   []int8       `json:"types"`
	Encs    []evid.Hex   `json:"encs"`
	Trailer evid.Hex     `json:"trailer"`
	Plan    faultio.Plan `json:"plan"`
}

func (c *SkipSeqCase) stream() []byte {
	var s []byte
	for _, e := range c.Encs {
		s = append(s, e...)
	}
	return append(s, c.Trailer...)
}

func checkSkipSeq(c SkipSeqCase, cv *cov) *evid.Violation {
	if len(c.Types) != len(c.Encs) || len(c.Types) == 0 {
		return nil
	}
	// generator sanity: every value must be well formed by the reference and within the exact-agreement zone
	interesting := false
	for i, e := range c.Encs {
		r := ref.Walk(e, c.Types[i])
		if r.Class != ref.OK || r.N != len(e) || r.MaxLevel > 63 {
			return nil // not in this property's domain
		}
		if r.Fields >= 3 || len(e) > 4096 {
			interesting = true
		}
	}
	stream := c.stream()
	total := len(stream) - len(c.Trailer)
	plan := c.Plan
	plan.ErrAt = len(stream)
	var v *evid.Violation
	var where string
	split := false
	body := func() {
		// 1. Binary.Skip
		where = skipperNames[skBin]
		off := 0
		for i, e := range c.Encs {
			n, err := thrift.Binary.Skip(stream[off:], c.Types[i])
			if err != nil || n != len(e) {
				v = evid.Failf("Binary.Skip value %d (type %d, %d bytes) followed by %d more bytes: got (%d, %v), want (%d, nil); value=%s", i, c.Types[i], len(e), len(stream)-off-len(e), n, err, len(e), hx(e))
				return
			}
			off += n
		}
		// 2. BytesSkipDecoder
		where = skipperNames[skBytesDec]
		bd := thrift.NewBytesSkipDecoder(stream)
		for i, e := range c.Encs {
			out, err := bd.Next(c.Types[i])
			if err != nil || !bytes.Equal(out, e) {
				v = evid.Failf("BytesSkipDecoder.Next value %d (type %d): got (%d bytes, %v), want exactly the %d encoded bytes; value=%s got=%s", i, c.Types[i], len(out), err, len(e), hx(e), hx(out))
				return
			}
		}
		bd.Release()
		// 3. BufferReader.Skip
		where = skipperNames[skBufReader]
		sr := faultio.NewScriptReader(stream, plan)
		br := bufiox.NewDefaultReader(sr)
		tr := thrift.NewBufferReader(br)
		var rn int64
		for i, e := range c.Encs {
			calls := sr.Calls
			err := tr.Skip(c.Types[i])
			d := tr.Readn() - rn
			if err != nil || d != int64(len(e)) {
				v = evid.Failf("BufferReader.Skip value %d (type %d, %d bytes): err=%v, Readn advanced by %d; value=%s", i, c.Types[i], len(e), err, d, hx(e))
				return
			}
			if sr.Calls-calls >= 2 {
				split = true
			}
			rn += d
			if len(c.Encs) > 1 && i%2 == 0 {
				br.Release(releaseArg(i / 2)) // between two values; unread (already buffered) bytes must stay
				rn = 0                        // Readn is the reader's ReadLen, which a Release resets
			}
		}
		if len(c.Trailer) == 0 && sr.TermCalls > 0 {
			v = evid.Failf("BufferReader.Skip: the stream ends with the last value, yet after all of its bytes had been delivered the skipper asked the source for more (%d further Read calls); on a connection that stays open this blocks (source plan %+v)", sr.TermCalls, sr.Plan)
			return
		}
		tb, err := br.Next(len(c.Trailer))
		if err != nil || !bytes.Equal(tb, c.Trailer) {
			v = evid.Failf("BufferReader.Skip: after skipping, the next %d bytes are not the trailer (err=%v got=%s want=%s)", len(c.Trailer), err, hx(tb), hx(c.Trailer))
			return
		}
		tr.Recycle()
		br.Release(nil)
		// 4. SkipDecoder over a buffered reader
		where = skipperNames[skSkipDec]
		sr = faultio.NewScriptReader(stream, plan)
		br = bufiox.NewDefaultReader(sr)
		sd := thrift.NewSkipDecoder(br)
		rl := 0
		for i, e := range c.Encs {
			calls := sr.Calls
			out, err := sd.Next(c.Types[i])
			d := br.ReadLen() - rl
			if err != nil || !bytes.Equal(out, e) || d != len(e) {
				v = evid.Failf("SkipDecoder.Next value %d (type %d, %d bytes): err=%v returned %d bytes, ReadLen advanced by %d; value=%s got=%s", i, c.Types[i], len(e), err, len(out), d, hx(e), hx(out))
				return
			}
			if sr.Calls-calls >= 2 {
				split = true
			}
			rl += d
			if len(c.Encs) > 1 && i%2 == 0 {
				br.Release(releaseArg(i / 2)) // out is not used after this point
				rl = 0
			}
		}
		if len(c.Trailer) == 0 && sr.TermCalls > 0 {
			v = evid.Failf("SkipDecoder.Next: the stream ends with the last value, yet after all of its bytes had been delivered the decoder asked the source for more (%d further Read calls) (source plan %+v)", sr.TermCalls, sr.Plan)
			return
		}
		tb, err = br.Next(len(c.Trailer))
		if err != nil || !bytes.Equal(tb, c.Trailer) {
			v = evid.Failf("SkipDecoder: after the values, the next %d bytes are not the trailer (err=%v got=%s)", len(c.Trailer), err, hx(tb))
			return
		}
		sd.Release()
		br.Release(nil)
		// 5. ReaderSkipDecoder over the plain io.Reader
		where = skipperNames[skReaderDec]
		sr = faultio.NewScriptReader(stream, plan)
		rd := thrift.NewReaderSkipDecoder(sr)
		pos := 0
		for i, e := range c.Encs {
			calls := sr.Calls
			out, err := rd.Next(c.Types[i])
			if err != nil || !bytes.Equal(out, e) {
				v = evid.Failf("ReaderSkipDecoder.Next value %d (type %d, %d bytes; source plan %+v): err=%v returned %d bytes; value=%s got=%s", i, c.Types[i], len(e), plan, err, len(out), hx(e), hx(out))
				return
			}
			pos += len(e)
			if sr.Pos != pos {
				v = evid.Failf("ReaderSkipDecoder.Next value %d (type %d): the underlying io.Reader is at position %d, but the values so far end at %d (consumed beyond the value)", i, c.Types[i], sr.Pos, pos)
				return
			}
			if sr.Calls-calls >= 2 {
				split = true
			}
		}
		if len(c.Trailer) == 0 && sr.TermCalls > 0 {
			v = evid.Failf("ReaderSkipDecoder.Next: the stream ends with the last value, yet after all of its bytes had been delivered the decoder asked the io.Reader for more (%d further Read calls) (source plan %+v)", sr.TermCalls, sr.Plan)
			return
		}
		rd.Release()
		_ = total
	}
	if p, st := evid.Safe(body); p != nil {
		return &evid.Violation{Msg: fmt.Sprintf("%s panicked on a well-formed value: %v (types %v, stream %s)", where, p, c.Types, hx(stream)), Stack: st}
	}
	if v != nil {
		return v
	}
	cv.nontrivial = interesting && split
	cv.labelIf(split, "value_split_across_reads")
	cv.labelIf(interesting, "container>=2_or_big_string")
	cv.labelIf(plan.WithData, "final_data_with_error")
	cv.labelIf(len(c.Encs) > 1, "prefix_values")
	for i := range c.Types {
		cv.label(fmt.Sprintf("type_%d", c.Types[i]))
		_ = i
		break
	}
	return nil
}

func init() { register("c02_skip_seq", checkSkipSeq) }

func genSkipSeq(t *rapid.T) SkipSeqCase {
	var c SkipSeqCase
	n := rapid.SampledFrom([]int{1, 1, 1, 2, 3, 4}).Draw(t, "nvals")
	for i := 0; i < n; i++ {
		var v ref.Value
		if rapid.IntRange(0, 7).Draw(t, "nest") == 0 {
			v = genNest(t, rapid.IntRange(1, 63).Draw(t, "depth"))
		} else {
			v = genValue(t, 0, rapid.IntRange(0, 4).Draw(t, "vdepth"), false, true)
		}
		enc, _ := ref.Encode(&v)
		c.Types = append(c.Types, v.T)
		c.Encs = append(c.Encs, enc)
	}
	switch rapid.IntRange(0, 3).Draw(t, "trailerKind") {
	case 0:
	case 1:
		c.Trailer = rapid.SliceOfN(rapid.Byte(), 1, 64).Draw(t, "trailer")
	case 2: // bytes that look like a further value
		v := genValue(t, 0, 2, false, false)
		c.Trailer, _ = ref.Encode(&v)
	default:
		c.Trailer = bytes.Repeat([]byte{0xff}, rapid.IntRange(1, 9).Draw(t, "ff"))
	}
	c.Plan = genPlan(t, 0)
	c.Plan.ErrAt = -1
	return c
}

func mapCombos() [][2]int8 {
	var out [][2]int8
	for _, k := range ref.Types {
		for _, v := range ref.Types {
			out = append(out, [2]int8{k, v})
		}
	}
	return out
}

func TestC02_Random(t *testing.T) {
	rec := evid.New("C02", "c02_random", "rapid: 1-4 well-formed typed value trees (all 11 types, containers of 0/1/2/3-8/100-300 elements of every element/key/value type, nesting chains 1..63, strings 0..70000 bytes) + trailer (none, random, a further valid value, 0xff..) read through all five skippers under generated source plans (chunking, zero reads, final data with error); non-trivial = a value with >= 3 structural fields or > 4096 bytes AND a stream skipper saw a value across >= 2 source reads")
	defer rec.Flush()
	runRapid(t, rec, "c02_skip_seq", evid.Pick(25000, 400000), genSkipSeq, checkSkipSeq)
}

// TestC02_Combos enumerates every (key type, value type) map and every element type list/set with
// sizes {0,1,2,5} and canonical element values, times fragmentation plans.
func TestC02_Combos(t *testing.T) {
	rec := evid.New("C02", "c02_combos", "enumeration: all 11x11 map key/value type combinations and all 11 list and set element types x sizes {0,1,2,5} x 6 source plans (1-byte, 3-byte, fill, fill+EOF-with-data, 4096, 7 with zero reads) x trailers {none, 1 byte 0x0c}; elements are small canonical values of the type; distinct by construction; non-trivial = size >= 2")
	defer rec.Flush()
	elem := func(ty int8, i int) ref.Value {
		v := ref.Value{T: ty}
		switch ty {
		case ref.STRING:
			v.Str = []byte(fmt.Sprintf("s%d", i))
		case ref.STRUCT:
			v.Fields = []ref.Field{{ID: int16(i), V: ref.Value{T: ref.I16, Bits: uint64(i)}}, {ID: 2, V: ref.Value{T: ref.STRING, Str: []byte("q")}}}
		case ref.MAP:
			v.KT, v.ET = ref.BYTE, ref.STRING
			v.Elems = []ref.Value{{T: ref.BYTE, Bits: 1}, {T: ref.STRING, Str: []byte("m")}}
		case ref.SET, ref.LIST:
			v.ET = ref.I32
			v.Elems = []ref.Value{{T: ref.I32, Bits: uint64(i)}, {T: ref.I32, Bits: 5}}
		default:
			v.Bits = uint64(i + 1)
		}
		return v
	}
	plans := []faultio.Plan{
		{Chunks: []int{1}}, {Chunks: []int{3}}, {Chunks: []int{0}}, {Chunks: []int{0}, WithData: true},
		{Chunks: []int{4096}, ErrKind: 2}, {Chunks: []int{7}, Zeros: []int{1, 0, 2}, WithData: true, ErrKind: 1},
	}
	type item struct {
		v ref.Value
	}
	var items []item
	for _, sz := range []int{0, 1, 2, 5} {
		for _, kv := range mapCombos() {
			v := ref.Value{T: ref.MAP, KT: kv[0], ET: kv[1]}
			for i := 0; i < sz; i++ {
				v.Elems = append(v.Elems, elem(kv[0], i), elem(kv[1], i+10))
			}
			items = append(items, item{v})
		}
		for _, ct := range []int8{ref.LIST, ref.SET} {
			for _, et := range ref.Types {
				v := ref.Value{T: ct, ET: et}
				for i := 0; i < sz; i++ {
					v.Elems = append(v.Elems, elem(et, i))
				}
				items = append(items, item{v})
			}
		}
	}
	var failed bool
	lock := make(chan struct{}, 1)
	parallelFor(len(items), func(i int, b *evid.Batch) {
		if failed {
			return
		}
		enc, _ := ref.Encode(&items[i].v)
		for _, p := range plans {
			for _, tr := range [][]byte{nil, {0x0c}} {
				c := SkipSeqCase{Types: []int8{items[i].v.T}, Encs: []evid.Hex{enc}, Trailer: tr, Plan: p}
				c.Plan.ErrAt = -1
				var cv cov
				v := checkSkipSeq(c, &cv)
				b.Evals++
				if len(items[i].v.Elems) >= 2 {
					b.Distinct++
					b.Nontrivial++
				}
				b.Labels[fmt.Sprintf("container_%d", items[i].v.T)]++
				if v != nil {
					lock <- struct{}{}
					if !failed {
						failed = true
						failEnum(t, rec, "c02_skip_seq", c, v)
					}
					<-lock
				}
			}
		}
	}, rec)
	enc, _ := ref.Encode(&items[len(items)-7].v)
	rec.Sample(SkipSeqCase{Types: []int8{items[len(items)-7].v.T}, Encs: []evid.Hex{enc}, Plan: plans[5]})
	rec.SetExhaustive()
}

// ---- C08 ---------------------------------------------------------------------------------------------

// SkipCase: arbitrary bytes and a type tag, given to every skipper.
type SkipCase struct {
	T    int8         `json:"t"`
	Data evid.Hex     `json:"data"`
	Plan faultio.Plan `json:"plan"`
	Op   string       `json:"op,omitempty"` // malformation operator that produced it (label only)
}

// runSkippers runs the five skippers on (b, t). Allocating skippers only run when allowAlloc.
func runSkippers(b []byte, t int8, plan faultio.Plan, allowAlloc bool) [nSkippers]skipOut {
	var outs [nSkippers]skipOut
	for i := range outs {
		outs[i].name = skipperNames[i]
	}
	plan.ErrAt = len(b)
	run := func(i int, f func(o *skipOut)) {
		o := &outs[i]
		o.ran = true
		o.panic, o.stack = evid.Safe(func() { f(o) })
	}
	run(skBin, func(o *skipOut) { o.n, o.err = thrift.Binary.Skip(b, t) })
	run(skBytesDec, func(o *skipOut) {
		d := thrift.NewBytesSkipDecoder(b)
		defer d.Release()
		o.out, o.err = d.Next(t)
		o.hasOut = true
		o.n = len(o.out)
	})
	run(skBufReaderStrict, func(o *skipOut) {
		sr := &faultio.StrictReader{Data: b}
		tr := thrift.NewBufferReader(sr)
		o.err = tr.Skip(t)
		o.n = int(tr.Readn())
		tr.Recycle()
	})
	run(skSkipDecStrict, func(o *skipOut) {
		sr := &faultio.StrictReader{Data: b}
		sd := thrift.NewSkipDecoder(sr)
		out, err := sd.Next(t)
		o.out, o.err, o.hasOut = append([]byte(nil), out...), err, true
		o.n = sr.ReadLen()
		sd.Release()
	})
	run(skTplScratch, func(o *skipOut) {
		ss := &scratchSkipper{data: b}
		o.err = thrift.NewSkipDecoderTpl(ss).Skip(t, 64)
		o.n = ss.pos
	})
	run(skBufReaderLenient, func(o *skipOut) {
		sr := &faultio.StrictReader{Data: b, Lenient: true}
		tr := thrift.NewBufferReader(sr)
		o.err = tr.Skip(t)
		o.n = int(tr.Readn())
		tr.Recycle()
	})
	if !allowAlloc {
		return outs
	}
	run(skBufReader, func(o *skipOut) {
		sr := faultio.NewScriptReader(b, plan)
		br := bufiox.NewDefaultReader(sr)
		tr := thrift.NewBufferReader(br)
		o.err = tr.Skip(t)
		o.n = int(tr.Readn())
		tr.Recycle()
		br.Release(nil)
	})
	run(skSkipDec, func(o *skipOut) {
		sr := faultio.NewScriptReader(b, plan)
		br := bufiox.NewDefaultReader(sr)
		sd := thrift.NewSkipDecoder(br)
		out, err := sd.Next(t)
		o.out, o.err, o.hasOut = append([]byte(nil), out...), err, true
		o.n = br.ReadLen()
		sd.Release()
		br.Release(nil)
	})
	run(skReaderDec, func(o *skipOut) {
		sr := faultio.NewScriptReader(b, plan)
		rd := thrift.NewReaderSkipDecoder(sr)
		out, err := rd.Next(t)
		o.out, o.err, o.hasOut = append([]byte(nil), out...), err, true
		o.n = len(out)
		o.srcPos = sr.Pos
		rd.Release()
	})
	return outs
}

func checkSkipGrammar(c SkipCase, cv *cov) *evid.Violation {
	return checkSkipGrammarRec(c, cv, nil)
}

func checkSkipGrammarRec(c SkipCase, cv *cov, rec *evid.Recorder) *evid.Violation {
	b := []byte(c.Data)
	r := ref.Walk(b, c.T)
	allowAlloc := r.MaxAcquire <= allocCap
	if rec != nil {
		if !allowAlloc {
			rec.Exclude("alloc_cap:stream_skippers_not_run")
		} else if r.Class == ref.NEGATIVE_SIZE {
			// a regression here can be a fatal out-of-memory abort: journal the case first
			rec.Journal("c08_skip_grammar", c)
		}
	}
	outs := runSkippers(b, c.T, c.Plan, allowAlloc)
	for i := range outs {
		o := &outs[i]
		if !o.ran {
			continue
		}
		if o.panic != nil {
			return &evid.Violation{Msg: fmt.Sprintf("%s panicked (a panic is disagreement with the grammar): %v; type=%d input=%s; reference: %s", o.name, o.panic, c.T, hx(b), refDesc(r)), Stack: o.stack}
		}
		switch {
		case r.MaxLevel == 64:
			// the implementations' boundary zone: no verdict
		case r.MaxLevel >= 65:
			if o.err == nil {
				return evid.Failf("%s accepted input whose parse enters container nesting level %d (limit 64): type=%d input=%s", o.name, r.MaxLevel, c.T, hx(b))
			}
		default:
			accepted := o.err == nil
			if accepted != (r.Class == ref.OK) {
				return evid.Failf("%s %s (err=%v, n=%d) but the grammar says %s; type=%d input=%s", o.name, verdict(accepted), o.err, o.n, refDesc(r), c.T, hx(b))
			}
			if accepted {
				if o.n != r.N {
					return evid.Failf("%s accepted with extent %d, the grammar says %d; type=%d input=%s", o.name, o.n, r.N, c.T, hx(b))
				}
				if o.hasOut && !bytes.Equal(o.out, b[:r.N]) {
					return evid.Failf("%s returned %s, want the first %d input bytes; type=%d input=%s", o.name, hx(o.out), r.N, c.T, hx(b))
				}
				if i == skReaderDec && o.srcPos != r.N {
					return evid.Failf("%s left the underlying reader at %d, the value ends at %d; type=%d input=%s", o.name, o.srcPos, r.N, c.T, hx(b))
				}
			}
		}
	}
	switch {
	case r.MaxLevel == 64:
		cv.label("boundary_zone_level64")
	case r.MaxLevel >= 65:
		cv.label("level>=65_rejected")
		cv.nontrivial = true
	default:
		cv.label("class_" + ref.ClassName(r.Class))
		cv.nontrivial = (r.Class != ref.OK && r.Fields >= 2) || (r.Class == ref.OK && r.Fields >= 3)
	}
	cv.labelIf(!allowAlloc, "stream_skippers_excluded_by_alloc_cap")
	cv.labelIf(c.Op != "", "op_"+c.Op)
	cv.labelIf(c.T < 0, "type_tag>=0x80")
	cv.key = append([]byte{byte(c.T)}, b...)
	return nil
}

func verdict(a bool) string {
	if a {
		return "accepted"
	}
	return "rejected"
}

func refDesc(r ref.Result) string {
	if r.Class == ref.OK {
		return fmt.Sprintf("a complete well-formed value of %d bytes (max level %d)", r.N, r.MaxLevel)
	}
	return fmt.Sprintf("no well-formed value: %s (max level %d)", ref.ClassName(r.Class), r.MaxLevel)
}

func init() { register("c08_skip_grammar", checkSkipGrammar) }

func genSkipCase(t *rapid.T) SkipCase {
	var c SkipCase
	var v ref.Value
	switch rapid.IntRange(0, 9).Draw(t, "shape") {
	case 0, 1:
		v = genNest(t, rapid.IntRange(1, 70).Draw(t, "depth"))
	default:
		v = genValue(t, 0, rapid.IntRange(0, 4).Draw(t, "vdepth"), false, false)
	}
	enc, marks := ref.Encode(&v)
	c.T = v.T
	c.Data, c.Op = mutate(t, enc, marks)
	if rapid.IntRange(0, 9).Draw(t, "retype") == 0 {
		c.T = int8(rapid.IntRange(-128, 127).Draw(t, "t"))
		c.Op += "+retype"
	}
	c.Plan = faultio.Plan{
		Chunks:   rapid.SliceOfN(rapid.SampledFrom([]int{0, 1, 3, 7, 4096}), 1, 2).Draw(t, "chunks"),
		Zeros:    []int{rapid.SampledFrom([]int{0, 0, 1}).Draw(t, "zeros")},
		ErrAt:    -1,
		WithData: rapid.Bool().Draw(t, "withData"),
		ErrKind:  rapid.SampledFrom([]int{0, 2}).Draw(t, "errKind"),
	}
	return c
}

func TestC08_Random(t *testing.T) {
	rec := evid.New("C08", "c08_random", "rapid: valid encodings of generated value trees and nesting chains of depth 1..70, then one malformation operator (cut at any offset, structural tag replaced by a boundary byte, size/length field replaced by 0/1/2/0x7fffffff/0x80000000/0xffffffff/.., size +-delta, field id, byte, bit flip, append, splice) and sometimes an arbitrary type tag -128..127; five skippers vs the recursive-descent reference; non-trivial = rejected with >= 2 structural fields parsed, accepted with >= 3, or nesting >= 65")
	defer rec.Flush()
	runRapid(t, rec, "c08_skip_grammar", evid.Pick(50000, 400000), genSkipCase, func(c SkipCase, cv *cov) *evid.Violation { return checkSkipGrammarRec(c, cv, rec) })
}

var grammarAlphabet = []byte{0x00, 0x01, 0x02, 0x03, 0x08, 0x0b, 0x0c, 0x0d, 0x0e, 0x0f, 0x7f, 0x80, 0xff}

// TestC08_Exhaustive: all strings up to length k over the grammar alphabet x all 256 type tags.
func TestC08_Exhaustive(t *testing.T) {
	k := evid.Pick(5, 6)
	rec := evid.New("C08", "c08_exhaustive", fmt.Sprintf("bounded-exhaustive: every byte string of length 0..%d over the 13-symbol grammar alphabet {00,01,02,03,08,0b,0c,0d,0e,0f,7f,80,ff} x (the 11 valid type tags + 0,1,5,16,0x7f,0x80,0x8b,0xff); all five skippers (allocating ones under the 1 MiB cap) vs the reference; then every longer string up to length 6 (quick) / 8 (thorough) over the narrower alphabet {00,01,02,0b,0c,0d,0f,ff} x the 5 variable-width types; distinct by construction; non-trivial = reference parsed >= 2 structural fields", k))
	defer rec.Flush()
	types := append([]int8{0, 1, 5, 16, 0x7f, -128, -117, -1}, ref.Types...)
	na := len(grammarAlphabet)
	// index space: first symbol x rest, enumerated per first-two-symbol prefix for parallelism
	total := 1
	for i := 0; i < k; i++ {
		total *= na
	}
	var failed bool
	lock := make(chan struct{}, 1)
	plan := faultio.Plan{Chunks: []int{3}, ErrAt: -1, WithData: true}
	// enumerate strings of exact length L for L = 0..k by treating index in base na
	for L := 0; L <= k; L++ {
		cnt := 1
		for i := 0; i < L; i++ {
			cnt *= na
		}
		parallelFor(cnt, func(idx int, bt *evid.Batch) {
			if failed {
				return
			}
			buf := make([]byte, L)
			x := idx
			for i := 0; i < L; i++ {
				buf[i] = grammarAlphabet[x%na]
				x /= na
			}
			for _, ty := range types {
				c := SkipCase{T: ty, Data: buf, Plan: plan}
				var cv cov
				v := checkSkipGrammarRec(c, &cv, nil)
				bt.Evals++
				if cv.nontrivial {
					bt.Distinct++
					bt.Nontrivial++
				}
				for _, l := range cv.labels {
					bt.Labels[l]++
				}
				if v != nil {
					lock <- struct{}{}
					if !failed {
						failed = true
						cc := c
						cc.Data = append([]byte(nil), buf...)
						failEnum(t, rec, "c08_skip_grammar", cc, v)
					}
					<-lock
				}
			}
		}, rec)
	}
	// a second, narrower alphabet enumerated deeper (longer structured sequences such as list<struct{...}>)
	narrow := []byte{0x00, 0x01, 0x02, 0x0b, 0x0c, 0x0d, 0x0f, 0xff}
	k2 := evid.Pick(6, 8)
	for L := k + 1; L <= k2; L++ {
		cnt := 1
		for i := 0; i < L; i++ {
			cnt *= len(narrow)
		}
		parallelFor(cnt, func(idx int, bt *evid.Batch) {
			if failed {
				return
			}
			buf := make([]byte, L)
			x := idx
			for i := 0; i < L; i++ {
				buf[i] = narrow[x%len(narrow)]
				x /= len(narrow)
			}
			for _, ty := range []int8{ref.STRING, ref.STRUCT, ref.MAP, ref.SET, ref.LIST} {
				c := SkipCase{T: ty, Data: buf, Plan: plan}
				var cv cov
				v := checkSkipGrammarRec(c, &cv, nil)
				bt.Evals++
				if cv.nontrivial {
					bt.Distinct++
					bt.Nontrivial++
				}
				for _, l := range cv.labels {
					bt.Labels[l]++
				}
				if v != nil {
					lock <- struct{}{}
					if !failed {
						failed = true
						cc := c
						cc.Data = append([]byte(nil), buf...)
						failEnum(t, rec, "c08_skip_grammar", cc, v)
					}
					<-lock
				}
			}
		}, rec)
	}
	rec.Label(fmt.Sprintf("narrow_alphabet_up_to_length_%d", k2), 1)
	rec.Sample(SkipCase{T: ref.MAP, Data: []byte{0x0b, 0x0c, 0, 0, 0, 1}, Plan: plan})
	rec.SetExhaustive()
	_ = total
}

// TestC08_Depth: nesting depths 1..70 for every container kind and leaf kind, deterministic.
func TestC08_Depth(t *testing.T) {
	rec := evid.New("C08", "c08_depth", "enumeration: nesting chains of depth 1..70 x container kind {struct,map(value side),map(key side),set,list} x innermost content {empty, scalar, string, fixed-width elements}; exact agreement demanded up to level 63, rejection from 65, level 64 counted as boundary zone; distinct by construction")
	defer rec.Flush()
	build := func(kind int, leaf int, d int) ref.Value {
		kinds := make([]int, d)
		for i := range kinds {
			kinds[i] = kind
		}
		return buildNestChain(kinds, leaf)
	}
	b := evid.NewBatch()
	for d := 1; d <= 70; d++ {
		for kind := 0; kind < 5; kind++ {
			for leaf := 0; leaf < 4; leaf++ {
				v := build(kind, leaf, d)
				enc, _ := ref.Encode(&v)
				for _, pl := range []faultio.Plan{{Chunks: []int{0}}, {Chunks: []int{5}, WithData: true}} {
					c := SkipCase{T: v.T, Data: enc, Plan: pl, Op: "depth"}
					c.Plan.ErrAt = -1
					var cv cov
					if viol := checkSkipGrammarRec(c, &cv, nil); viol != nil {
						failEnum(t, rec, "c08_skip_grammar", c, viol)
						rec.Merge(b)
						return
					}
					b.Evals++
					b.Distinct++
					b.Nontrivial++
					for _, l := range cv.labels {
						b.Labels[l]++
					}
					if d == 66 && kind == 3 && leaf == 1 && pl.WithData {
						rec.Sample(map[string]interface{}{"depth": d, "kind": "set", "leaf": "i32", "bytes": len(enc), "type": v.T})
					}
				}
			}
		}
	}
	rec.Merge(b)
	rec.SetExhaustive()
}

// buildNestChain builds nested containers, kinds[i] being the kind at level i+1: 0 struct, 1 map (child on
// the value side), 2 map (child on the key side), 3 set, 4 list. leaf: 0 innermost container empty,
// 1 i32, 2 string, 3 double (so that the innermost container takes the fixed-width fast paths).
func buildNestChain(kinds []int, leaf int) ref.Value {
	d := len(kinds)
	var mk func(level int) ref.Value
	mk = func(level int) ref.Value {
		var child *ref.Value
		if level < d {
			c := mk(level + 1)
			child = &c
		} else {
			switch leaf {
			case 1:
				child = &ref.Value{T: ref.I32, Bits: 5}
			case 2:
				child = &ref.Value{T: ref.STRING, Str: []byte("ab")}
			case 3:
				child = &ref.Value{T: ref.DOUBLE, Bits: 0x7ff8000000000001}
			}
		}
		switch kind := kinds[level-1]; kind {
		case 0:
			v := ref.Value{T: ref.STRUCT}
			if child != nil {
				v.Fields = []ref.Field{{ID: 1, V: *child}}
			}
			return v
		case 1:
			v := ref.Value{T: ref.MAP, KT: ref.I16, ET: ref.STRING}
			if child != nil {
				v.ET = child.T
				v.Elems = []ref.Value{{T: ref.I16, Bits: 1}, *child}
			}
			return v
		case 2:
			v := ref.Value{T: ref.MAP, KT: ref.STRING, ET: ref.BOOL}
			if child != nil {
				v.KT = child.T
				v.Elems = []ref.Value{*child, {T: ref.BOOL, Bits: 1}}
			}
			return v
		default:
			v := ref.Value{T: int8(ref.SET + kind - 3), ET: ref.STRING}
			if child != nil {
				v.ET = child.T
				v.Elems = []ref.Value{*child}
			}
			return v
		}
	}
	return mk(1)
}

// TestC08_DepthMixed: chains whose two innermost levels are of other kinds than the rest, around the limit.
func TestC08_DepthMixed(t *testing.T) {
	rec := evid.New("C08", "c08_depth_mixed", "enumeration: nesting chains of depth 60..70 whose levels 1..d-2 are of kind A, level d-1 of kind B and level d of kind C, for all A, B, C in {struct, map (value side), map (key side), set, list} x innermost content {empty, i32, string, double}; every skipper; exact agreement up to level 63, rejection from 65, level 64 counted as boundary zone; distinct by construction")
	defer rec.Flush()
	type job struct{ a, b, c, d, leaf int }
	var jobs []job
	for d := 60; d <= 70; d++ {
		for a := 0; a < 5; a++ {
			for b := 0; b < 5; b++ {
				for c := 0; c < 5; c++ {
					for leaf := 0; leaf < 4; leaf++ {
						jobs = append(jobs, job{a, b, c, d, leaf})
					}
				}
			}
		}
	}
	var failed bool
	lock := make(chan struct{}, 1)
	parallelFor(len(jobs), func(i int, b *evid.Batch) {
		if failed {
			return
		}
		j := jobs[i]
		kinds := make([]int, j.d)
		for k := range kinds {
			kinds[k] = j.a
		}
		kinds[j.d-2], kinds[j.d-1] = j.b, j.c
		v := buildNestChain(kinds, j.leaf)
		enc, _ := ref.Encode(&v)
		pl := faultio.Plan{Chunks: []int{0}, ErrAt: -1}
		if i%2 == 1 {
			pl = faultio.Plan{Chunks: []int{5}, ErrAt: -1, WithData: true}
		}
		c := SkipCase{T: v.T, Data: enc, Plan: pl, Op: "depth_mixed"}
		var cv cov
		viol := checkSkipGrammarRec(c, &cv, nil)
		b.Evals++
		b.Distinct++
		b.Nontrivial++
		for _, l := range cv.labels {
			b.Labels[l]++
		}
		if viol != nil {
			lock <- struct{}{}
			if !failed {
				failed = true
				failEnum(t, rec, "c08_skip_grammar", c, viol)
			}
			<-lock
		}
	}, rec)
	rec.Sample(map[string]interface{}{"depth": 65, "outer": "struct", "level_d-1": "struct", "level_d": "list", "leaf": "double"})
	rec.SetExhaustive()
}

// TestC08_WrapSizes: fixed-width containers whose declared count times the element width reaches 2^31
// or wraps around 2^32, with only a few bytes of data behind the header. Every skipper must reject
// them (the allocating ones are skipped by the cap; the non-allocating reader variants run).
func TestC08_WrapSizes(t *testing.T) {
	rec := evid.New("C08", "c08_wrap_sizes", "enumeration: every fixed-width (key,value) pair (36 maps) and element type (6 lists, 6 sets) x declared counts {ceil(2^31/w)-1, ceil(2^31/w), ceil(2^31/w)+1, 2^32/w-1, 2^32/w, 2^32/w+1, 2^32/w+3, 2^33/w (if < 2^31)} for the element width w, x 0/1/17/40 bytes of data behind the header, also nested as the last field of a struct; distinct by construction")
	defer rec.Flush()
	fixed := []int8{ref.BOOL, ref.BYTE, ref.DOUBLE, ref.I16, ref.I32, ref.I64}
	b := evid.NewBatch()
	one := func(ty int8, hdr []byte, w int) bool {
		var counts []uint64
		for _, base := range []uint64{1 << 31, 1 << 32, 1 << 33} {
			q := base / uint64(w)
			for _, d := range []int64{-1, 0, 1, 3} {
				c := uint64(int64(q) + d)
				if c > 0 && c < 1<<31 {
					counts = append(counts, c)
				}
			}
		}
		for _, cnt := range counts {
			for _, tail := range []int{0, 1, 17, 40} {
				data := append([]byte(nil), hdr...)
				data = ref.Put32(data, uint32(cnt))
				data = append(data, patternBytes(7, tail)...)
				for _, wrap := range []bool{false, true} {
					c := SkipCase{T: ty, Data: data, Plan: faultio.Plan{Chunks: []int{0}, ErrAt: -1}, Op: "wrap_size"}
					if wrap { // as the last field of a struct, followed by STOP
						c.T = ref.STRUCT
						c.Data = append(append([]byte{byte(ty), 0, 1}, data...), 0)
					}
					var cv cov
					if v := checkSkipGrammarRec(c, &cv, nil); v != nil {
						failEnum(t, rec, "c08_skip_grammar", c, v)
						return false
					}
					b.Evals++
					b.Distinct++
					b.Nontrivial++
					for _, l := range cv.labels {
						b.Labels[l]++
					}
				}
			}
		}
		return true
	}
	ok := true
	for _, kt := range fixed {
		for _, vt := range fixed {
			if ok {
				ok = one(ref.MAP, []byte{byte(kt), byte(vt)}, ref.FixedSize(kt)+ref.FixedSize(vt))
			}
		}
		if ok {
			ok = one(ref.LIST, []byte{byte(kt)}, ref.FixedSize(kt)) && one(ref.SET, []byte{byte(kt)}, ref.FixedSize(kt))
		}
	}
	rec.Merge(b)
	rec.Sample(SkipCase{T: ref.MAP, Data: []byte{0x0a, 0x0a, 0x10, 0, 0, 0, 1, 2, 3}, Op: "wrap_size"})
	rec.SetExhaustive()
}

// ---- C02: a failed call must not disturb the next call on the same decoder -----------------------

// SkipRetryCase: a decoder is first asked for a type the data is not well formed for (the call fails and,
// for decoders that only peek / only move a private cursor, consumes nothing from the input), then for the
// type the data really holds.
type SkipRetryCase struct {
	T     int8         `json:"t"`
	Enc   evid.Hex     `json:"enc"`
	BadT  int8         `json:"bad_t"`
	Trail evid.Hex     `json:"trail,omitempty"`
	Plan  faultio.Plan `json:"plan"`
}

func checkSkipRetry(c SkipRetryCase, cv *cov) (v *evid.Violation) {
	enc := []byte(c.Enc)
	r := ref.Walk(enc, c.T)
	if r.Class != ref.OK || r.N != len(enc) || r.MaxLevel > 63 {
		return nil
	}
	stream := append(append([]byte(nil), enc...), c.Trail...)
	bad := ref.Walk(stream, c.BadT)
	if bad.Class == ref.OK || bad.MaxLevel >= 64 || bad.MaxAcquire > allocCap {
		return nil // the first call would not fail (or is in the boundary zone / over the allocation cap)
	}
	failedFirst := 0
	body := func() {
		// BytesSkipDecoder
		bd := thrift.NewBytesSkipDecoder(stream)
		if _, err := bd.Next(c.BadT); err != nil {
			failedFirst++
			out, err := bd.Next(c.T)
			if err != nil || !bytes.Equal(out, enc) {
				v = evid.Failf("BytesSkipDecoder: after a failed Next(type %d), Next(type %d) on the same decoder returned (%d bytes, %v); the input starts with a well-formed value of %d bytes; value=%s got=%s", c.BadT, c.T, len(out), err, len(enc), hx(enc), hx(out))
				return
			}
		}
		bd.Release()
		// SkipDecoder over a buffered reader and over the non-allocating reader
		for variant := 0; variant < 2; variant++ {
			var rd bufiox.Reader
			name := "SkipDecoder (buffered reader)"
			if variant == 0 {
				p := c.Plan
				p.ErrAt = len(stream)
				rd = bufiox.NewDefaultReader(faultio.NewScriptReader(stream, p))
			} else {
				rd = &faultio.StrictReader{Data: stream}
				name = "SkipDecoder (non-allocating reader)"
			}
			sd := thrift.NewSkipDecoder(rd)
			if _, err := sd.Next(c.BadT); err != nil {
				failedFirst++
				if rd.ReadLen() != 0 {
					v = evid.Failf("%s: a failed Next(type %d) consumed %d bytes from the reader", name, c.BadT, rd.ReadLen())
					return
				}
				out, err := sd.Next(c.T)
				if err != nil || !bytes.Equal(out, enc) || rd.ReadLen() != len(enc) {
					v = evid.Failf("%s: after a failed Next(type %d), Next(type %d) on the same decoder returned (%d bytes, %v), ReadLen=%d; the stream starts with a well-formed value of %d bytes; value=%s got=%s", name, c.BadT, c.T, len(out), err, rd.ReadLen(), len(enc), hx(enc), hx(out))
					return
				}
			}
			sd.Release()
		}
		// a decoder that failed is released to its pool; the next user of the pooled object starts clean
		for k := 0; k < 6; k++ {
			p := c.Plan
			p.ErrAt = len(stream)
			// k = 3..5: the previous owner of the pooled object did not fail, it used the exported SkipN
			// (the callback of the generic skipper) directly and so left a cursor behind when it released
			direct := func(d interface {
				SkipN(int) ([]byte, error)
			}) {
				n := 3
				if n > len(stream) {
					n = len(stream)
				}
				_, _ = d.SkipN(n)
			}
			switch k % 3 {
			case 0:
				d := thrift.NewBytesSkipDecoder(stream)
				if k >= 3 {
					direct(d)
				} else {
					_, _ = d.Next(c.BadT)
				}
				d.Release()
				d = thrift.NewBytesSkipDecoder(stream)
				out, err := d.Next(c.T)
				d.Release()
				if err != nil || !bytes.Equal(out, enc) {
					v = evid.Failf("BytesSkipDecoder taken from the pool after another use had failed (or, k=%d >= 3, had called SkipN directly): Next(type %d) returned (%d bytes, %v), want the %d-byte value", k, c.T, len(out), err, len(enc))
					return
				}
			case 1:
				rd := bufiox.NewDefaultReader(faultio.NewScriptReader(stream, p))
				d := thrift.NewSkipDecoder(rd)
				if k >= 3 {
					direct(d)
				} else {
					_, _ = d.Next(c.BadT)
				}
				d.Release()
				rd2 := bufiox.NewDefaultReader(faultio.NewScriptReader(stream, p))
				d = thrift.NewSkipDecoder(rd2)
				out, err := d.Next(c.T)
				if err != nil || !bytes.Equal(out, enc) || rd2.ReadLen() != len(enc) {
					v = evid.Failf("SkipDecoder taken from the pool after another use had failed (or, k=%d >= 3, had called SkipN directly): Next(type %d) returned (%d bytes, %v), ReadLen %d, want the %d-byte value", k, c.T, len(out), err, rd2.ReadLen(), len(enc))
					return
				}
				d.Release()
			default:
				d := thrift.NewReaderSkipDecoder(faultio.NewScriptReader(stream, p))
				if k >= 3 {
					direct(d)
				} else {
					_, _ = d.Next(c.BadT)
				}
				d.Release()
				sr := faultio.NewScriptReader(stream, p)
				d = thrift.NewReaderSkipDecoder(sr)
				out, err := d.Next(c.T)
				if err != nil || !bytes.Equal(out, enc) || sr.Pos != len(enc) {
					v = evid.Failf("ReaderSkipDecoder taken from the pool after another use had failed (or, k=%d >= 3, had called SkipN directly): Next(type %d) returned (%d bytes, %v), source at %d, want the %d-byte value", k, c.T, len(out), err, sr.Pos, len(enc))
					return
				}
				d.Release()
			}
		}
	}
	if p, st := evid.Safe(body); p != nil {
		return &evid.Violation{Msg: fmt.Sprintf("panic: %v (type %d after failed type %d, value %s)", p, c.T, c.BadT, hx(enc)), Stack: st}
	}
	if v != nil {
		return v
	}
	cv.nontrivial = failedFirst > 0 && bad.Fields >= 1
	cv.labelIf(failedFirst > 0, "first_call_failed")
	cv.labelIf(bad.Fields >= 1, "first_call_consumed_structure")
	cv.label("bad_" + ref.ClassName(bad.Class))
	return nil
}

func init() { register("c02_skip_retry", checkSkipRetry) }

func genSkipRetry(t *rapid.T) SkipRetryCase {
	v := genValue(t, 0, rapid.IntRange(0, 3).Draw(t, "vdepth"), false, false)
	enc, _ := ref.Encode(&v)
	c := SkipRetryCase{T: v.T, Enc: enc}
	c.BadT = rapid.SampledFrom([]int8{ref.STRUCT, ref.MAP, ref.LIST, ref.SET, ref.STRING, ref.STRUCT, ref.MAP, 0, 1, 5, -1}).Draw(t, "badT")
	c.Trail = rapid.SliceOfN(rapid.Byte(), 0, 6).Draw(t, "trail")
	c.Plan = faultio.Plan{Chunks: []int{rapid.SampledFrom([]int{0, 1, 5}).Draw(t, "chunk")}, ErrAt: -1, WithData: rapid.Bool().Draw(t, "wd")}
	return c
}

func TestC02_Retry(t *testing.T) {
	rec := evid.New("C02", "c02_retry", "rapid: a well-formed value (plus trailer) is first requested under a type for which the bytes are not well formed (the call fails), then under its real type on the same decoder object, for BytesSkipDecoder and SkipDecoder (buffered and non-allocating reader): the second call must return exactly the value; non-trivial = the failed call had parsed >= 1 structural field before failing")
	defer rec.Flush()
	runRapid(t, rec, "c02_skip_retry", evid.Pick(20000, 100000), genSkipRetry, checkSkipRetry)
}

// ---- very large values ---------------------------------------------------------------------------------

// SkipHugeCase: one well-formed value whose payload is N bytes (4..64 MiB), built from a pattern.
type SkipHugeCase struct {
	Kind     string `json:"kind"` // string list_i64 map_i32_i64 struct_string list_one_string set_byte
	N        int    `json:"n"`
	WithData bool   `json:"withdata,omitempty"`
	Chunk    int    `json:"chunk,omitempty"`
}

func (c SkipHugeCase) build() (int8, []byte) {
	be32 := func(b []byte, v int) []byte { return append(b, byte(v>>24), byte(v>>16), byte(v>>8), byte(v)) }
	payload := func(b []byte, n int) []byte {
		off := len(b)
		b = append(b, make([]byte, n)...)
		p := b[off:]
		for i := 0; i < len(p); i += 251 {
			p[i] = byte(i>>8) | 1
		}
		return b
	}
	switch c.Kind {
	case "list_i64":
		k := c.N / 8
		return ref.LIST, payload(be32([]byte{byte(ref.I64)}, k), k*8)
	case "set_byte":
		return ref.SET, payload(be32([]byte{byte(ref.BYTE)}, c.N), c.N)
	case "map_i32_i64":
		k := c.N / 12
		return ref.MAP, payload(be32([]byte{byte(ref.I32), byte(ref.I64)}, k), k*12)
	case "struct_string":
		b := payload(be32([]byte{byte(ref.STRING), 0, 1}, c.N), c.N)
		return ref.STRUCT, append(b, byte(ref.I32), 0, 2, 0, 0, 0, 9, 0)
	case "list_one_string":
		return ref.LIST, payload(be32(be32([]byte{byte(ref.STRING)}, 1), c.N), c.N)
	}
	return ref.STRING, payload(be32(nil, c.N), c.N)
}

func checkSkipHuge(c SkipHugeCase, cv *cov) *evid.Violation {
	if c.N < 0 || c.N > 1<<27 {
		return nil
	}
	t, enc := c.build()
	chunk := c.Chunk
	if chunk <= 0 {
		chunk = 1 << 20
	}
	sc := SkipSeqCase{Types: []int8{t}, Encs: []evid.Hex{enc}, Trailer: []byte{0xde, 0xad, 0xbe, 0xef, 1, 2, 3}, Plan: faultio.Plan{Chunks: []int{chunk}, ErrAt: -1, WithData: c.WithData}}
	v := checkSkipSeq(sc, cv)
	cv.nontrivial = true
	cv.key = []byte(fmt.Sprintf("%s/%d/%v/%d", c.Kind, c.N, c.WithData, c.Chunk))
	return v
}

func init() { register("c02_skip_huge", checkSkipHuge) }

func TestC02_Huge(t *testing.T) {
	rec := evid.New("C02", "c02_huge", "enumeration: one value with a payload of n bytes for n in {2^k-1, 2^k, 2^k+1, 2^k+2^(k-1)+777 : k = 22..25 (thorough: ..26)} x shape {string, list<i64>, set<byte>, map<i32,i64>, struct with that string, list of one string}, followed by a 7-byte trailer, through all five skippers (source delivering 1 MiB chunks, final data with and without io.EOF); run one at a time; distinct by construction")
	defer rec.Flush()
	bt := evid.NewBatch()
	shard, nshards := evid.Shard()
	idx := 0
	for _, n := range hugeSizes() {
		for ki, kind := range []string{"string", "list_i64", "set_byte", "map_i32_i64", "struct_string", "list_one_string"} {
			idx++
			if idx%nshards != shard {
				continue
			}
			c := SkipHugeCase{Kind: kind, N: n, WithData: (ki+n)%2 == 0}
			var cv cov
			v := checkSkipHuge(c, &cv)
			bt.Evals++
			bt.Distinct++
			bt.Nontrivial++
			if v != nil {
				failEnum(t, rec, "c02_skip_huge", c, v)
				rec.Merge(bt)
				return
			}
		}
		debug.FreeOSMemory()
	}
	rec.Merge(bt)
	rec.Sample(SkipHugeCase{Kind: "struct_string", N: 1<<24 + 1})
	rec.SetExhaustive()
}

// SkipVirtualCase: a fixed-width container (or string) whose declared payload is up to 32 GiB, presented
// to the stream-reader skip through a bufiox.Reader whose Skip only moves a cursor.
type SkipVirtualCase struct {
	T     int8   `json:"t"`
	KT    int8   `json:"kt,omitempty"`
	ET    int8   `json:"et,omitempty"`
	Count uint32 `json:"count"`
	Wrap  int    `json:"wrap,omitempty"` // 0 bare, 1 as the field of a struct, 2 as the element of a list
}

func checkSkipVirtual(c SkipVirtualCase, cv *cov) (v *evid.Violation) {
	if c.Count > 0x7fffffff {
		return nil
	}
	w := func(t int8) int64 {
		switch t {
		case ref.BOOL, ref.BYTE:
			return 1
		case ref.I16:
			return 2
		case ref.I32:
			return 4
		case ref.I64, ref.DOUBLE:
			return 8
		}
		return 0
	}
	be32 := func(b []byte, v uint32) []byte { return append(b, byte(v>>24), byte(v>>16), byte(v>>8), byte(v)) }
	var head []byte
	var payload int64
	switch c.T {
	case ref.STRING:
		head, payload = be32(nil, c.Count), int64(c.Count)
	case ref.LIST, ref.SET:
		if w(c.ET) == 0 {
			return nil
		}
		head, payload = be32([]byte{byte(c.ET)}, c.Count), int64(c.Count)*w(c.ET)
	case ref.MAP:
		if w(c.KT) == 0 || w(c.ET) == 0 {
			return nil
		}
		head, payload = be32([]byte{byte(c.KT), byte(c.ET)}, c.Count), int64(c.Count)*(w(c.KT)+w(c.ET))
	default:
		return nil
	}
	top := c.T
	tail := int64(0)
	switch c.Wrap {
	case 1:
		head = append([]byte{byte(c.T), 0, 7}, head...)
		top, tail = ref.STRUCT, 1 // the stop byte reads as zero from the virtual part
	case 2:
		head = append(be32([]byte{byte(c.T)}, 1), head...)
		top = ref.LIST
	}
	want := int64(len(head)) + payload + tail
	vr := &faultio.VirtualReader{Head: head, Size: want + 9}
	var err error
	var readn int64
	p, st := evid.Safe(func() {
		tr := thrift.NewBufferReader(vr)
		err = tr.Skip(thrift.TType(top))
		readn = tr.Readn()
		tr.Recycle()
	})
	cv.nontrivial = payload >= 1<<31
	cv.labelIf(payload >= 1<<32, "payload >= 2^32 bytes")
	cv.labelIf(payload >= 1<<31 && payload < 1<<32, "2^31 <= payload < 2^32")
	cv.labelIf(payload < 1<<31, "payload < 2^31")
	if p != nil {
		return &evid.Violation{Msg: fmt.Sprintf("BufferReader.Skip panicked on a well-formed value with a declared payload of %d bytes: %v", payload, p), Stack: st}
	}
	if err != nil || readn != want || vr.Pos != want {
		return evid.Failf("BufferReader.Skip(type %d) on a well-formed value (container type %d, key/elem types %d/%d, count %d, wrap %d) of %d bytes followed by 9 more bytes: err=%v, Readn=%d, reader position %d; want nil and exactly %d", top, c.T, c.KT, c.ET, c.Count, c.Wrap, want, err, readn, vr.Pos, want)
	}
	return nil
}

func init() { register("c02_skip_virtual", checkSkipVirtual) }

func TestC02_Virtual(t *testing.T) {
	rec := evid.New("C02", "c02_virtual", "enumeration + rapid: strings and fixed-width lists, sets and maps (all 6 element and 36 key/value type pairs) with declared counts from the boundary list {0, 1, 2^31/w - 1, 2^31/w, 2^31/w + 1, 2^32/w - 1, 2^32/w, 2^32/w + 1, 2^28 + 1, 2^31 - 1} for the element width w, and random counts, bare / as a struct field / as a list element; the value (up to 32 GiB) is presented to BufferReader.Skip through a bufiox.Reader whose Skip only moves a cursor; Readn and the reader position must equal the encoded size; non-trivial = payload >= 2^31 bytes")
	defer rec.Flush()
	fixed := []int8{ref.BOOL, ref.BYTE, ref.I16, ref.I32, ref.I64, ref.DOUBLE}
	width := map[int8]uint64{ref.BOOL: 1, ref.BYTE: 1, ref.I16: 2, ref.I32: 4, ref.I64: 8, ref.DOUBLE: 8}
	counts := func(w uint64) []uint32 {
		var out []uint32
		for _, x := range []uint64{0, 1, 1<<31/w - 1, 1 << 31 / w, 1<<31/w + 1, 1<<32/w - 1, 1 << 32 / w, 1<<32/w + 1, 1<<28 + 1, 1<<31 - 1} {
			if x <= 0x7fffffff {
				out = append(out, uint32(x))
			}
		}
		return out
	}
	run := func(c SkipVirtualCase) bool {
		var cv cov
		v := checkSkipVirtual(c, &cv)
		rec.Count(evid.HashJSON(c), cv.nontrivial, func() interface{} { return c }, cv.labels...)
		if v != nil {
			failEnum(t, rec, "c02_skip_virtual", c, v)
			return false
		}
		return true
	}
	for wrap := 0; wrap < 3; wrap++ {
		for _, n := range counts(1) {
			if !run(SkipVirtualCase{T: ref.STRING, Count: n, Wrap: wrap}) {
				return
			}
		}
		for _, et := range fixed {
			for _, n := range counts(width[et]) {
				if !run(SkipVirtualCase{T: ref.LIST, ET: et, Count: n, Wrap: wrap}) || !run(SkipVirtualCase{T: ref.SET, ET: et, Count: n, Wrap: wrap}) {
					return
				}
			}
			for _, kt := range fixed {
				for _, n := range counts(width[et] + width[kt]) {
					if !run(SkipVirtualCase{T: ref.MAP, KT: kt, ET: et, Count: n, Wrap: wrap}) {
						return
					}
				}
			}
		}
	}
	runRapid(t, rec, "c02_skip_virtual", evid.Pick(20000, 300000), func(t *rapid.T) SkipVirtualCase {
		c := SkipVirtualCase{T: rapid.SampledFrom([]int8{ref.STRING, ref.LIST, ref.SET, ref.MAP, ref.MAP}).Draw(t, "t"), KT: rapid.SampledFrom(fixed).Draw(t, "kt"), ET: rapid.SampledFrom(fixed).Draw(t, "et"), Wrap: rapid.IntRange(0, 2).Draw(t, "wrap")}
		c.Count = rapid.OneOf(rapid.Uint32Range(0, 0x7fffffff), rapid.Uint32Range(0x07000000, 0x21000000), rapid.Uint32Range(0, 100000)).Draw(t, "count")
		return c
	}, checkSkipVirtual)
}
