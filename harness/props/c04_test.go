package props

import (
	"bytes"
	"errors"
	"fmt"
	"io"
	"runtime/debug"
	"testing"

	"github.com/cloudwego/gopkg/bufiox"
	"github.com/cloudwego/gopkg/verifharness/evid"
	"github.com/cloudwego/gopkg/verifharness/faultio"
	"pgregory.net/rapid"
)

// ---- C04: buffered reader delivers the source bytes exactly, in order -----------------------------

// ROp is one reader operation.
type ROp struct {
	K string `json:"k"` // next peek skip readbin release
	N int    `json:"n"`
}

// ReaderCase is a reader history over a stream with position dependent content.
type ReaderCase struct {
	Total  int          `json:"total"`            // stream length
	Bytes  bool         `json:"bytes"`            // NewBytesReader instead of NewDefaultReader
	Cap    int          `json:"cap,omitempty"`    // capacity of the caller slice for the bytes reader (0 = len)
	Plan   faultio.Plan `json:"plan"`             // source behaviour (io.Reader backed)
	Ops    []ROp        `json:"ops"`              //
	Tenant int          `json:"tenant,omitempty"` // C09 only: 0 none, 1 pass mode, 2 hold mode, 3 alternate
	// BufSrc > 0: the io.Reader is a *bytes.Buffer that holds the first BufSrc bytes of the stream when the
	// reader is created; the producer writes the rest into the same Buffer right afterwards (Plan is unused:
	// the Buffer delivers what it has and io.EOF at the end).
	BufSrc int `json:"buf_src,omitempty"`
}

func streamByte(i int) byte { return byte(i*131 + i>>8 + i>>16) }

func makeStream(n int) []byte {
	b := make([]byte, n)
	for i := range b {
		b[i] = streamByte(i)
	}
	return b
}

type readerHooks struct {
	// afterOp is called after every operation (C09 co-tenant); live are the currently valid handed-out slices.
	afterOp func(step int, op ROp, live [][]byte) *evid.Violation
	caller  []byte // set by the interpreter: caller owned buffer (bytes reader)
}

type liveSlice struct {
	b    []byte
	off  int
	step int
}

// runReaderHistory interprets c against the cursor model. checkLive additionally verifies every
// retained slice before each Release and at the end (C09).
func runReaderHistory(c *ReaderCase, cv *cov, checkLive bool, hooks *readerHooks) (v *evid.Violation) {
	if c.Total < 0 || c.Total > 1<<27+1<<22 {
		return nil
	}
	src := makeStream(c.Total)
	plan := c.Plan
	var r bufiox.Reader
	var sr *faultio.ScriptReader
	var callerBuf, pristine []byte
	if c.Bytes {
		plan = faultio.Plan{ErrAt: c.Total, ErrKind: 0}
		plan.Normalize(c.Total)
		cp := c.Cap
		if cp < c.Total {
			cp = c.Total
		}
		callerBuf = make([]byte, c.Total, cp)
		copy(callerBuf, src)
		for i := c.Total; i < cp; i++ {
			callerBuf[:cp][i] = 0xEE
		}
		pristine = append([]byte(nil), callerBuf[:cp]...)
		r = bufiox.NewBytesReader(callerBuf)
		if hooks != nil {
			hooks.caller = callerBuf
		}
	} else if c.BufSrc > 0 {
		p1 := c.BufSrc
		if p1 > c.Total {
			p1 = c.Total
		}
		bb := &bytes.Buffer{}
		bb.Write(src[:p1])
		r = bufiox.NewDefaultReader(bb)
		bb.Write(src[p1:]) // the producer goes on writing into its Buffer
		plan = faultio.Plan{ErrAt: c.Total, ErrKind: 0}
		plan.Normalize(c.Total)
	} else {
		sr = faultio.NewScriptReader(src, plan)
		plan = sr.Plan
		r = bufiox.NewDefaultReader(sr)
	}
	errAt, srcErr := plan.ErrAt, plan.Err()
	// transient source error: bytes behind it may only be delivered after it has surfaced to the caller;
	// the model ends the history as soon as it has surfaced
	transient := plan.Recover && !c.Bytes
	surfaced := false
	pos, rel := 0, 0
	var lives []liveSlice
	var sawFrag, sawBig, sawErr, sawRelUnread, sawLiveGrow bool
	verifyLives := func(when string) *evid.Violation {
		for _, l := range lives {
			if !bytes.Equal(l.b, src[l.off:l.off+len(l.b)]) {
				return evid.Failf("%s: slice of %d bytes handed out at step %d (stream offset %d) no longer holds its bytes", when, len(l.b), l.step, l.off)
			}
		}
		return nil
	}
	liveBytes := func() [][]byte {
		out := make([][]byte, 0, len(lives))
		for _, l := range lives {
			out = append(out, l.b)
		}
		return out
	}
	var step int
	var op ROp
	body := func() {
		for step, op = range c.Ops {
			avail := errAt - pos
			calls0 := 0
			if sr != nil {
				calls0 = sr.Calls
			}
			switch op.K {
			case "next", "peek":
				var b []byte
				var err error
				if op.K == "next" {
					b, err = r.Next(op.N)
				} else {
					b, err = r.Peek(op.N)
				}
				switch {
				case op.N < 0:
					if err == nil {
						v = evid.Failf("step %d %s(%d): negative count accepted", step, op.K, op.N)
						return
					}
				case op.N <= avail:
					if err != nil {
						v = evid.Failf("step %d %s(%d): %d bytes are available before the source error but got err=%v", step, op.K, op.N, avail, err)
						return
					}
					if len(b) != op.N {
						v = evid.Failf("step %d %s(%d): returned %d bytes with nil error", step, op.K, op.N, len(b))
						return
					}
					if !bytes.Equal(b, src[pos:pos+op.N]) {
						v = evid.Failf("step %d %s(%d): wrong bytes at stream offset %d: got %s want %s", step, op.K, op.N, pos, hx(b), hx(src[pos:pos+op.N]))
						return
					}
					if len(lives) > 0 && op.N > 4096 {
						sawLiveGrow = true
					}
					if op.N > 0 {
						lives = append(lives, liveSlice{b, pos, step})
					}
					if op.K == "next" {
						pos += op.N
					}
					if op.N > 4096 {
						sawBig = true
					}
				default:
					if err == nil {
						v = evid.Failf("step %d %s(%d): only %d bytes exist before the source error, but the call succeeded (len=%d)", step, op.K, op.N, avail, len(b))
						return
					}
					if !errors.Is(err, srcErr) {
						v = evid.Failf("step %d %s(%d): error %v does not match the source error %v", step, op.K, op.N, err, srcErr)
						return
					}
					// what the returned slice holds on failure is not part of the statement (bufio-style readers
					// return the available bytes with the error); only "nothing consumed" is, via ReadLen below
					sawErr = true
				}
			case "skip":
				before := r.ReadLen()
				err := r.Skip(op.N)
				d := r.ReadLen() - before
				switch {
				case op.N < 0:
					if err == nil || d != 0 {
						v = evid.Failf("step %d skip(%d): negative count: err=%v consumed=%d", step, op.N, err, d)
						return
					}
				case op.N <= avail:
					if err != nil || d != op.N {
						v = evid.Failf("step %d skip(%d): %d bytes available, got err=%v consumed=%d", step, op.N, avail, err, d)
						return
					}
					pos += d
				default:
					if err == nil {
						v = evid.Failf("step %d skip(%d): only %d bytes exist but skip succeeded", step, op.N, avail)
						return
					}
					if !errors.Is(err, srcErr) {
						v = evid.Failf("step %d skip(%d): error %v does not match the source error %v", step, op.N, err, srcErr)
						return
					}
					if d < 0 || d > avail || d > op.N {
						v = evid.Failf("step %d skip(%d): failed skip changed ReadLen by %d (available %d)", step, op.N, d, avail)
						return
					}
					pos += d
					sawErr = true
				}
			case "readbin":
				if op.N < 0 {
					continue
				}
				bs := make([]byte, op.N)
				before := r.ReadLen()
				m, err := r.ReadBinary(bs)
				d := r.ReadLen() - before
				if m < 0 || m > op.N {
					v = evid.Failf("step %d readbin(%d): reported %d bytes", step, op.N, m)
					return
				}
				if d != m {
					v = evid.Failf("step %d readbin(%d): reported %d bytes but consumed %d", step, op.N, m, d)
					return
				}
				if m > avail {
					v = evid.Failf("step %d readbin(%d): reported %d bytes but only %d exist before the source error", step, op.N, m, avail)
					return
				}
				if !bytes.Equal(bs[:m], src[pos:pos+m]) {
					v = evid.Failf("step %d readbin(%d): wrong bytes at stream offset %d", step, op.N, pos)
					return
				}
				if m < op.N && err == nil {
					v = evid.Failf("step %d readbin(%d): short read of %d bytes with nil error", step, op.N, m)
					return
				}
				// a full read may carry the source error only when it consumed the very last byte before it
				// (io.Reader convention: data first, then the error); anywhere else err must be nil
				if op.N <= avail && (m != op.N || (err != nil && !(op.N > 0 && pos+m == errAt && errors.Is(err, srcErr)))) {
					v = evid.Failf("step %d readbin(%d): %d bytes available but got m=%d err=%v", step, op.N, avail, m, err)
					return
				}
				if m < op.N {
					if !errors.Is(err, srcErr) {
						v = evid.Failf("step %d readbin(%d): error %v does not match the source error %v", step, op.N, err, srcErr)
						return
					}
					sawErr = true
				}
				pos += m
				if op.N > 4096 {
					sawBig = true
				}
			case "release":
				if checkLive {
					if v = verifyLives(fmt.Sprintf("step %d before release", step)); v != nil {
						return
					}
				}
				lives = nil
				var relArg error
				if op.N%2 == 1 {
					relArg = errors.New("release reason") // the argument must not change what Release does to unread data
				}
				if err := r.Release(relArg); err != nil {
					v = evid.Failf("step %d release: err=%v", step, err)
					return
				}
				if pos < errAt {
					sawRelUnread = true
				}
				rel = pos
			default:
				continue
			}
			if sr != nil && sr.Calls-calls0 >= 2 {
				sawFrag = true
			}
			if transient && sawErr {
				surfaced = true
			}
			if got := r.ReadLen(); got != pos-rel {
				v = evid.Failf("step %d %s(%d): ReadLen=%d, but %d bytes were consumed since the last Release", step, op.K, op.N, got, pos-rel)
				return
			}
			if surfaced {
				break
			}
			if hooks != nil && hooks.afterOp != nil {
				if v = hooks.afterOp(step, op, liveBytes()); v != nil {
					return
				}
				if checkLive {
					if v = verifyLives(fmt.Sprintf("after step %d %s(%d) and the co-tenant", step, op.K, op.N)); v != nil {
						return
					}
				}
			}
		}
		if checkLive {
			if v = verifyLives("end of history"); v != nil {
				return
			}
		}
		if surfaced {
			return
		}
		// drain: the rest of the stream must arrive intact, followed by the source error
		bs := make([]byte, 8192)
		for iter := 0; ; iter++ {
			if iter > c.Total/8192+8 {
				v = evid.Failf("drain: reader keeps returning data beyond the stream (pos %d, errAt %d)", pos, errAt)
				return
			}
			m, err := r.ReadBinary(bs)
			if m < 0 || m > len(bs) || m > errAt-pos || !bytes.Equal(bs[:m], src[pos:pos+m]) {
				v = evid.Failf("drain at stream offset %d: m=%d err=%v remaining=%d: bytes differ from the source", pos, m, err, errAt-pos)
				return
			}
			pos += m
			if m < len(bs) {
				if err == nil {
					v = evid.Failf("drain: short read (%d of %d) with nil error at offset %d", m, len(bs), pos)
					return
				}
				if pos != errAt {
					v = evid.Failf("drain: error %v surfaced at stream offset %d but source data runs to %d: data lost", err, pos, errAt)
					return
				}
				if !errors.Is(err, srcErr) {
					v = evid.Failf("drain: final error %v does not match the source error %v", err, srcErr)
					return
				}
				break
			}
			if err != nil {
				if pos == errAt && errors.Is(err, srcErr) {
					break // the source error delivered together with the last full chunk
				}
				v = evid.Failf("drain: full read of %d bytes returned err=%v", m, err)
				return
			}
		}
		if callerBuf != nil && !bytes.Equal(callerBuf[:cap(callerBuf)], pristine) {
			v = evid.Failf("bytes reader modified the caller's slice (len %d cap %d)", len(callerBuf), cap(callerBuf))
			return
		}
	}
	if p, st := evid.Safe(body); p != nil {
		return &evid.Violation{Msg: fmt.Sprintf("panic at step %d %s(%d): %v", step, op.K, op.N, p), Stack: st}
	}
	if v != nil {
		return v
	}
	cv.nontrivial = sawFrag || sawBig || sawRelUnread
	cv.labelIf(sawFrag, "fragmented_read")
	cv.labelIf(sawBig, "request_gt_4096")
	cv.labelIf(sawErr, "source_error_hit")
	cv.labelIf(sawRelUnread, "release_with_unread")
	cv.labelIf(sawLiveGrow, "live_slice_across_big_request")
	cv.labelIf(c.Bytes, "bytes_reader")
	cv.labelIf(!c.Bytes && plan.WithData, "err_with_data")
	cv.labelIf(!c.Bytes && errAt < c.Total, "err_before_end")
	cv.labelIf(!c.Bytes && plan.ErrKind != 0, "err_not_eof")
	cv.labelIf(transient, "transient_error")
	return nil
}

func checkReaderCase(c ReaderCase, cv *cov) *evid.Violation {
	return runReaderHistory(&c, cv, false, nil)
}

func init() { register("c04_reader_history", checkReaderCase) }

var readerSizes = []int{0, 1, 2, 3, 7, 100, 4095, 4096, 4097, 8191, 8192, 8193, 20000}

func genPlan(t *rapid.T, total int) faultio.Plan {
	p := faultio.Plan{
		Chunks:   rapid.SliceOfN(rapid.SampledFrom([]int{0, 0, 1, 2, 3, 7, 100, 700, 1000, 4095, 4096, 4097, 8192}), 1, 4).Draw(t, "chunks"),
		Zeros:    rapid.SliceOfN(rapid.SampledFrom([]int{0, 0, 0, 1, 2, 3}), 1, 3).Draw(t, "zeros"),
		ErrAt:    total,
		WithData: rapid.Bool().Draw(t, "withData"),
		ErrKind:  rapid.SampledFrom([]int{0, 0, 1, 2, 3}).Draw(t, "errKind"),
	}
	if total > 0 && rapid.IntRange(0, 3).Draw(t, "errEarly") == 0 {
		p.ErrAt = rapid.IntRange(0, total).Draw(t, "errAt")
		p.Recover = rapid.Bool().Draw(t, "transient")
	}
	return p
}

func genReaderOps(t *rapid.T, maxOps int, kinds []string) []ROp {
	sizes := rapid.OneOf(rapid.SampledFrom(readerSizes), rapid.SampledFrom(readerSizes), rapid.IntRange(0, 30000), rapid.IntRange(-2, 70000))
	return rapid.SliceOfN(rapid.Custom(func(t *rapid.T) ROp {
		return ROp{rapid.SampledFrom(kinds).Draw(t, "k"), sizes.Draw(t, "n")}
	}), 1, maxOps).Draw(t, "ops")
}

func genReaderCase(t *rapid.T) ReaderCase {
	c := ReaderCase{}
	c.Total = rapid.OneOf(rapid.IntRange(0, 300), rapid.IntRange(0, 20000), rapid.IntRange(0, 100000)).Draw(t, "total")
	c.Bytes = rapid.IntRange(0, 3).Draw(t, "bytesReader") == 0
	if c.Bytes {
		switch rapid.IntRange(0, 3).Draw(t, "capKind") {
		case 0:
			c.Cap = c.Total
		case 1:
			c.Cap = nextPow2(c.Total)
		case 2: // an empty (or short) slice of a larger power-of-two buffer, e.g. a recycled frame[:0]
			if rapid.Bool().Draw(t, "emptySlice") {
				c.Total = 0
			}
			c.Cap = rapid.SampledFrom([]int{16, 4096, 8192, 65536}).Draw(t, "pow2cap")
			if c.Cap < c.Total {
				c.Cap = nextPow2(c.Total)
			}
		default:
			c.Cap = c.Total + rapid.IntRange(0, 5000).Draw(t, "spare")
		}
	} else {
		c.Plan = genPlan(t, c.Total)
		if rapid.IntRange(0, 7).Draw(t, "bufSrc") == 0 {
			c.BufSrc = rapid.OneOf(rapid.IntRange(1, 64), rapid.IntRange(1, 64), rapid.IntRange(1, 9000)).Draw(t, "bufSrcFirst")
			c.Plan = faultio.Plan{ErrAt: -1}
		}
	}
	maxOps := 40
	if rapid.IntRange(0, 9).Draw(t, "long") == 0 {
		maxOps = 300
	}
	c.Ops = genReaderOps(t, maxOps, []string{"next", "next", "peek", "skip", "readbin", "release"})
	return c
}

func nextPow2(n int) int {
	if n <= 0 {
		return 0
	}
	p := 1
	for p < n {
		p *= 2
	}
	return p
}

func TestC04_Random(t *testing.T) {
	rec := evid.New("C04", "c04_random", "rapid-generated reader histories (1..300 ops of Next/Peek/Skip/ReadBinary/Release, boundary sizes) over position-dependent streams of 0..100000 bytes with generated source plans (chunk sizes, zero reads, error position/kind, with/after data), sources that are a *bytes.Buffer still being written to by its producer, and bytes-backed readers; non-trivial = a successful read served by >=2 source reads, a request > 4096 bytes, or a Release with unread data")
	defer rec.Flush()
	runRapid(t, rec, "c04_reader_history", evid.Pick(30000, 200000), genReaderCase, checkReaderCase)
}

// TestC04_Exhaustive enumerates all programs up to a fixed length over a boundary alphabet, times a
// fixed set of source behaviours, and (fault enumeration) every error position of short streams.
func TestC04_Exhaustive(t *testing.T) {
	rec := evid.New("C04", "c04_exhaustive", "all programs of length <= L over {next,peek,skip,readbin}x{sizes}+release, times source behaviours; part B: streams of 10 bytes with the source error at every position 0..10, chunk sizes {1,2,fill}, error with/after data, two error values; distinct by construction")
	defer rec.Flush()
	type symbol = ROp
	mkAlphabet := func(sizes []int) []symbol {
		var a []symbol
		for _, k := range []string{"next", "peek", "skip", "readbin"} {
			for _, n := range sizes {
				a = append(a, symbol{k, n})
			}
		}
		return append(a, symbol{"release", 0})
	}
	// Part A: big sizes
	alphaA := mkAlphabet([]int{0, 1, 3, 4095, 4096, 4097, 8193, 5000})
	L := evid.Pick(3, 4)
	type behaviour struct {
		total int
		plan  faultio.Plan
		bytes bool
	}
	behA := []behaviour{
		{8200, faultio.Plan{Chunks: []int{1}, ErrAt: -1}, false},
		{8200, faultio.Plan{Chunks: []int{7}, Zeros: []int{1}, ErrAt: -1, WithData: true}, false},
		{8200, faultio.Plan{Chunks: []int{4096}, ErrAt: -1, ErrKind: 2}, false},
		{8200, faultio.Plan{Chunks: []int{0}, ErrAt: -1, WithData: true}, false},
		{5000, faultio.Plan{Chunks: []int{0}, ErrAt: 4097, ErrKind: 2, WithData: true}, false},
		{12300, faultio.Plan{Chunks: []int{4097, 1}, Zeros: []int{0, 2}, ErrAt: -1, ErrKind: 1}, false},
		{8200, faultio.Plan{}, true},
		{4096, faultio.Plan{}, true},
	}
	var mu = make(chan struct{}, 1)
	failed := false
	run := func(ops []ROp, b behaviour, batch *evid.Batch) {
		if failed {
			return
		}
		c := ReaderCase{Total: b.total, Bytes: b.bytes, Plan: b.plan, Ops: ops}
		if b.bytes {
			c.Cap = nextPow2(b.total)
		}
		var cv cov
		v := checkReaderCase(c, &cv)
		batch.Evals++
		if cv.nontrivial {
			batch.Distinct++
			batch.Nontrivial++
		}
		for _, l := range cv.labels {
			batch.Labels[l]++
		}
		if v != nil {
			mu <- struct{}{}
			if !failed {
				failed = true
				failEnum(t, rec, "c04_reader_history", c, v)
			}
			<-mu
		}
	}
	enumPrograms := func(alpha []symbol, maxLen int) [][]ROp {
		var out [][]ROp
		var rec func(prefix []ROp)
		rec = func(prefix []ROp) {
			if len(prefix) > 0 {
				out = append(out, append([]ROp(nil), prefix...))
			}
			if len(prefix) == maxLen {
				return
			}
			for _, s := range alpha {
				rec(append(prefix, s))
			}
		}
		rec(nil)
		return out
	}
	progsA := enumPrograms(alphaA, L)
	parallelFor(len(progsA), func(i int, b *evid.Batch) {
		for _, beh := range behA {
			run(progsA[i], beh, b)
		}
	}, rec)
	rec.Sample(ReaderCase{Total: behA[1].total, Plan: behA[1].plan, Ops: progsA[len(progsA)/2]})
	// Part B: fault enumeration over short streams
	alphaB := mkAlphabet([]int{0, 1, 2, 3, 7, 11})
	progsB := enumPrograms(alphaB, evid.Pick(3, 4))
	parallelFor(len(progsB), func(i int, b *evid.Batch) {
		for errAt := 0; errAt <= 10; errAt++ {
			for _, chunk := range []int{1, 2, 0} {
				for _, wd := range []bool{false, true} {
					for _, ek := range []int{0, 2} {
						run(progsB[i], behaviour{10, faultio.Plan{Chunks: []int{chunk}, ErrAt: errAt, WithData: wd, ErrKind: ek}, false}, b)
					}
				}
			}
		}
	}, rec)
	rec.Sample(ReaderCase{Total: 10, Plan: faultio.Plan{Chunks: []int{2}, ErrAt: 5, WithData: true, ErrKind: 2}, Ops: progsB[len(progsB)/3]})
	rec.SetExhaustive()
	rec.Label("programs_partA", int64(len(progsA)))
	rec.Label("programs_partB", int64(len(progsB)))
	_ = io.EOF
}

// TestC04_Ladder: two- and three-step histories over a ladder of sizes around every power of two from
// 2^12 to 2^21 (requests far beyond the default buffer, growth with and without a consumed prefix).
func TestC04_Ladder(t *testing.T) {
	rec := evid.New("C04", "c04_ladder", "enumeration: histories {Next a; Next b} / {Next a; Peek b; Next b} / {Skip a; ReadBinary b} / {Next a; Release; Next b} for all a, b in {2^k-1, 2^k, 2^k+1, 2^k+2^(k-1) : k = 12..21} with a+b <= 5 MiB, over an io.Reader delivering 64 KiB chunks (and one with data+EOF); distinct by construction")
	defer rec.Flush()
	var sizes []int
	for k := 12; k <= 21; k++ {
		sizes = append(sizes, 1<<k-1, 1<<k, 1<<k+1, 1<<k+1<<(k-1))
	}
	type pair struct{ a, b int }
	var pairs []pair
	for _, a := range sizes {
		for _, b := range sizes {
			if a+b <= 5<<20 {
				pairs = append(pairs, pair{a, b})
			}
		}
	}
	var failed bool
	lock := make(chan struct{}, 1)
	parallelFor(len(pairs), func(i int, bt *evid.Batch) {
		if failed {
			return
		}
		a, b := pairs[i].a, pairs[i].b
		progs := [][]ROp{
			{{"next", a}, {"next", b}},
			{{"next", a}, {"peek", b}, {"next", b}},
			{{"skip", a}, {"readbin", b}},
			{{"next", a}, {"release", 0}, {"next", b}},
		}
		for pi, ops := range progs {
			c := ReaderCase{Total: a + b + 100, Plan: faultio.Plan{Chunks: []int{65536}, ErrAt: -1, WithData: pi%2 == 1}, Ops: ops}
			var cv cov
			v := checkReaderCase(c, &cv)
			bt.Evals++
			bt.Distinct++
			bt.Nontrivial++
			if v != nil {
				lock <- struct{}{}
				if !failed {
					failed = true
					failEnum(t, rec, "c04_reader_history", c, v)
				}
				<-lock
				return
			}
		}
	}, rec)
	rec.Sample(ReaderCase{Total: 1<<20 + 1<<20 + 1<<19 + 100, Plan: faultio.Plan{Chunks: []int{65536}, ErrAt: -1}, Ops: []ROp{{"next", 1 << 20}, {"next", 1<<20 + 1<<19}}})
	rec.SetExhaustive()
}

// hugeSizes are request sizes from 4 MiB to 64 MiB (and a little beyond), around every power of two.
func hugeSizes() []int {
	var sizes []int
	top := evid.Pick(25, 26)
	for k := 22; k <= top; k++ {
		sizes = append(sizes, 1<<k-1, 1<<k, 1<<k+1, 1<<k+1<<(k-1)+777)
	}
	sizes = append(sizes, 1<<27+1) // one request just beyond 128 MiB
	return sizes
}

// TestC04_Huge: single requests of 4..64 MiB (thorough: ..100 MiB) behind a small consumed prefix.
func TestC04_Huge(t *testing.T) {
	rec := evid.New("C04", "c04_huge", "enumeration: histories {Next p; Next n} / {Next p; Peek n; Next n} / {Skip p; ReadBinary n} / {Next p; Release; Next n} for p in {0, 1000} and n in {2^k-1, 2^k, 2^k+1, 2^k+2^(k-1)+777 : k = 22..25 (thorough: ..26)} and n = 2^27+1, over an io.Reader delivering 1 MiB chunks (and one with data+EOF); run one at a time; distinct by construction")
	defer rec.Flush()
	bt := evid.NewBatch()
	shard, nshards := evid.Shard()
	idx := 0
	for _, n := range hugeSizes() {
		for _, p := range []int{0, 1000} {
			progs := [][]ROp{
				{{"next", p}, {"next", n}},
				{{"next", p}, {"peek", n}, {"next", n}},
				{{"skip", p}, {"readbin", n}},
				{{"next", p}, {"release", 0}, {"next", n}},
			}
			for pi, ops := range progs {
				idx++
				if idx%nshards != shard {
					continue
				}
				c := ReaderCase{Total: p + n + 100, Plan: faultio.Plan{Chunks: []int{1 << 20}, ErrAt: -1, WithData: pi%2 == 1}, Ops: ops}
				var cv cov
				v := checkReaderCase(c, &cv)
				bt.Evals++
				bt.Distinct++
				bt.Nontrivial++
				if v != nil {
					failEnum(t, rec, "c04_reader_history", c, v)
					rec.Merge(bt)
					return
				}
			}
		}
		debug.FreeOSMemory()
	}
	rec.Merge(bt)
	rec.Sample(ReaderCase{Total: 1000 + 1<<25 + 1 + 100, Plan: faultio.Plan{Chunks: []int{1 << 20}, ErrAt: -1}, Ops: []ROp{{"next", 1000}, {"next", 1<<25 + 1}}})
	rec.SetExhaustive()
}

// TestC04_Trickle: one large request served by very many tiny source reads with empty reads in between
// (never many in a row): the number of empty reads during one request goes far beyond any small bound
// while the source keeps making progress.
func TestC04_Trickle(t *testing.T) {
	rec := evid.New("C04", "c04_trickle", "enumeration: a single Next / Peek+Next / ReadBinary / Skip of n bytes (n in {150, 700, 1500, 5000, 20000}) after a consumed prefix of {0, 10} bytes, over a source delivering chunks of {1, 2, 3, 8} bytes with (0,nil) reads before chunks in the patterns {[1], [0,1], [3], [0,0,2], [2,3]} (up to 60000 empty reads within one request, at most 3 in a row), final data with or without io.EOF; distinct by construction")
	defer rec.Flush()
	bt := evid.NewBatch()
	for _, n := range []int{150, 700, 1500, 5000, 20000} {
		for _, chunk := range []int{1, 2, 3, 8} {
			for zi, zeros := range [][]int{{1}, {0, 1}, {3}, {0, 0, 2}, {2, 3}} {
				for _, pre := range []int{0, 10} {
					progs := [][]ROp{
						{{"next", pre}, {"next", n}},
						{{"next", pre}, {"peek", n}, {"next", n}},
						{{"next", pre}, {"readbin", n}},
						{{"next", pre}, {"skip", n}, {"next", 5}},
					}
					for pi, ops := range progs {
						c := ReaderCase{Total: pre + n + 5, Plan: faultio.Plan{Chunks: []int{chunk}, Zeros: zeros, ErrAt: -1, WithData: (pi+zi)%2 == 0}, Ops: ops}
						var cv cov
						v := checkReaderCase(c, &cv)
						bt.Evals++
						bt.Distinct++
						bt.Nontrivial++
						if v != nil {
							failEnum(t, rec, "c04_reader_history", c, v)
							rec.Merge(bt)
							return
						}
					}
				}
			}
		}
	}
	rec.Merge(bt)
	rec.Sample(ReaderCase{Total: 1505, Plan: faultio.Plan{Chunks: []int{8}, Zeros: []int{1}, ErrAt: -1}, Ops: []ROp{{"next", 0}, {"next", 1500}}})
	rec.SetExhaustive()
}

// TestC04_EmptyRuns: runs of up to 99 consecutive empty reads - one fewer than the number after which
// the reader (like bufio) may declare its source broken - at the start of a request, after partial
// progress within a request, and before every chunk. The data behind them must still be delivered.
func TestC04_EmptyRuns(t *testing.T) {
	rec := evid.New("C04", "c04_empty_runs", "enumeration: run lengths k in {4..99} x position {before the first chunk of the stream, before the second chunk (after partial progress inside one request), before every chunk} x request kind {Next, Peek+Next, ReadBinary, Skip+Next} x chunk size {1, 7, 100} for a 300-byte request behind a 5-byte prefix; the source never returns more than 99 empty reads in a row; distinct by construction")
	defer rec.Flush()
	rec.Assume("a source may return up to 99 consecutive (0,nil) reads: bufiox names 100 as the number of consecutive empty reads after which it gives up (maxConsecutiveEmptyReads), as bufio does; longer runs are outside the domain")
	bt := evid.NewBatch()
	for k := 4; k <= 99; k++ {
		for pos := 0; pos < 3; pos++ {
			for _, chunk := range []int{1, 7, 100} {
				var zeros []int
				switch pos {
				case 0:
					zeros = append([]int{k}, make([]int, 400)...)
				case 1:
					zeros = append([]int{0, k}, make([]int, 400)...)
				default:
					zeros = []int{k}
				}
				if pos == 2 && chunk == 1 && k > 20 && k%10 != 9 {
					continue // 300 x k empty reads: keep a subset
				}
				progs := [][]ROp{
					{{"next", 5}, {"next", 300}},
					{{"next", 5}, {"peek", 300}, {"next", 300}},
					{{"next", 5}, {"readbin", 300}},
					{{"next", 5}, {"skip", 300}, {"next", 3}},
				}
				for pi, ops := range progs {
					c := ReaderCase{Total: 5 + 300 + 3, Plan: faultio.Plan{Chunks: []int{5, chunk}, Zeros: zeros, LongZeros: true, ErrAt: -1, WithData: (pi+k)%2 == 0}, Ops: ops}
					if pos == 1 {
						// first request chunk makes progress, then the run of empty reads
						c.Plan.Chunks = []int{5, 1, chunk}
						c.Plan.Zeros = append([]int{0, 0, k}, make([]int, 400)...)
					}
					var cv cov
					v := checkReaderCase(c, &cv)
					bt.Evals++
					bt.Distinct++
					bt.Nontrivial++
					if v != nil {
						failEnum(t, rec, "c04_reader_history", c, v)
						rec.Merge(bt)
						return
					}
				}
			}
		}
	}
	rec.Merge(bt)
	rec.Sample(ReaderCase{Total: 308, Plan: faultio.Plan{Chunks: []int{5, 1, 7}, Zeros: []int{0, 0, 99, 0}, LongZeros: true, ErrAt: -1}, Ops: []ROp{{"next", 5}, {"next", 300}}})
	rec.SetExhaustive()
}

// TestC04_LongLived: one reader used for thousands of request/Release rounds after its buffer has grown
// once, with unread data left at (almost) every Release: adaptive buffer management that only acts after
// a long run of similar rounds must not lose, duplicate or invent bytes.
func TestC04_LongLived(t *testing.T) {
	rec := evid.New("C04", "c04_long_lived", "enumeration: one io.Reader-backed reader: a first request of {10000, 70000, 300000} bytes (the buffer grows), then 2600 rounds of {Next/ReadBinary/Peek+Next of {8, 100, 1000} bytes; Release (with a nil or non-nil argument)} over a source delivering chunks of {12, 100, 5000, 9000, 40000} bytes (so that 0..40000 unread bytes are buffered at each Release), final data with or without io.EOF; the cursor model checks every returned byte; distinct by construction")
	defer rec.Flush()
	type job struct{ first, small, chunk int }
	var jobs []job
	for _, first := range []int{10000, 70000, 300000} {
		for _, small := range []int{8, 100, 1000} {
			for _, chunk := range []int{12, 100, 5000, 9000, 40000} {
				jobs = append(jobs, job{first, small, chunk})
			}
		}
	}
	var failed bool
	lock := make(chan struct{}, 1)
	parallelFor(len(jobs), func(i int, b *evid.Batch) {
		if failed {
			return
		}
		j := jobs[i]
		const rounds = 2600
		ops := []ROp{{"next", j.first}, {"release", 0}}
		kinds := []string{"next", "readbin", "peek"}
		for r := 0; r < rounds; r++ {
			k := kinds[(r+i)%3]
			ops = append(ops, ROp{k, j.small})
			if k == "peek" {
				ops = append(ops, ROp{"next", j.small})
			}
			ops = append(ops, ROp{"release", r % 3}) // the history interpreter passes an error argument for n != 0
		}
		c := ReaderCase{Total: j.first + rounds*j.small + 50000, Plan: faultio.Plan{Chunks: []int{j.chunk}, ErrAt: -1, WithData: i%2 == 0}, Ops: ops}
		var cv cov
		v := checkReaderCase(c, &cv)
		b.Evals++
		b.Distinct++
		b.Nontrivial++
		if v != nil {
			lock <- struct{}{}
			if !failed {
				failed = true
				small := c
				small.Ops = nil
				failEnum(t, rec, "c04_long_lived", LongReaderCase{First: j.first, Small: j.small, Chunk: j.chunk, Rounds: rounds, WithData: i%2 == 0, Variant: i % 3}, v)
			}
			<-lock
		}
	}, rec)
	rec.Sample(LongReaderCase{First: 70000, Small: 100, Chunk: 9000, Rounds: 2600})
	rec.SetExhaustive()
}

// LongReaderCase is the compact replayable form of a c04_long_lived case.
type LongReaderCase struct {
	First    int  `json:"first"`
	Small    int  `json:"small"`
	Chunk    int  `json:"chunk"`
	Rounds   int  `json:"rounds"`
	WithData bool `json:"withdata,omitempty"`
	Variant  int  `json:"variant,omitempty"`
}

func init() {
	register("c04_long_lived", func(c LongReaderCase, cv *cov) *evid.Violation {
		if c.First < 0 || c.First > 1<<20 || c.Small < 1 || c.Small > 10000 || c.Rounds < 0 || c.Rounds > 20000 || c.Chunk < 0 {
			return nil
		}
		ops := []ROp{{"next", c.First}, {"release", 0}}
		kinds := []string{"next", "readbin", "peek"}
		for r := 0; r < c.Rounds; r++ {
			k := kinds[(r+c.Variant)%3]
			ops = append(ops, ROp{k, c.Small})
			if k == "peek" {
				ops = append(ops, ROp{"next", c.Small})
			}
			ops = append(ops, ROp{"release", r % 3})
		}
		rc := ReaderCase{Total: c.First + c.Rounds*c.Small + 50000, Plan: faultio.Plan{Chunks: []int{c.Chunk}, ErrAt: -1, WithData: c.WithData}, Ops: ops}
		return checkReaderCase(rc, cv)
	})
}
