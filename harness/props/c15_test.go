package props

import (
	"bytes"
	"fmt"
	"testing"

	"github.com/cloudwego/gopkg/internal/testutils/netpoll"
	"github.com/cloudwego/gopkg/protocol/thrift"
	"github.com/cloudwego/gopkg/verifharness/evid"
	"github.com/cloudwego/gopkg/verifharness/ref"
	"pgregory.net/rapid"
)

// ---- C15: no-copy write path produces the same stream as the copying path -----------------------

type directRec struct {
	d   [][]byte
	rem []int
}

func (r *directRec) WriteDirect(b []byte, remainCap int) error {
	r.d = append(r.d, b)
	r.rem = append(r.rem, remainCap)
	return nil
}

// splice inserts the directly written pieces into the linear buffer at the positions the library
// indicated (remainCap counts from the end of the buffer that was handed to the writer).
func splice(B []byte, n int, r *directRec) ([]byte, string) {
	var out []byte
	start := 0
	for i := range r.d {
		p := len(B) - r.rem[i]
		if p < start || p > n {
			return nil, fmt.Sprintf("direct write %d is placed at linear offset %d, outside [%d,%d]", i, p, start, n)
		}
		out = append(out, B[start:p]...)
		out = append(out, r.d[i]...)
		start = p
	}
	return append(out, B[start:n]...), ""
}

// NocopyCase: direct level (a run of strings/binaries into one linear buffer) or struct level.
type NocopyCase struct {
	Vals      []PStr  `json:"vals,omitempty"`   // direct level: values written one after another
	IsBin     []bool  `json:"is_bin,omitempty"` // per value: binary instead of string
	Slack     int     `json:"slack,omitempty"`  // linear buffer is this much longer than needed
	NilWriter bool    `json:"nil_writer,omitempty"`
	SpareCap  int     `json:"spare_cap,omitempty"` // the linear buffer has this much capacity beyond its length (pooled / size-class buffers)
	Struct    *FCCase `json:"struct,omitempty"`    // struct level
}

func checkNocopy(c NocopyCase, cv *cov) (v *evid.Violation) {
	x := thrift.Binary
	nDirect := 0
	nearThreshold := false
	body := func() {
		if c.Struct == nil {
			if len(c.Vals) == 0 || len(c.Vals) > 8 || c.Slack < 0 || c.Slack > 1<<16 {
				return
			}
			var want []byte
			total, advertised := 0, 0
			vals := make([][]byte, len(c.Vals))
			for i, pv := range c.Vals {
				if pv.L < 0 || pv.L > 1<<18 || c.SpareCap < 0 || c.SpareCap > 1<<16 {
					return
				}
				vals[i] = patternBytes(pv.S, pv.L)
				want = ref.Put32(want, uint32(pv.L))
				want = append(want, vals[i]...)
				total += 4 + pv.L
				bin := i < len(c.IsBin) && c.IsBin[i]
				if bin {
					advertised += x.BinaryLengthNocopy(vals[i])
					if x.BinaryLengthNocopy(vals[i]) != x.BinaryLength(vals[i]) {
						v = evid.Failf("BinaryLengthNocopy(%d bytes)=%d differs from BinaryLength=%d", pv.L, x.BinaryLengthNocopy(vals[i]), x.BinaryLength(vals[i]))
						return
					}
				} else {
					advertised += x.StringLengthNocopy(string(vals[i]))
					if x.StringLengthNocopy(string(vals[i])) != x.StringLength(string(vals[i])) {
						v = evid.Failf("StringLengthNocopy(%d bytes) differs from StringLength", pv.L)
						return
					}
				}
				if pv.L%4096 <= 1 || pv.L%4096 == 4095 {
					nearThreshold = true
				}
			}
			if advertised != total {
				v = evid.Failf("advertised no-copy lengths sum to %d, the copying encoding has %d bytes", advertised, total)
				return
			}
			B := make([]byte, total+c.Slack, total+c.Slack+c.SpareCap)
			rec := &directRec{}
			var w thrift.NocopyWriter
			if !c.NilWriter {
				w = rec
			}
			off := 0
			for i := range vals {
				bin := i < len(c.IsBin) && c.IsBin[i]
				if bin {
					off += x.WriteBinaryNocopy(B[off:], w, vals[i])
				} else {
					off += x.WriteStringNocopy(B[off:], w, string(vals[i]))
				}
			}
			if c.NilWriter {
				if off != total || !bytes.Equal(B[:off], want) {
					v = evid.Failf("without a direct writer the no-copy path wrote %d bytes, the copying path %d; first difference at %d", off, total, firstDiff(B[:off], want))
					return
				}
				return
			}
			nDirect = len(rec.d)
			v = verifySplice(B, off, rec, want, vals)
			return
		}
		// struct level
		sc := *c.Struct
		if sc.Kind < 0 || sc.Kind > 2 {
			return
		}
		m := sc.model()
		px := newFC(sc.Kind, &m)
		bl := px.BLength()
		want := make([]byte, bl)
		if n := px.FastWriteNocopy(want, nil); n != bl {
			v = evid.Failf("%s: copying path wrote %d bytes, BLength()=%d", kindNames[sc.Kind], n, bl)
			return
		}
		for _, s := range m.s {
			if len(s)%4096 <= 1 || len(s)%4096 == 4095 {
				nearThreshold = true
			}
		}
		// the struct may be embedded in a larger message: the buffer handed in can be longer than its own length
		B := make([]byte, bl+c.Slack, bl+c.Slack+c.SpareCap)
		rec := &directRec{}
		var w thrift.NocopyWriter
		if !c.NilWriter {
			w = rec
		}
		n := px.FastWriteNocopy(B, w)
		if c.NilWriter && len(m.extra) <= 1 && !bytes.Equal(B[:n], want) { // with >= 2 map entries the two runs may iterate in different orders
			v = evid.Failf("%s: without a direct writer the no-copy path differs from the copying path at offset %d", kindNames[sc.Kind], firstDiff(B[:n], want))
			return
		}
		if c.NilWriter {
			if n != bl {
				v = evid.Failf("%s: nil direct writer wrote %d, want %d", kindNames[sc.Kind], n, bl)
				return
			}
			return
		}
		nDirect = len(rec.d)
		var callerVals [][]byte
		for _, s := range m.s {
			callerVals = append(callerVals, []byte(s))
		}
		for k, val := range m.extra {
			callerVals = append(callerVals, []byte(k), []byte(val))
		}
		if len(m.extra) <= 1 {
			if v = verifySplice(B, n, rec, want, callerVals); v != nil {
				v.Msg = kindNames[sc.Kind] + ": " + v.Msg
			}
		} else {
			// map iteration order may differ between the two runs: validity predicate instead of byte equality
			stream, why := splice(B, n, rec)
			if why != "" {
				v = evid.Failf("%s: %s", kindNames[sc.Kind], why)
				return
			}
			if len(stream) != bl {
				v = evid.Failf("%s: spliced stream has %d bytes, advertised %d", kindNames[sc.Kind], len(stream), bl)
				return
			}
			stream = stream[:bl]
			r := ref.Walk(stream, ref.STRUCT)
			if r.Class != ref.OK || r.N != bl {
				v = evid.Failf("%s: spliced stream is not one well-formed struct of %d bytes: %s", kindNames[sc.Kind], bl, refDesc(r))
				return
			}
			dv, _ := ref.Decode(stream, ref.STRUCT)
			re, _ := ref.Encode(&dv)
			if !bytes.Equal(re, stream) {
				v = evid.Failf("%s: spliced stream is not the canonical encoding of what it decodes to", kindNames[sc.Kind])
				return
			}
			y := newFC(sc.Kind, nil)
			if nn, err := y.FastRead(stream); err != nil || nn != bl {
				v = evid.Failf("%s: FastRead of the spliced stream: (%d,%v)", kindNames[sc.Kind], nn, err)
				return
			}
			got := readBack(sc.Kind, y)
			if d := eqModel(sc.Kind, &got, &m); d != "" {
				v = evid.Failf("%s: spliced stream decodes to a different value: %s", kindNames[sc.Kind], d)
				return
			}
			for i, d := range rec.d {
				if rec.rem[i] < len(d) {
					v = evid.Failf("%s: direct piece %d of %d bytes announced with remainCap %d", kindNames[sc.Kind], i, len(d), rec.rem[i])
					return
				}
			}
		}
		// second opinion: the repository's own test double
		if v == nil {
			nw := &netpoll.NetpollDirectWriter{}
			tail := "small tail"
			b2 := nw.Malloc(bl + 4 + len(tail))
			n2 := px.FastWriteNocopy(b2, nw)
			first := nw.Bytes()
			if len(m.extra) <= 1 && !bytes.Equal(first[:bl], want) {
				v = evid.Failf("%s: netpoll test double reassembles a stream different from the copying path", kindNames[sc.Kind])
				return
			}
			// a further small (copied) value behind the struct, then the splice is asked for again
			n2 += thrift.Binary.WriteStringNocopy(b2[n2:], nw, tail)
			second := nw.Bytes()
			wantTail := append(ref.Put32(nil, uint32(len(tail))), tail...)
			if len(second) != bl+4+len(tail) || !bytes.Equal(second[bl:], wantTail) || (len(m.extra) <= 1 && !bytes.Equal(second[:bl], want)) {
				v = evid.Failf("%s: netpoll test double: the splice requested again after a further small value was written does not contain that value", kindNames[sc.Kind])
				return
			}
		}
	}
	if p, st := evid.Safe(body); p != nil {
		return &evid.Violation{Msg: fmt.Sprintf("panic: %v", p), Stack: st}
	}
	if v != nil {
		return v
	}
	cv.nontrivial = nDirect >= 2 || nearThreshold
	cv.label(fmt.Sprintf("direct_writes_%d", minInt(nDirect, 4)))
	cv.labelIf(nearThreshold, "length_within_1_of_4096_multiple")
	cv.labelIf(c.NilWriter, "nil_direct_writer")
	cv.labelIf(c.Struct != nil, "struct_level")
	return nil
}

func verifySplice(B []byte, n int, rec *directRec, want []byte, callerVals [][]byte) *evid.Violation {
	stream, why := splice(B, n, rec)
	if why != "" {
		return evid.Failf("%s", why)
	}
	tot := n
	for i, d := range rec.d {
		tot += len(d)
		if rec.rem[i] < len(d) {
			return evid.Failf("direct piece %d of %d bytes announced with remainCap %d: it does not fit where the library says it goes", i, len(d), rec.rem[i])
		}
		found := false
		for _, cvv := range callerVals {
			if bytes.Equal(cvv, d) {
				found = true
				break
			}
		}
		if !found {
			return evid.Failf("direct piece %d (%d bytes) is not one of the caller's values", i, len(d))
		}
	}
	if tot != len(want) {
		return evid.Failf("linear bytes (%d) + direct bytes = %d, the copying path has %d", n, tot, len(want))
	}
	if !bytes.Equal(stream, want) {
		return evid.Failf("spliced stream differs from the copying path at offset %d (%d direct writes, linear %d bytes, total %d)", firstDiff(stream, want), len(rec.d), n, len(want))
	}
	return nil
}

func init() { register("c15_nocopy", checkNocopy) }

func genNocopyLen(t *rapid.T, l string) int {
	if rapid.IntRange(0, 39).Draw(t, l+"long") == 0 {
		return rapid.SampledFrom([]int{65535, 65536, 65537, 70000, 131072}).Draw(t, l+"longLen")
	}
	return rapid.OneOf(rapid.IntRange(4080, 4112), rapid.IntRange(8176, 8208), rapid.IntRange(0, 12288), rapid.IntRange(0, 64), rapid.SampledFrom([]int{0, 1, 4095, 4096, 4097, 8191, 8192, 8193, 12288})).Draw(t, l)
}

func genNocopyCase(t *rapid.T) NocopyCase {
	var c NocopyCase
	c.NilWriter = rapid.IntRange(0, 5).Draw(t, "nilWriter") == 0
	c.SpareCap = rapid.SampledFrom([]int{0, 0, 1, 5, 64, 4096}).Draw(t, "spareCap")
	if rapid.Bool().Draw(t, "structLevel") {
		sc := FCCase{Kind: rapid.SampledFrom([]int{0, 0, 1, 1, 2}).Draw(t, "kind")}
		for i := range sc.S {
			sc.S[i] = PStr{L: genNocopyLen(t, "slen"), S: rapid.Byte().Draw(t, "sseed")}
		}
		sc.I32 = rapid.Int32().Draw(t, "i32")
		sc.ExtraNil = rapid.IntRange(0, 3).Draw(t, "extraNil") == 0
		if !sc.ExtraNil {
			for i := rapid.SampledFrom([]int{0, 1, 1, 2, 3, 8, 17}).Draw(t, "nextra"); i > 0; i-- {
				sc.Extra = append(sc.Extra, KVP{K: PStr{L: genNocopyLen(t, "klen"), S: byte(i)}, V: PStr{L: genNocopyLen(t, "vlen"), S: byte(i + 100)}})
			}
		}
		c.Struct = &sc
		c.Slack = rapid.SampledFrom([]int{0, 0, 1, 7, 100, 5000}).Draw(t, "structSlack")
		return c
	}
	n := rapid.IntRange(1, 6).Draw(t, "nvals")
	for i := 0; i < n; i++ {
		c.Vals = append(c.Vals, PStr{L: genNocopyLen(t, "len"), S: rapid.Byte().Draw(t, "seed")})
		c.IsBin = append(c.IsBin, rapid.Bool().Draw(t, "bin"))
	}
	c.Slack = rapid.SampledFrom([]int{0, 0, 1, 100, 5000}).Draw(t, "slack")
	return c
}

func TestC15_Random(t *testing.T) {
	rec := evid.New("C15", "c15_random", "rapid: direct level = 1..6 consecutive WriteStringNocopy/WriteBinaryNocopy into one linear buffer (exact size or with slack), value lengths 0..12288 with emphasis on 4080..4112, 8176..8208; struct level = Base/BaseResp/ApplicationException with every field and 0..3 map entries drawn from the same length distribution; nil and non-nil direct writer; oracle = independent splice of the recorded (slice, remainCap) pairs into the linear buffer vs the copying path (validity predicate when the map has >= 2 entries), length accounting, every direct piece is one of the caller's values and fits; second opinion from the repository's netpoll test double; non-trivial = >= 2 direct writes in one buffer or a length within 1 of a 4096 multiple")
	defer rec.Flush()
	runRapid(t, rec, "c15_nocopy", evid.Pick(25000, 300000), genNocopyCase, checkNocopy)
}

func TestC15_Windows(t *testing.T) {
	rec := evid.New("C15", "c15_windows", "enumeration: every value length 4080..4112 and 8176..8208 and 0..40 x {string, binary} x {alone exact buffer, alone with slack, preceded by a small value, followed by a large value, nil writer}; Base with each single field at each window length; distinct by construction")
	defer rec.Flush()
	var lens []int
	for n := 0; n <= 40; n++ {
		lens = append(lens, n)
	}
	for n := 4080; n <= 4112; n++ {
		lens = append(lens, n)
	}
	for n := 8176; n <= 8208; n++ {
		lens = append(lens, n)
	}
	var failed bool
	lock := make(chan struct{}, 1)
	parallelFor(len(lens), func(i int, b *evid.Batch) {
		n := lens[i]
		var cases []NocopyCase
		for _, bin := range []bool{false, true} {
			cases = append(cases,
				NocopyCase{Vals: []PStr{{L: n, S: 1}}, IsBin: []bool{bin}},
				NocopyCase{Vals: []PStr{{L: n, S: 2}}, IsBin: []bool{bin}, Slack: 77},
				NocopyCase{Vals: []PStr{{L: 3, S: 9}, {L: n, S: 3}}, IsBin: []bool{!bin, bin}},
				NocopyCase{Vals: []PStr{{L: n, S: 4}, {L: 5000, S: 5}, {L: 1, S: 6}}, IsBin: []bool{bin, bin, !bin}},
				NocopyCase{Vals: []PStr{{L: n, S: 7}}, IsBin: []bool{bin}, NilWriter: true},
				NocopyCase{Vals: []PStr{{L: n, S: 8}, {L: 3, S: 1}}, IsBin: []bool{bin, bin}, SpareCap: 5},
			)
		}
		for f := 0; f < 3; f++ {
			sc := FCCase{Kind: 0, ExtraNil: true}
			sc.S[f] = PStr{L: n, S: byte(f)}
			cases = append(cases, NocopyCase{Struct: &sc})
		}
		sc := FCCase{Kind: 1, S: [3]PStr{{L: n, S: 1}}, Extra: []KVP{{K: PStr{L: n, S: 2}, V: PStr{L: 4096, S: 3}}}}
		cases = append(cases, NocopyCase{Struct: &sc})
		for _, c := range cases {
			if failed {
				return
			}
			var cv cov
			v := checkNocopy(c, &cv)
			b.Evals++
			b.Distinct++
			if cv.nontrivial {
				b.Nontrivial++
			}
			for _, l := range cv.labels {
				b.Labels[l]++
			}
			if v != nil {
				lock <- struct{}{}
				if !failed {
					failed = true
					failEnum(t, rec, "c15_nocopy", c, v)
				}
				<-lock
			}
		}
	}, rec)
	rec.Sample(NocopyCase{Vals: []PStr{{L: 4096, S: 4}, {L: 5000, S: 5}, {L: 1, S: 6}}, IsBin: []bool{false, false, true}})
	rec.SetExhaustive()
}

// ---- histories on the repository's direct-writer double -------------------------------------------------

// DoubleMsg is one message written through a NetpollDirectWriter that is reused from message to message.
type DoubleMsg struct {
	Lens    []int `json:"lens"`              // value lengths
	Reject  bool  `json:"reject,omitempty"`  // first, a large value is written into an undersized buffer (the double refuses it)
	Forward bool  `json:"forward,omitempty"` // value 0 is a sub-slice of the buffer the double handed out for the previous message
	// RejectMid: between the first and the second value of the message a large value is offered together with an
	// undersized scratch buffer (the double refuses it); the message then goes on in its own buffer
	RejectMid bool `json:"reject_mid,omitempty"`
}

// DoubleCase is a sequence of messages on one double.
type DoubleCase struct {
	Msgs []DoubleMsg `json:"msgs"`
}

func checkDoubleHistory(c DoubleCase, cv *cov) (v *evid.Violation) {
	if len(c.Msgs) == 0 || len(c.Msgs) > 12 {
		return nil
	}
	nw := &netpoll.NetpollDirectWriter{}
	var prevBuf []byte
	sawReject, sawForward, sawDirectAfter := false, false, false
	body := func() {
		for mi, m := range c.Msgs {
			if len(m.Lens) == 0 || len(m.Lens) > 8 {
				continue
			}
			if m.Reject {
				small := nw.Malloc(10)
				big := patternBytes(byte(mi+9), 5000)
				p, _ := evid.Safe(func() { thrift.Binary.WriteBinaryNocopy(small, nw, big) })
				if p == nil {
					v = evid.Failf("message %d: the double accepted a 5000-byte direct write into a 10-byte buffer", mi)
					return
				}
				sawReject = true
			}
			var vals [][]byte
			total := 0
			for i, l := range m.Lens {
				if l < 0 || l > 1<<17 {
					l = 0
				}
				var val []byte
				if i == 0 && m.Forward && len(prevBuf) >= 8 {
					// zero-copy forwarding of bytes that already sit in the previous message's buffer
					hi := len(prevBuf)
					lo := hi - l
					if lo < 0 {
						lo = 0
					}
					val = prevBuf[lo:hi]
					sawForward = true
				} else {
					val = patternBytes(byte(mi*16+i+1), l)
				}
				vals = append(vals, val)
				total += 4 + len(val)
			}
			var want []byte
			for _, val := range vals {
				want = append(ref.Put32(want, uint32(len(val))), val...)
			}
			b := nw.Malloc(total)
			off := 0
			for vi, val := range vals {
				off += thrift.Binary.WriteBinaryNocopy(b[off:], nw, val)
				if vi == 0 && m.RejectMid {
					scratch := make([]byte, 10)
					big := patternBytes(byte(mi+3), 5000)
					if p, _ := evid.Safe(func() { thrift.Binary.WriteBinaryNocopy(scratch, nw, big) }); p == nil {
						v = evid.Failf("message %d: the double accepted a 5000-byte direct write with 6 bytes of remaining capacity", mi)
						return
					}
					sawReject = true
				}
			}
			got := nw.Bytes() // the buffer offset advances by 4 only for a value handed over directly
			if !bytes.Equal(got, want) {
				v = evid.Failf("message %d of %d on one reused direct writer (value lengths %v, after a refused write: %v, with a refused write after the first value: %v, first value forwarded from the previous buffer: %v): the spliced stream differs from the copying path at offset %d (%d vs %d bytes)", mi, len(c.Msgs), m.Lens, m.Reject, m.RejectMid, m.Forward && prevBuf != nil, firstDiff(got, want), len(got), len(want))
				return
			}
			if nw.WriteDirectN() > 0 && mi > 0 {
				sawDirectAfter = true
			}
			prevBuf = b
		}
	}
	if p, st := evid.Safe(body); p != nil {
		return &evid.Violation{Msg: fmt.Sprintf("panic on a reused direct writer: %v", p), Stack: st}
	}
	if v != nil {
		return v
	}
	cv.nontrivial = sawDirectAfter
	cv.labelIf(sawReject, "refused_direct_write_then_reuse")
	cv.labelIf(sawForward, "value_forwarded_from_previous_buffer")
	cv.labelIf(sawDirectAfter, "direct_write_on_a_reused_writer")
	return nil
}

func init() { register("c15_double_history", checkDoubleHistory) }

func TestC15_DoubleHistory(t *testing.T) {
	rec := evid.New("C15", "c15_double_history", "rapid: 1..8 messages written one after the other through one NetpollDirectWriter (the repository's direct-writer double, reused via Malloc): each message is 1..5 binaries (lengths as in c15_random) written with WriteBinaryNocopy and spliced with Bytes(); before some messages, and in some messages between the first and the second value, a 5000-byte direct write with a 10-byte buffer is refused by the double (recovered); in some messages the first value is a sub-slice of the buffer handed out for the previous message (zero-copy forwarding); oracle = copying path; non-trivial = a direct write happened on a reused writer")
	defer rec.Flush()
	runRapid(t, rec, "c15_double_history", evid.Pick(15000, 150000), func(t *rapid.T) DoubleCase {
		var c DoubleCase
		n := rapid.IntRange(1, 8).Draw(t, "msgs")
		for i := 0; i < n; i++ {
			m := DoubleMsg{Reject: rapid.IntRange(0, 3).Draw(t, "reject") == 0, Forward: rapid.IntRange(0, 2).Draw(t, "forward") == 0, RejectMid: rapid.IntRange(0, 3).Draw(t, "rejectMid") == 0}
			k := rapid.IntRange(1, 5).Draw(t, "nvals")
			for j := 0; j < k; j++ {
				m.Lens = append(m.Lens, genNocopyLen(t, "len"))
			}
			c.Msgs = append(c.Msgs, m)
		}
		return c
	}, checkDoubleHistory)
}
