package props

import (
	"bytes"
	"context"
	"fmt"
	"os"
	"os/exec"
	"runtime"
	"strconv"
	"strings"
	"sync"
	"testing"

	"github.com/cloudwego/gopkg/bufiox"
	"github.com/cloudwego/gopkg/protocol/thrift/base"
	"github.com/cloudwego/gopkg/protocol/thrift/unknownfields"
	"github.com/cloudwego/gopkg/protocol/ttheader"

	"github.com/cloudwego/gopkg/container/strmap"
	"github.com/cloudwego/gopkg/protocol/thrift"
	"github.com/cloudwego/gopkg/verifharness/evid"
	"github.com/cloudwego/gopkg/verifharness/faultio"
	"github.com/cloudwego/gopkg/verifharness/ref"
	"pgregory.net/rapid"
)

// ---- C14: concurrent use -----------------------------------------------------------------------------

// ConcTask is one self-checking task; exactly one of the sub-cases is set.
type ConcTask struct {
	Codec   *CodecCase    `json:"codec,omitempty"`
	Skip    *SkipSeqCase  `json:"skip,omitempty"`
	TTH     *TTHCase      `json:"tth,omitempty"`
	Reader  *ReaderCase   `json:"reader,omitempty"`
	Writer  *WriterCase   `json:"writer,omitempty"`
	FC      *FCCase       `json:"fc,omitempty"`
	Frame   *TTHFrameCase `json:"frame,omitempty"`   // a hand-built TTHeader frame (sections in any order, transforms) decoded and compared with the reference
	ReadStr []int         `json:"readstr,omitempty"` // lengths decoded with Binary.ReadString/ReadBinary
	MapGet  int           `json:"mapget,omitempty"`  // number of Get probes on the shared maps
	UF      *UFCase       `json:"uf,omitempty"`      // unknown-field conversion round trip
	UFBad   []evid.Hex    `json:"uf_bad,omitempty"`  // inputs ConvertUnknownFields has to reject
	// SharedEnc > 0: that many TTHeader encodes whose IntInfo/StrInfo maps (incl. the acl-token key) are the
	// same map values in every goroutine; the encoder only reads them, which is safe to do concurrently
	SharedEnc int `json:"shared_enc,omitempty"`
}

var sharedEncInt = map[uint16]string{1: "a", 9: "method", 27: "3"}
var sharedEncStr = map[string]string{"k": "v", ref.ACLTokenKey: "token-value", "x": "y", "isn": "svc"}

// ConcCase is a set of per-goroutine task lists.
type ConcCase struct {
	Procs   int          `json:"procs"`
	MapKeys int          `json:"map_keys"` // size of the shared maps loaded before the goroutines start
	Tasks   [][]ConcTask `json:"tasks"`    // one list per goroutine
	Reps    int          `json:"reps"`
	Clone   int          `json:"clone,omitempty"` // run this many copies of every goroutine's list (more contention, same case size)
}

func runConcTask(g, idx int, tk *ConcTask, sm *strmap.StrMap[int], s2s *strmap.Str2Str, keys []string) *evid.Violation {
	var cv cov
	switch {
	case tk.Codec != nil:
		c := *tk.Codec
		c.Prefix = []byte{byte(g), byte(idx)}
		return checkCodec(c, &cv)
	case tk.Skip != nil:
		return checkSkipSeq(*tk.Skip, &cv)
	case tk.TTH != nil:
		c := *tk.TTH
		c.Seq = int32(g*1000 + idx)
		return checkTTHRoundTrip(c, &cv)
	case tk.Reader != nil:
		return runReaderHistory(tk.Reader, &cv, true, nil)
	case tk.Writer != nil:
		return runWriterHistory(tk.Writer, &cv, nil)
	case tk.FC != nil:
		return checkFastCodec(*tk.FC, &cv)
	case tk.Frame != nil:
		for k := 0; k < 20; k++ {
			if v := checkTTHDecode(*tk.Frame, &cv); v != nil {
				return v
			}
		}
		return nil
	case tk.SharedEnc > 0:
		for i := 0; i < tk.SharedEnc; i++ {
			frame, err := ttheader.EncodeToBytes(context.Background(), ttheader.EncodeParam{SeqID: int32(g*1000 + i), IntInfo: sharedEncInt, StrInfo: sharedEncStr})
			if err != nil {
				return evid.Failf("goroutine %d: EncodeToBytes with shared info maps failed: %v", g, err)
			}
			dp, err := ttheader.DecodeFromBytes(context.Background(), frame)
			if err != nil || dp.SeqID != int32(g*1000+i) || !eqIntMap(dp.IntInfo, sharedEncInt) || !eqStrMap(dp.StrInfo, sharedEncStr) {
				return evid.Failf("goroutine %d: a frame encoded from info maps that other goroutines encode from at the same time does not decode back to them (err=%v, %d int / %d string entries)", g, err, len(dp.IntInfo), len(dp.StrInfo))
			}
		}
		if len(sharedEncStr) != 4 || sharedEncStr[ref.ACLTokenKey] != "token-value" {
			return evid.Failf("goroutine %d: Encode modified the caller's StrInfo map", g)
		}
	case tk.UF != nil:
		return checkUnknownFields(*tk.UF, &cv)
	case tk.UFBad != nil:
		for rep := 0; rep < 50; rep++ {
			for _, b := range tk.UFBad {
				if _, ok := parseFieldSeq(b); ok {
					continue
				}
				if _, err := unknownfields.ConvertUnknownFields(b); err == nil {
					return evid.Failf("goroutine %d task %d: ConvertUnknownFields accepted a malformed field sequence %s", g, idx, hx(b))
				}
			}
		}
	case tk.ReadStr != nil:
		in := make([]byte, 0, 4096)
		for i, l := range tk.ReadStr {
			if l < 0 || l > 1<<17 {
				continue
			}
			in = append(in[:0], byte(l>>24), byte(l>>16), byte(l>>8), byte(l))
			for j := 0; j < l; j++ {
				in = append(in, byte(g*17+idx*5+i+j))
			}
			want := append([]byte(nil), in[4:]...)
			s, n1, err1 := thrift.Binary.ReadString(in)
			b, n2, err2 := thrift.Binary.ReadBinary(in)
			for j := range in {
				in[j] = 0xEE
			}
			if err1 != nil || err2 != nil || n1 != 4+l || n2 != 4+l || s != string(want) || !bytes.Equal(b, want) {
				return evid.Failf("goroutine %d task %d: ReadString/ReadBinary of %d tagged bytes returned foreign or wrong data (err %v/%v)", g, idx, l, err1, err2)
			}
		}
	case tk.MapGet > 0:
		for i := 0; i < tk.MapGet; i++ {
			k := keys[(g*31+idx*7+i*13)%len(keys)]
			if v, ok := sm.Get(k); !ok || v != len(k)*1000+int(k[len(k)-1]) {
				return evid.Failf("goroutine %d: shared StrMap.Get(%q) = (%d,%v)", g, k, v, ok)
			}
			if v, ok := s2s.Get(k); !ok || v != "v:"+k {
				return evid.Failf("goroutine %d: shared Str2Str.Get(%q) = (%q,%v)", g, k, v, ok)
			}
			if i%64 == 0 && len(keys) <= 100 {
				// printing a loaded map is a query too
				if str := sm.String(); len(str) == 0 {
					return evid.Failf("goroutine %d: shared StrMap.String() returned an empty text", g)
				}
			}
			absent := k + "\x00absent"
			if _, ok := sm.Get(absent); ok {
				return evid.Failf("goroutine %d: shared StrMap.Get(absent key) reported present", g)
			}
			if _, ok := s2s.Get(absent); ok {
				return evid.Failf("goroutine %d: shared Str2Str.Get(absent key) reported present", g)
			}
		}
	}
	return nil
}

func checkConcurrent(c ConcCase, cv *cov) *evid.Violation {
	if len(c.Tasks) == 0 || len(c.Tasks) > 64 {
		return nil
	}
	procs := c.Procs
	if procs < 1 {
		procs = 2
	}
	if procs > runtime.NumCPU() {
		procs = runtime.NumCPU()
	}
	old := runtime.GOMAXPROCS(procs)
	defer runtime.GOMAXPROCS(old)
	nk := c.MapKeys
	if nk < 1 {
		nk = 1
	}
	if nk > 5000 {
		nk = 5000
	}
	keys := make([]string, nk)
	mi := map[string]int{}
	ms := map[string]string{}
	for i := range keys {
		keys[i] = fmt.Sprintf("key-%d-%c", i, 'a'+i%26)
		mi[keys[i]] = len(keys[i])*1000 + int(keys[i][len(keys[i])-1])
		ms[keys[i]] = "v:" + keys[i]
	}
	sm := strmap.NewFromMap(mi)
	s2s := strmap.NewStr2StrFromMap(ms)
	reps := c.Reps
	if reps < 1 {
		reps = 1
	}
	clone := c.Clone
	if clone < 1 {
		clone = 1
	}
	for rep := 0; rep < reps; rep++ {
		var wg sync.WaitGroup
		var mu sync.Mutex
		var first *evid.Violation
		start := make(chan struct{})
		for cl := 0; cl < clone; cl++ {
			for g := range c.Tasks {
				wg.Add(1)
				go func(g, cl int) {
					defer wg.Done()
					<-start
					for idx := range c.Tasks[g] {
						var v *evid.Violation
						p, st := evid.Safe(func() { v = runConcTask(g+cl*100, idx, &c.Tasks[g][idx], sm, s2s, keys) })
						if p != nil {
							v = &evid.Violation{Msg: fmt.Sprintf("goroutine %d task %d panicked: %v", g, idx, p), Stack: st}
						}
						if v != nil {
							mu.Lock()
							if first == nil {
								v.Msg = fmt.Sprintf("under concurrency (goroutine %d, task %d, repetition %d, %d goroutines, GOMAXPROCS %d): %s", g, idx, rep, len(c.Tasks)*clone, procs, v.Msg)
								first = v
							}
							mu.Unlock()
							return
						}
						if idx%2 == 0 {
							runtime.Gosched()
						}
					}
				}(g, cl)
			}
		}
		close(start)
		wg.Wait()
		if first != nil {
			return first
		}
	}
	cv.nontrivial = len(c.Tasks)*clone >= 2
	cv.label(fmt.Sprintf("goroutines_%d", len(c.Tasks)*clone))
	cv.label(fmt.Sprintf("procs_%d", procs))
	kinds := map[string]bool{}
	for _, l := range c.Tasks {
		for _, tk := range l {
			switch {
			case tk.Codec != nil:
				kinds["codec"] = true
			case tk.Skip != nil:
				kinds["skip"] = true
			case tk.TTH != nil:
				kinds["tth"] = true
			case tk.Reader != nil:
				kinds["reader"] = true
			case tk.Writer != nil:
				kinds["writer"] = true
			case tk.FC != nil:
				kinds["fastcodec"] = true
			case tk.Frame != nil:
				kinds["tth_frame_with_transforms"] = true
			case tk.SharedEnc > 0:
				kinds["tth_encode_from_shared_maps"] = true
			case tk.UF != nil:
				kinds["unknown_fields"] = true
			case tk.UFBad != nil:
				kinds["unknown_fields_rejected"] = true
			case tk.ReadStr != nil:
				kinds["readstr"] = true
			case tk.MapGet > 0:
				kinds["mapget"] = true
			}
		}
	}
	for k := range kinds {
		cv.label("task_" + k)
	}
	return nil
}

func init() { register("c14_concurrent", checkConcurrent) }

func genConcTask(t *rapid.T) ConcTask {
	switch rapid.IntRange(0, 11).Draw(t, "task") {
	case 11:
		return ConcTask{SharedEnc: rapid.IntRange(5, 200).Draw(t, "sharedEnc")}
	case 9:
		c := genUFCase(t)
		if len(c.Data) > 20000 {
			return ConcTask{MapGet: 10}
		}
		c.WarmUp = 0
		return ConcTask{UF: &c}
	case 10:
		c := genUFCase(t)
		var bad []evid.Hex
		for i := 0; i < 3; i++ {
			if len(c.Data) > 1 {
				bad = append(bad, append([]byte(nil), c.Data[:rapid.IntRange(1, len(c.Data)-1).Draw(t, "cut")]...))
			}
		}
		bad = append(bad, []byte{0x0b, 0, 1, 0xff, 0xff, 0xff, 0xff})
		return ConcTask{UFBad: bad}
	case 8:
		// a frame as another implementation could send it: 1..4 transform ids, sections in any order
		tr := rapid.SliceOfN(rapid.Byte(), 1, 4).Draw(t, "transforms")
		secs := []tthSection{{id: 0x10, count: 1, ints: []ref.IntKV{{K: 3, V: "v"}}}, {id: 1, count: 1, strs: []ref.StrKV{{K: "k", V: "vv"}}}}
		b := buildFrame(100, 2, int32(len(tr)), 0, tr, secs, nil)
		return ConcTask{Frame: &TTHFrameCase{Data: b, Plan: faultio.Plan{Chunks: []int{0}, ErrAt: -1}}}
	case 0:
		c := CodecCase{Items: rapid.SliceOfN(rapid.Custom(genItem), 1, 8).Draw(t, "items"), Plan: faultio.Plan{Chunks: []int{rapid.SampledFrom([]int{0, 1, 7, 4096}).Draw(t, "chunk")}, ErrAt: -1}}
		for i := range c.Items {
			if c.Items[i].SLen > 9000 {
				c.Items[i].SLen %= 9000
			}
		}
		return ConcTask{Codec: &c}
	case 1:
		var c SkipSeqCase
		n := rapid.IntRange(1, 3).Draw(t, "nvals")
		for i := 0; i < n; i++ {
			v := genValue(t, 0, rapid.IntRange(0, 3).Draw(t, "vdepth"), false, rapid.Bool().Draw(t, "bigStrings"))
			enc, _ := ref.Encode(&v)
			c.Types = append(c.Types, v.T)
			c.Encs = append(c.Encs, enc)
		}
		c.Trailer = rapid.SliceOfN(rapid.Byte(), 0, 5).Draw(t, "trailer")
		c.Plan = faultio.Plan{Chunks: []int{rapid.SampledFrom([]int{0, 3, 4096}).Draw(t, "chunk")}, ErrAt: -1, WithData: rapid.Bool().Draw(t, "wd")}
		return ConcTask{Skip: &c}
	case 2:
		c := genTTHCase(t)
		if c.Steer > 1000 {
			c.Steer = 0
		}
		if c.Payload > 5000 {
			c.Payload = 5000
		}
		for i := range c.Int {
			if c.Int[i].V.L > 500 {
				c.Int[i].V.L = 500
			}
		}
		for i := range c.Str {
			if c.Str[i].V.L > 500 {
				c.Str[i].V.L = 500
			}
		}
		return ConcTask{TTH: &c}
	case 3:
		c := genReaderTenantCase(t)
		c.Tenant = 0
		if c.Total > 100000 {
			c.Total = 100000
		}
		return ConcTask{Reader: &c}
	case 4:
		c := genWriterCase(t)
		if len(c.Ops) > 15 {
			c.Ops = c.Ops[:15]
		}
		return ConcTask{Writer: &c}
	case 5:
		c := genFCCase(t)
		for i := range c.S {
			if c.S[i].L > 5000 {
				c.S[i].L = 5000
			}
		}
		return ConcTask{FC: &c}
	case 6:
		return ConcTask{ReadStr: rapid.SliceOfN(rapid.SampledFrom([]int{0, 1, 100, 127, 128, 1000, 4096, 20000}), 1, 20).Draw(t, "lens")}
	default:
		return ConcTask{MapGet: rapid.IntRange(1, 300).Draw(t, "gets")}
	}
}

func genConcCase(t *rapid.T) ConcCase {
	c := ConcCase{Procs: rapid.SampledFrom([]int{2, 4, 16}).Draw(t, "procs"), MapKeys: rapid.SampledFrom([]int{1, 5, 100, 3000}).Draw(t, "mapKeys"), Reps: evid.Pick(3, 10)}
	g := rapid.SampledFrom([]int{2, 4, 8}).Draw(t, "goroutines")
	c.Clone = rapid.SampledFrom([]int{1, 1, 2, 4}).Draw(t, "clone")
	// a few shared "themes" so that several goroutines use the same pooled type and size class
	for i := 0; i < g; i++ {
		n := rapid.IntRange(1, 6).Draw(t, "ntasks")
		var l []ConcTask
		for j := 0; j < n; j++ {
			l = append(l, genConcTask(t))
		}
		c.Tasks = append(c.Tasks, l)
	}
	if rapid.Bool().Draw(t, "mirror") && len(c.Tasks) >= 2 {
		c.Tasks[1] = c.Tasks[0] // two goroutines running the very same list
	}
	return c
}

func TestC14_Concurrent(t *testing.T) {
	rec := evid.New("C14", "c14_concurrent", "rapid: program sets of 2..32 goroutines (GOMAXPROCS 2/4/16), each with its own list of 1..6 self-checking tasks drawn from: codec script round trip over private bufiox instances, all five skippers incl. the three pooled skip decoders, TTHeader encode/decode (also from info maps shared read-only between goroutines), raw bufiox reader and writer histories (contending on the shared mcache across size classes), shipped FastCodec structs, unknown-field conversion round trips and rejected conversions, Binary.ReadString/ReadBinary on tagged payloads, and Get on shared StrMap/Str2Str instances loaded before the goroutines start; every task applies the sequential oracle of its property; each set repeated; built with -race, any DATA RACE report is a violation; non-trivial = >= 2 goroutines (always)")
	defer rec.Flush()
	rec.Assume("schedules are chosen by the Go scheduler: repeated randomized stress, no schedule coverage is claimed")
	shard, _ := evid.Shard()
	span := spanEnabled() || shard%2 == 1
	rec.Assume("the span cache is enabled for the whole process in odd shards and disabled in even shards; the switch is never flipped while goroutines run")
	rec.Label(fmt.Sprintf("span_cache_enabled_%v", span), 1)
	thrift.SetSpanCache(span)
	defer thrift.SetSpanCache(false)
	runRapid(t, rec, "c14_concurrent", evid.Pick(150, 600), genConcCase, checkConcurrent)
}

// ---- first use in a fresh process ------------------------------------------------------------------------

// FirstUseCase: a fresh process (the race-instrumented test binary re-executed) in which 8 goroutines,
// each with its own instances, meet every failing path for the first time at the same moment.
type FirstUseCase struct {
	Seed int `json:"seed"`
}

func c14FirstUseChild() {
	seed, _ := strconv.Atoi(os.Getenv("VERIF_C14_SEED"))
	const g = 8
	runtime.GOMAXPROCS(16)
	// a permutation of all type bytes, derived from the seed (pure function of the case)
	perm := make([]int, 256)
	for i := range perm {
		perm[i] = i
	}
	x := uint64(seed)*0x9e3779b97f4a7c15 + 1
	for i := 255; i > 0; i-- {
		x ^= x << 13
		x ^= x >> 7
		x ^= x << 17
		j := int(x % uint64(i+1))
		perm[i], perm[j] = perm[j], perm[i]
	}
	rounds := len(perm)
	// a blocking barrier per round (a busy-wait barrier of 8 goroutines burns minutes of CPU on a loaded
	// machine); what the goroutines do after leaving it is unordered with respect to each other
	barrier := make([]sync.WaitGroup, rounds)
	for i := range barrier {
		barrier[i].Add(g)
	}
	texts := make([][g]string, rounds)
	var wg sync.WaitGroup
	for w := 0; w < g; w++ {
		wg.Add(1)
		go func(w int) {
			defer wg.Done()
			for r := 0; r < rounds; r++ {
				tb := thrift.TType(perm[r])
				data := []byte{byte(perm[r]), 0, 1, 0, 0, 0, 1, 7, 0, 0, 0}
				barrier[r].Done()
				barrier[r].Wait()
				var sb strings.Builder
				note := func(err error) {
					if err != nil {
						sb.WriteString(err.Error())
					}
					sb.WriteByte('|')
				}
				// a struct whose only field has the type byte under test, and the bare type
				_, err := thrift.Binary.Skip(data, thrift.STRUCT)
				note(err)
				_, err = thrift.Binary.Skip(data[3:], tb)
				note(err)
				bd := thrift.NewBytesSkipDecoder(data)
				_, err = bd.Next(thrift.STRUCT)
				note(err)
				bd.Release()
				br := thrift.NewBufferReader(bufiox.NewBytesReader(data))
				note(br.Skip(thrift.STRUCT))
				br.Recycle()
				br = thrift.NewBufferReader(bufiox.NewBytesReader(data[3:]))
				note(br.Skip(tb))
				br.Recycle()
				rb := bufiox.NewBytesReader(data)
				sd := thrift.NewSkipDecoder(rb)
				_, err = sd.Next(thrift.STRUCT)
				note(err)
				sd.Release()
				rb.Release(nil)
				rd := thrift.NewReaderSkipDecoder(bytes.NewReader(data))
				_, err = rd.Next(thrift.STRUCT)
				note(err)
				rd.Release()
				var ae thrift.ApplicationException
				_, err = ae.FastRead(data)
				note(err)
				var bs base.Base
				_, err = bs.FastRead(data)
				note(err)
				_, err = unknownfields.ConvertUnknownFields(data)
				note(err)
				_, err = ttheader.DecodeFromBytes(context.Background(), append([]byte{0, 0, 0, 20, 0x10, 0, 0, 0, 0, 0, 0, 0, 0, 1, byte(perm[r]), 0, byte(perm[r]), 0}, data...))
				note(err)
				note(thrift.PrependError("p: ", thrift.NewProtocolException(int32(perm[r]), "m")))
				texts[r][w] = sb.String()
			}
		}(w)
	}
	wg.Wait()
	for r := range texts {
		for w := 1; w < g; w++ {
			if texts[r][w] != texts[r][0] {
				fmt.Printf("C14-FIRST-USE-FAILED: type byte %d: goroutine %d observed %q, goroutine 0 observed %q\n", perm[r], w, texts[r][w], texts[r][0])
				os.Exit(3)
			}
		}
	}
}

func checkFirstUse(c FirstUseCase, cv *cov) *evid.Violation {
	cmd := exec.Command(os.Args[0], "-test.run", "^TestC14_FirstUse$")
	cmd.Env = append(os.Environ(), "VERIF_C14_CHILD=1", fmt.Sprintf("VERIF_C14_SEED=%d", c.Seed), "VERIF_OUT=", "GORACE=halt_on_error=1")
	out, err := cmd.CombinedOutput()
	cv.nontrivial = true
	if bytes.Contains(out, []byte("DATA RACE")) {
		msg := string(out)
		if len(msg) > 1800 {
			msg = msg[:1800]
		}
		return evid.Failf("data race between independent instances on their first use in a fresh process (8 goroutines, type-byte order from seed %d): %s", c.Seed, msg)
	}
	if bytes.Contains(out, []byte("C14-FIRST-USE-FAILED")) {
		msg := string(out)
		if len(msg) > 800 {
			msg = msg[:800]
		}
		return evid.Failf("independent instances used at the same time for the first time in a fresh process disagree (seed %d): %s", c.Seed, msg)
	}
	if err != nil {
		cv.label("child_could_not_run") // resources, signals: inconclusive for this child, never a violation
	}
	return nil
}

func init() { register("c14_first_use", checkFirstUse) }

// TestC14_FirstUse re-executes the (race-instrumented) test binary; see FirstUseCase.
func TestC14_FirstUse(t *testing.T) {
	if os.Getenv("VERIF_C14_CHILD") == "1" {
		c14FirstUseChild()
		return
	}
	rec := evid.New("C14", "c14_first_use", "fresh processes (the race-instrumented test binary re-executed): 8 goroutines, each with its own buffers and decoders, walk all 256 type bytes in a seed-derived order; for every byte they leave a barrier together and run the failing paths of all five skippers, the shipped FastRead structs, unknown-field conversion, TTHeader decode and PrependError for the first time in the process; any DATA RACE report or any difference between what the goroutines observed is a violation; every child process is one evaluation; non-trivial = always")
	defer rec.Flush()
	n := evid.Pick(5, 16)
	shard, _ := evid.Shard()
	base := int(seedFor("c14_first_use") % 1000003)
	for i := 0; i < n; i++ {
		c := FirstUseCase{Seed: base + shard*1000 + i}
		var cv cov
		v := checkFirstUse(c, &cv)
		rec.Count(evid.HashJSON(c), cv.nontrivial, func() interface{} { return c }, cv.labels...)
		if v != nil {
			failEnum(t, rec, "c14_first_use", c, v)
			return
		}
	}
}
