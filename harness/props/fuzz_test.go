package props

import (
	"testing"

	"github.com/cloudwego/gopkg/verifharness/faultio"
	"github.com/cloudwego/gopkg/verifharness/ref"
)

// Native coverage-guided fuzz targets. The semantic oracle is inside the target (the same checker
// functions the rapid and enumeration tiers use); a failing input is saved by the go tool under
// testdata/fuzz/<target>/ and moved to /verif/replays by the driver.

func fuzzSeeds(f *testing.F) {
	seeds := [][]byte{
		{},
		{0x00},
		{0x0b, 0x00, 0x01, 0x00, 0x00, 0x00, 0x01, 'A', 0x00},
		{0x80, 0x01, 0x00, 0x01, 0x00, 0x00, 0x00, 0x01, 'm', 0x00, 0x00, 0x00, 0x07, 0x00},
		{0x0d, 0x00, 0x06, 0x0b, 0x0b, 0x00, 0x00, 0x00, 0x01, 0, 0, 0, 1, 'k', 0, 0, 0, 1, 'v', 0x00},
		{0x0b, 0x0a, 0x00, 0x00, 0x00, 0x01, 0x00, 0x00, 0x00, 0x00, 0xaa},
		{0x0f, 0x00, 0x01, 0x0c, 0x00, 0x00, 0x00, 0x02, 0x08, 0x00, 0x01, 0, 0, 0, 5, 0x00, 0x00, 0x00},
		{0x03, 0x03, 0xff, 0x00, 0x00, 0x00},
		{0x7f, 0xff, 0xff, 0xff}, {0x80, 0x00, 0x00, 0x00}, {0xff, 0xff, 0xff, 0xff},
		{0, 0, 0, 20, 0x10, 0, 0, 0, 0, 0, 0, 1, 0, 1, 0, 0, 0, 0},
		{0, 0, 0, 30, 0x10, 0, 0, 2, 0, 0, 0, 9, 0, 4, 0, 0, 1, 0, 1, 0, 1, 'k', 0, 1, 'v', 0x10, 0, 1, 0, 5, 0, 1, 'x', 0},
	}
	for _, s := range seeds {
		for _, t := range []byte{0x0c, 0x0d, 0x0f, 0x0b, 0x80, 0xff, 0x02} {
			f.Add(s, t)
		}
	}
	// a deep nest
	deep := ref.Value{T: ref.LIST, ET: ref.STRING}
	for i := 0; i < 66; i++ {
		deep = ref.Value{T: ref.LIST, ET: ref.LIST, Elems: []ref.Value{deep}}
	}
	enc, _ := ref.Encode(&deep)
	f.Add(enc, byte(0x0f))
}

func FuzzC03EntryPoints(f *testing.F) {
	fuzzSeeds(f)
	f.Fuzz(func(t *testing.T, data []byte, ty byte) {
		if len(data) > 1<<16 {
			return
		}
		if v := checkEntryPoints(EPCase{T: int8(ty), Data: data}, &cov{}); v != nil {
			t.Fatalf("VIOLATION-CASE c03_entry_points: %s\n%s", v.Msg, v.Stack)
		}
	})
}

func FuzzC08SkipGrammar(f *testing.F) {
	fuzzSeeds(f)
	f.Fuzz(func(t *testing.T, data []byte, ty byte) {
		if len(data) > 1<<16 {
			return
		}
		plan := faultio.Plan{Chunks: []int{int(ty>>4) & 7}, ErrAt: -1, WithData: ty&1 == 1}
		if v := checkSkipGrammar(SkipCase{T: int8(ty), Data: data, Plan: plan}, &cov{}); v != nil {
			t.Fatalf("VIOLATION-CASE c08_skip_grammar: %s\n%s", v.Msg, v.Stack)
		}
	})
}

func FuzzC10TTHDecode(f *testing.F) {
	f.Add([]byte{0, 0, 0, 20, 0x10, 0, 0, 0, 0, 0, 0, 1, 0, 1, 0, 0, 0, 0}, byte(0))
	f.Add([]byte{0, 0, 0, 30, 0x10, 0, 0, 2, 0, 0, 0, 9, 0, 4, 0, 0, 1, 0, 1, 0, 1, 'k', 0, 1, 'v', 0x10, 0, 1, 0, 5, 0, 1, 'x', 0}, byte(1))
	f.Add([]byte{0, 0, 0, 30, 0x10, 0, 0, 2, 0, 0, 0, 9, 0, 3, 0, 0, 0x11, 0, 2, 'a', 'b', 0, 0x10, 0, 0, 0}, byte(3))
	f.Add([]byte{0, 0, 0, 30, 0x10, 0, 0, 2, 0, 0, 0, 9, 0x40, 0x01, 0, 0, 0, 0}, byte(0))
	f.Add([]byte{0, 0, 0, 30, 0x10, 0, 0, 2, 0, 0, 0, 9, 0, 2, 3, 2, 7, 8, 1, 0, 0, 0}, byte(0))
	f.Fuzz(func(t *testing.T, data []byte, k byte) {
		if len(data) > 1<<17 {
			return
		}
		plan := faultio.Plan{Chunks: []int{int(k & 15)}, ErrAt: -1, WithData: k&16 != 0}
		if v := checkTTHDecode(TTHFrameCase{Data: data, Plan: plan}, &cov{}); v != nil {
			t.Fatalf("VIOLATION-CASE c10_tth_decode: %s\n%s", v.Msg, v.Stack)
		}
	})
}
