package props

import (
	"testing"

	"github.com/cloudwego/gopkg/verifharness/faultio"
	"github.com/cloudwego/gopkg/verifharness/ref"
)

// Native coverage-guided fuzz targets. The semantic oracle is inside the target (the same checker
// functions the rapid and enumeration tiers use); a failing input is saved by the go tool under
// testdata/fuzz/<target>/ and moved to /verif/replays by the driver.

func fuzzSeeds(f *testing.F) {
	seeds := [][]byte{
		{},
		{0x00},
		{0x0b, 0x00, 0x01, 0x00, 0x00, 0x00, 0x01, 'A', 0x00},
		{0x80, 0x01, 0x00, 0x01, 0x00, 0x00, 0x00, 0x01, 'm', 0x00, 0x00, 0x00, 0x07, 0x00},
		{0x0d, 0x00, 0x06, 0x0b, 0x0b, 0x00, 0x00, 0x00, 0x01, 0, 0, 0, 1, 'k', 0, 0, 0, 1, 'v', 0x00},
		{0x0b, 0x0a, 0x00, 0x00, 0x00, 0x01, 0x00, 0x00, 0x00, 0x00, 0xaa},
		{0x0f, 0x00, 0x01, 0x0c, 0x00, 0x00, 0x00, 0x02, 0x08, 0x00, 0x01, 0, 0, 0, 5, 0x00, 0x00, 0x00},
		{0x03, 0x03, 0xff, 0x00, 0x00, 0x00},
		{0x7f, 0xff, 0xff, 0xff}, {0x80, 0x00, 0x00, 0x00}, {0xff, 0xff, 0xff, 0xff},
		{0, 0, 0, 20, 0x10, 0, 0, 0, 0, 0, 0, 1, 0, 1, 0, 0, 0, 0},
		{0, 0, 0, 30, 0x10, 0, 0, 2, 0, 0, 0, 9, 0, 4, 0, 0, 1, 0, 1, 0, 1, 'k', 0, 1, 'v', 0x10, 0, 1, 0, 5, 0, 1, 'x', 0},
	}
	for _, s := range seeds {
		for _, t := range []byte{0x0c, 0x0d, 0x0f, 0x0b, 0x80, 0xff, 0x02} {
			f.Add(s, t)
		}
	}
	// a deep nest
	deep := ref.Value{T: ref.LIST, ET: ref.STRING}
	for i := 0; i < 66; i++ {
		deep = ref.Value{T: ref.LIST, ET: ref.LIST, Elems: []ref.Value{deep}}
	}
	enc, _ := ref.Encode(&deep)
	f.Add(enc, byte(0x0f))
}

func FuzzC03EntryPoints(f *testing.F) {
	fuzzSeeds(f)
	f.Fuzz(func(t *testing.T, data []byte, ty byte) {
		if len(data) > 1<<16 {
			return
		}
		if v := checkEntryPoints(EPCase{T: int8(ty), Data: data}, &cov{}); v != nil {
			t.Fatalf("VIOLATION-CASE c03_entry_points: %s\n%s", v.Msg, v.Stack)
		}
	})
}

func FuzzC08SkipGrammar(f *testing.F) {
	fuzzSeeds(f)
	f.Fuzz(func(t *testing.T, data []byte, ty byte) {
		if len(data) > 1<<16 {
			return
		}
		plan := faultio.Plan{Chunks: []int{int(ty>>4) & 7}, ErrAt: -1, WithData: ty&1 == 1}
		if v := checkSkipGrammar(SkipCase{T: int8(ty), Data: data, Plan: plan}, &cov{}); v != nil {
			t.Fatalf("VIOLATION-CASE c08_skip_grammar: %s\n%s", v.Msg, v.Stack)
		}
	})
}

func FuzzC10TTHDecode(f *testing.F) {
	f.Add([]byte{0, 0, 0, 20, 0x10, 0, 0, 0, 0, 0, 0, 1, 0, 1, 0, 0, 0, 0}, byte(0))
	f.Add([]byte{0, 0, 0, 30, 0x10, 0, 0, 2, 0, 0, 0, 9, 0, 4, 0, 0, 1, 0, 1, 0, 1, 'k', 0, 1, 'v', 0x10, 0, 1, 0, 5, 0, 1, 'x', 0}, byte(1))
	f.Add([]byte{0, 0, 0, 30, 0x10, 0, 0, 2, 0, 0, 0, 9, 0, 3, 0, 0, 0x11, 0, 2, 'a', 'b', 0, 0x10, 0, 0, 0}, byte(3))
	f.Add([]byte{0, 0, 0, 30, 0x10, 0, 0, 2, 0, 0, 0, 9, 0x40, 0x01, 0, 0, 0, 0}, byte(0))
	f.Add([]byte{0, 0, 0, 30, 0x10, 0, 0, 2, 0, 0, 0, 9, 0, 2, 3, 2, 7, 8, 1, 0, 0, 0}, byte(0))
	f.Fuzz(func(t *testing.T, data []byte, k byte) {
		if len(data) > 1<<17 {
			return
		}
		plan := faultio.Plan{Chunks: []int{int(k & 15)}, ErrAt: -1, WithData: k&16 != 0}
		if v := checkTTHDecode(TTHFrameCase{Data: data, Plan: plan}, &cov{}); v != nil {
			t.Fatalf("VIOLATION-CASE c10_tth_decode: %s\n%s", v.Msg, v.Stack)
		}
	})
}

// ---- history fuzzing: bytes are decoded into a reader / writer history by a small data provider ----

type dataProvider struct {
	b []byte
	i int
}

func (d *dataProvider) byte() byte {
	if d.i >= len(d.b) {
		return 0
	}
	x := d.b[d.i]
	d.i++
	return x
}

func (d *dataProvider) size() int {
	k := d.byte()
	switch k >> 5 {
	case 0:
		return int(k & 31)
	case 1:
		return readerSizes[int(k&31)%len(readerSizes)]
	case 2:
		return 4096 + int(k&31) - 16
	case 3:
		return 8192 + int(k&31) - 16
	case 4:
		return int(k&31) * 700
	case 5:
		return int(k&31) * 2300
	default:
		return int(d.byte())<<8 | int(d.byte())
	}
}

func FuzzC04ReaderHistory(f *testing.F) {
	f.Add([]byte{1, 0x30, 0x10, 0, 0x25, 1, 0x45, 4, 0x00})
	f.Add([]byte{0, 0x11, 0x12, 3, 0xc0, 0x20, 0x00, 2, 0x60, 0, 0x27, 4, 0})
	f.Add([]byte{7, 0xff, 0xff, 0, 0x65, 0, 0x66, 1, 0xa5, 4, 0, 0, 0xc1, 0x10, 0x00})
	f.Fuzz(func(t *testing.T, data []byte) {
		if len(data) > 400 {
			return
		}
		d := &dataProvider{b: data}
		cfg := d.byte()
		c := ReaderCase{}
		c.Total = (int(d.byte())<<8 | int(d.byte())) * int(1+cfg>>6)
		if cfg&1 == 1 {
			c.Bytes = true
			if c.Total > 70000 {
				c.Total = 70000
			}
			c.Cap = c.Total + int(cfg>>1&3)*977
			if cfg&8 != 0 {
				c.Cap = nextPow2(c.Total)
			}
		} else {
			c.Plan = faultio.Plan{Chunks: []int{d.size() % 9000, d.size() % 5000}, Zeros: []int{int(cfg >> 1 & 3), 0}, ErrAt: -1, WithData: cfg&8 != 0, ErrKind: int(cfg >> 4 & 3)}
			if cfg&0x20 != 0 && c.Total > 0 {
				c.Plan.ErrAt = d.size() % (c.Total + 1)
			}
		}
		kinds := []string{"next", "peek", "skip", "readbin", "release", "next"}
		for d.i < len(d.b) && len(c.Ops) < 60 {
			k := kinds[int(d.byte())%len(kinds)]
			n := 0
			if k != "release" {
				n = d.size()
			}
			c.Ops = append(c.Ops, ROp{K: k, N: n})
		}
		if v := runReaderHistory(&c, &cov{}, true, nil); v != nil {
			t.Fatalf("VIOLATION-CASE c04_reader_history: %s\ncase: %+v\n%s", v.Msg, c, v.Stack)
		}
	})
}

func FuzzC05WriterHistory(f *testing.F) {
	f.Add([]byte{0, 0, 0x25, 1, 0x45, 4, 2, 0x62, 4})
	f.Add([]byte{1, 0x40, 1, 0x21, 0, 0x45, 3, 4, 0, 0x03, 4})
	f.Add([]byte{6, 0, 0xa3, 1, 0x30, 2, 0xa5, 4, 0, 0x01, 4, 4})
	f.Fuzz(func(t *testing.T, data []byte) {
		if len(data) > 300 {
			return
		}
		d := &dataProvider{b: data}
		cfg := d.byte()
		c := WriterCase{}
		if cfg&1 == 1 {
			c.Bytes = true
			c.NilInit = cfg&2 != 0
			if !c.NilInit {
				c.InitLen = d.size() % 6000
				c.InitCap = c.InitLen + int(cfg>>2&3)*1500
				if cfg&0x10 != 0 {
					c.InitCap = nextPow2(c.InitLen + 1)
				}
			}
		} else {
			c.FailAt = int(cfg >> 1 & 7)
			c.Short = int(cfg>>4&1) * 3
		}
		kinds := []string{"malloc", "lazy", "writebin", "fill", "flush", "len", "malloc", "writebin"}
		for d.i < len(d.b) && len(c.Ops) < 50 {
			k := kinds[int(d.byte())%len(kinds)]
			n := 0
			if k == "malloc" || k == "lazy" || k == "writebin" {
				n = d.size() % 50000
			}
			c.Ops = append(c.Ops, WOp{K: k, N: n})
		}
		if v := runWriterHistory(&c, &cov{}, nil); v != nil {
			t.Fatalf("VIOLATION-CASE c05_writer_history: %s\ncase: %+v\n%s", v.Msg, c, v.Stack)
		}
	})
}
