package props

import (
	"fmt"
	"math"
	"os"
	"runtime"
	"runtime/debug"
	"sort"
	"strings"
	"sync"
	"testing"
	"unsafe"

	"github.com/cloudwego/gopkg/container/strmap"
	"github.com/cloudwego/gopkg/internal/strstore"
	"github.com/cloudwego/gopkg/verifharness/evid"
	"pgregory.net/rapid"
)

// ---- C07: read-only string maps answer exactly like a Go map -----------------------------------

// KeyFam is a family of keys expanded deterministically.
type KeyFam struct {
	Kind string     `json:"kind"` // empty prefix ext lastbyte firstbyte nul len counter raw
	N    int        `json:"n,omitempty"`
	Stem string     `json:"stem,omitempty"`
	L    int        `json:"l,omitempty"`
	Raw  []evid.Hex `json:"raw,omitempty"`
}

func (f KeyFam) expand(out []string) []string {
	switch f.Kind {
	case "empty":
		out = append(out, "")
	case "prefix":
		c := "a"
		if f.Stem != "" {
			c = f.Stem[:1]
		}
		s := ""
		for i := 0; i < f.N; i++ {
			s += c
			out = append(out, s)
		}
	case "ext":
		for i := 0; i < f.N && i < 256; i++ {
			out = append(out, f.Stem+string([]byte{byte(i)}))
		}
		out = append(out, f.Stem)
	case "lastbyte":
		for i := 0; i < f.N && i < 256; i++ {
			b := []byte(f.Stem + "x")
			b[len(b)-1] = byte(i * 7)
			out = append(out, string(b))
		}
	case "firstbyte":
		for i := 0; i < f.N && i < 256; i++ {
			b := []byte("x" + f.Stem)
			b[0] = byte(i * 11)
			out = append(out, string(b))
		}
	case "nul":
		out = append(out, "\x00", "\x00\x00", "a\x00", "a\x00b", "\xff", "\xff\xff", "a\xff", "\x00\xff", "a", "ab")
	case "len":
		out = append(out, string(patternBytes(byte(f.N), f.L)))
	case "counter":
		for i := 0; i < f.N; i++ {
			out = append(out, fmt.Sprintf("%skey-%d", f.Stem, i))
		}
	case "raw":
		for _, r := range f.Raw {
			out = append(out, string(r))
		}
	}
	return out
}

// SMLoad is one load of a map instance.
type SMLoad struct {
	Fams     []KeyFam `json:"fams"`
	FromMap  bool     `json:"from_map,omitempty"`
	Mismatch bool     `json:"mismatch,omitempty"` // a failing load: slices of different length
	ValSalt  int      `json:"val_salt,omitempty"`
	// FromSelf > 0: instead of new content, the instance is reloaded from strings it handed out itself
	// (keys from Item / values from Get), leaving out every FromSelf-th entry
	FromSelf int `json:"from_self,omitempty"`
	// SelfCross (with FromSelf, Str2Str only): the new KEYS are the strings Get returned (views of the value
	// storage) and the values are new short strings, so that the two halves of the map are crossed
	SelfCross bool `json:"self_cross,omitempty"`
	// HugeKeyAt > 0: a failing load - a key of HugeKeyLen (> MaxUint32) bytes is inserted at position
	// HugeKeyAt-1 (or at the end) of the keys; its bytes live in a never-touched mapping
	HugeKeyAt  int   `json:"huge_key_at,omitempty"`
	HugeKeyLen int64 `json:"huge_key_len,omitempty"`
}

func (l SMLoad) keys() []string {
	var ks []string
	for _, f := range l.Fams {
		ks = f.expand(ks)
	}
	seen := map[string]bool{}
	out := ks[:0]
	for _, k := range ks {
		if !seen[k] {
			seen[k] = true
			out = append(out, k)
		}
	}
	return out
}

// StrMapCase is a load history on one instance plus probe configuration.
type StrMapCase struct {
	VType  int        `json:"vtype"` // 0 StrMap[int], 1 StrMap[struct], 2 Str2Str, 3 strstore
	Loads  []SMLoad   `json:"loads"` // empty = never loaded
	Probes []evid.Hex `json:"probes,omitempty"`
	Reps   int        `json:"reps,omitempty"`
}

type pairV struct {
	A int32
	B uint64
}

// smInstance abstracts the three map flavours over an index-valued model.
type smInstance struct {
	load   func(kk []string, vals []int, fromMap bool, mismatch bool) error
	get    func(k string) (int, bool)
	length func() int
	items  func() (map[string]int, int, error) // nil if unsupported
	// selfReload reloads the instance from strings the instance itself handed out (keys from Item, values
	// from Get), leaving out every drop-th entry; it returns copies (made before the load) of the keys kept
	// With cross (Str2Str only) the values returned by Get become the keys; vals then holds the model indices
	// of the new values (nil = every kept key keeps its value).
	selfReload func(drop int, modelKeys []string, cross bool) (kept []string, vals []int, err error)
}

// sharedBacking is one string of which many values are prefixes: such values share their start address
// (and differ only in length), as sub-strings cut from one decoded buffer do.
var sharedBacking = string(patternBytes(0x5a, 400))

func strVal(i int) string {
	switch i % 7 {
	case 5:
		return sharedBacking[:(i*31)%400]
	case 6:
		return sharedBacking[:(i*17)%23]
	}
	switch i % 5 {
	case 0:
		return ""
	case 1:
		return fmt.Sprintf("v%d", i)
	case 2:
		return string(patternBytes(byte(i), 300+i%50)) + fmt.Sprint(i)
	default:
		return fmt.Sprintf("value-%d-%d", i, i*i)
	}
}

// genericInstance builds the instance adapter for StrMap[V]; enc makes a fresh value for a model index,
// dec maps a value back to the comparable model number (see modelVal), zero must be the zero V.
func genericInstance[V comparable](enc func(int) V, dec func(V) int) *smInstance {
	m := strmap.New[V]()
	var zero V
	emptyLoads := 0
	return &smInstance{
		load: func(kk []string, vals []int, fromMap, mismatch bool) error {
			vv := make([]V, len(vals))
			for i, v := range vals {
				vv[i] = enc(v)
			}
			if mismatch {
				return m.LoadFromSlice(kk, append(vv, enc(1)))
			}
			if fromMap {
				mm := make(map[string]V, len(kk))
				for i, k := range kk {
					mm[k] = vv[i]
				}
				if len(kk) == 0 {
					if emptyLoads++; emptyLoads%2 == 1 {
						mm = nil // a nil map holds no pairs either
					}
				}
				return m.LoadFromMap(mm)
			}
			return m.LoadFromSlice(kk, vv)
		},
		get: func(k string) (int, bool) {
			p, ok := m.Get(k)
			if !ok {
				if p != zero {
					return -888888, false
				}
				return 0, false
			}
			return dec(p), ok
		},
		length: m.Len,
		items: func() (map[string]int, int, error) {
			out := map[string]int{}
			n := m.Len()
			for i := 0; i < n; i++ {
				k, v := m.Item(i)
				if _, dup := out[k]; dup {
					return nil, n, fmt.Errorf("Item enumerates key %q twice", k)
				}
				out[string([]byte(k))] = dec(v)
			}
			return out, n, nil
		},
		selfReload: func(drop int, _ []string, _ bool) ([]string, []int, error) {
			var rk, kept []string
			var rv []V
			for i, n := 0, m.Len(); i < n; i++ {
				if drop > 0 && i%drop == 0 {
					continue
				}
				k, v := m.Item(i) // k is a view of the map's own key storage
				rk, rv = append(rk, k), append(rv, v)
				kept = append(kept, string([]byte(k)))
			}
			return kept, nil, m.LoadFromSlice(rk, rv)
		},
	}
}

type valMixed struct {
	S string
	P *int64
	N int32
}

type valOdd struct {
	A, B int32
	C    bool
}

// vtypes 4..11: value types that contain pointers (the map must keep them alive) and value types whose
// size is not a multiple of 8 or zero (element stride and padding of the item table).
const nVTypes = 12

func pointerVType(vt int) bool { return vt == 4 || vt == 5 || vt == 6 }

func newInstance(vtype int) *smInstance {
	switch vtype {
	case 4:
		return genericInstance(func(i int) string { return fmt.Sprintf("heap-value-%d-%s", i, strings.Repeat("x", i%40)) },
			func(s string) int {
				var i int
				if _, err := fmt.Sscanf(s, "heap-value-%d-", &i); err != nil || s != fmt.Sprintf("heap-value-%d-%s", i, strings.Repeat("x", i%40)) {
					return -777777
				}
				return i
			})
	case 5:
		return genericInstance(func(i int) *[4]int { p := new([4]int); *p = [4]int{i, i + 1, i + 2, ^i}; return p },
			func(p *[4]int) int {
				if p == nil || p[1] != p[0]+1 || p[2] != p[0]+2 || p[3] != ^p[0] {
					return -777777
				}
				return p[0]
			})
	case 6:
		return genericInstance(func(i int) valMixed { n := int64(i) * 3; return valMixed{S: fmt.Sprintf("s%d", i), P: &n, N: int32(i)} },
			func(v valMixed) int {
				if v.P == nil || *v.P != int64(v.N)*3 || v.S != fmt.Sprintf("s%d", v.N) {
					return -777777
				}
				return int(v.N)
			})
	case 7:
		return genericInstance(func(i int) bool { return i&1 == 1 }, func(b bool) int {
			if b {
				return 1
			}
			return 0
		})
	case 8:
		return genericInstance(func(i int) int32 { return int32(i) }, func(v int32) int { return int(v) })
	case 9:
		return genericInstance(func(i int) struct{} { return struct{}{} }, func(struct{}) int { return 0 })
	case 10:
		return genericInstance(func(i int) valOdd { return valOdd{int32(i), int32(^i), i&1 == 1} }, func(v valOdd) int {
			if v.B != ^v.A || v.C != (v.A&1 == 1) {
				return -777777
			}
			return int(v.A)
		})
	case 11:
		return genericInstance(func(i int) [3]byte { return [3]byte{byte(i), byte(i >> 8), byte(i >> 16)} }, func(v [3]byte) int { return int(v[0]) | int(v[1])<<8 | int(v[2])<<16 })
	case 0:
		return genericInstance(func(i int) int { return i }, func(v int) int { return v })
	case 1:
		return genericInstance(func(i int) pairV { return pairV{int32(i), uint64(i) * 0x9e3779b97f4a7c15} }, func(p pairV) int {
			if p.B != uint64(p.A)*0x9e3779b97f4a7c15 && !(p.A < 0) {
				return -999999
			}
			return int(p.A)
		})
	case 2:
		m := strmap.NewStr2Str()
		emptyLoads2 := 0
		return &smInstance{
			load: func(kk []string, vals []int, fromMap, mismatch bool) error {
				vv := make([]string, len(vals))
				for i, v := range vals {
					vv[i] = strVal(v)
				}
				if mismatch {
					return m.LoadFromSlice(kk, append(vv, "extra"))
				}
				if fromMap {
					mm := make(map[string]string, len(kk))
					for i, k := range kk {
						mm[k] = vv[i]
					}
					if len(kk) == 0 {
						if emptyLoads2++; emptyLoads2%2 == 1 {
							mm = nil
						}
					}
					return m.LoadFromMap(mm)
				}
				return m.LoadFromSlice(kk, vv)
			},
			get: func(k string) (int, bool) {
				s, ok := m.Get(k)
				if !ok {
					if s != "" {
						return -888888, false
					}
					return 0, false
				}
				return int(evid.Hash64([]byte(s)) & 0x3fffffff), true
			},
			length: m.Len,
			selfReload: func(drop int, modelKeys []string, cross bool) ([]string, []int, error) {
				var rk, rv, kept []string
				var nvals []int
				seen := map[string]bool{}
				for i, k := range modelKeys {
					if drop > 0 && i%drop == 0 {
						continue
					}
					v, ok := m.Get(k) // v is a view of the map's own value storage
					if !ok {
						return nil, nil, fmt.Errorf("Get(%q) absent before the self reload", k)
					}
					if cross {
						// the handed-out value becomes a key; the new values are short and fresh
						if seen[v] {
							continue
						}
						cp := string([]byte(v))
						seen[cp] = true
						j := 35*(i+1) + 1 // strVal(j) = "v<j>"
						rk, rv = append(rk, v), append(rv, strVal(j))
						kept, nvals = append(kept, cp), append(nvals, j)
						continue
					}
					rk, rv = append(rk, k), append(rv, v)
					kept = append(kept, k)
				}
				return kept, nvals, m.LoadFromSlice(rk, rv)
			},
		}
	}
	return nil
}

func modelVal(vtype, i int) int {
	switch vtype {
	case 2:
		return int(evid.Hash64([]byte(strVal(i))) & 0x3fffffff)
	case 7:
		return i & 1
	case 9:
		return 0
	case 11:
		return i & 0xffffff
	}
	return i
}

func checkStrMap(c StrMapCase, cv *cov) (v *evid.Violation) {
	if c.VType == 3 {
		return checkStrStore(c, cv)
	}
	reps := c.Reps
	if reps <= 0 {
		reps = 4
	}
	var sawReload, sawPrefix, sawEmptyState, sawFailedLoad, sawSelf, sawCross, sawHugeKey bool
	totalKeys := 0
	body := func() {
		for rep := 0; rep < reps; rep++ {
			inst := newInstance(c.VType)
			model := map[string]int{} // key -> value index
			var prevKeys []string
			probeAll := func(when string, extra []string) {
				check := func(k string) bool {
					got, ok := inst.get(k)
					wi, wok := model[k]
					if ok != wok || (ok && got != modelVal(c.VType, wi)) || (!ok && got != 0) {
						v = evid.Failf("%s (instance %d): Get(%q) = (%d,%v), a Go map holding the loaded pairs answers (%d,%v); %d keys loaded", when, rep, k, got, ok, modelVal(c.VType, wi), wok, len(model))
						return false
					}
					return true
				}
				for k := range model {
					if !check(k) {
						return
					}
				}
				for _, k := range prevKeys {
					if !check(k) {
						return
					}
				}
				for _, k := range extra {
					if !check(k) {
						return
					}
				}
				if got := inst.length(); got != len(model) {
					v = evid.Failf("%s (instance %d): Len()=%d, loaded %d pairs", when, rep, got, len(model))
					return
				}
				if inst.items != nil {
					items, n, err := inst.items()
					if err != nil {
						v = evid.Failf("%s (instance %d): %v", when, rep, err)
						return
					}
					if n != len(model) || len(items) != len(model) {
						v = evid.Failf("%s (instance %d): Item enumeration yields %d distinct keys over %d indices, loaded %d", when, rep, len(items), n, len(model))
						return
					}
					for k, iv := range items {
						wi, ok := model[k]
						if !ok || iv != modelVal(c.VType, wi) {
							v = evid.Failf("%s (instance %d): Item enumeration yields (%q,%d) which was not loaded", when, rep, k, iv)
							return
						}
					}
				}
			}
			mkProbes := func(keys []string) []string {
				var ps []string
				ps = append(ps, "", "\x00", "a", "key-", "key-0", "zz")
				lim := len(keys)
				if lim > 60 {
					lim = 60
				}
				for i := 0; i < lim; i++ {
					k := keys[(i*7919)%len(keys)]
					if len(k) > 0 {
						ps = append(ps, k[:len(k)-1], k[1:])
						b := []byte(k)
						b[len(b)/2] ^= 0x20
						ps = append(ps, string(b))
					}
					ps = append(ps, k+"\x00", k+"a", "a"+k, k+keys[(i*31)%len(keys)])
				}
				for _, p := range c.Probes {
					ps = append(ps, string(p))
				}
				return ps
			}
			if len(c.Loads) == 0 {
				sawEmptyState = true
				probeAll("never-loaded map", mkProbes(nil))
				if v != nil {
					return
				}
			}
			for li, ld := range c.Loads {
				if ld.FromSelf > 0 && !ld.Mismatch {
					// reload from what the instance itself handed out (the usual way to drop entries from a
					// read-only map): the strings are valid Go strings when they are passed in
					mk := make([]string, 0, len(model))
					for k := range model {
						mk = append(mk, k)
					}
					sort.Strings(mk)
					kept, nvals, err := inst.selfReload(ld.FromSelf, mk, ld.SelfCross)
					if err != nil {
						v = evid.Failf("load %d (instance %d): reloading from %d of the instance's own entries failed: %v", li, rep, len(kept), err)
						return
					}
					prev := mk
					if len(prev) > 200 {
						prev = prev[:200]
					}
					prevKeys = prev
					nm := make(map[string]int, len(kept))
					for i, k := range kept {
						if nvals != nil {
							nm[k] = nvals[i]
						} else {
							nm[k] = model[k]
						}
					}
					model = nm
					sawReload, sawSelf = true, true
					how := "keys returned by Item / values returned by Get"
					if nvals != nil {
						sawCross = true
						how = "the strings returned by Get as the new keys, with new short values"
					}
					probeAll(fmt.Sprintf("after load %d, which reloaded the instance from %d of its own entries (%s), leaving out every %d-th", li, len(kept), how, ld.FromSelf), mkProbes(kept))
					if v != nil {
						return
					}
					continue
				}
				keys := ld.keys()
				vals := make([]int, len(keys))
				for i := range keys {
					vals[i] = i*3 + ld.ValSalt + li*1000003 + 1
				}
				if ld.HugeKeyAt > 0 && !ld.Mismatch {
					// a failing load: one key is longer than MaxUint32 bytes (never touched: the length check
					// is all the library may do with it)
					hm := hugeMapping()
					if hm == nil || ld.HugeKeyLen <= math.MaxUint32 || ld.HugeKeyLen > int64(len(hm)) {
						cv.label("huge_key_unavailable")
						continue
					}
					hk := unsafe.String(&hm[0], int(ld.HugeKeyLen))
					at := ld.HugeKeyAt - 1
					if at > len(keys) {
						at = len(keys)
					}
					k2 := append(append(append([]string{}, keys[:at]...), hk), keys[at:]...)
					v2 := append(append([]int{}, vals...), 424242)
					err := inst.load(k2, v2, false, false)
					if err == nil {
						v = evid.Failf("load %d (instance %d): LoadFromSlice with a key of %d bytes (more than MaxUint32) at position %d of %d returned nil", li, rep, ld.HugeKeyLen, at, len(k2))
						return
					}
					sawFailedLoad, sawHugeKey = true, true
					probeAll(fmt.Sprintf("after failed load %d (a key of %d bytes at position %d of %d keys: %v)", li, ld.HugeKeyLen, at, len(k2), err), mkProbes(keys))
					if v != nil {
						return
					}
					continue
				}
				if ld.Mismatch {
					err := inst.load(keys, vals, false, true)
					if err == nil {
						v = evid.Failf("load %d (instance %d): LoadFromSlice with slices of different length returned nil", li, rep)
						return
					}
					sawFailedLoad = true
					probeAll(fmt.Sprintf("after failed load %d", li), mkProbes(keys))
					if v != nil {
						return
					}
					continue
				}
				if err := inst.load(keys, vals, ld.FromMap, false); err != nil {
					v = evid.Failf("load %d (instance %d): error %v for %d distinct keys", li, rep, err, len(keys))
					return
				}
				if pointerVType(c.VType) && rep == 0 {
					// the loaded values are referenced by the map only: collect garbage and reuse freed memory
					runtime.GC()
					churn := make([][]byte, 0, 256)
					for i := 0; i < 256; i++ {
						b := make([]byte, 16+i%80)
						for j := range b {
							b[j] = 0xDD
						}
						churn = append(churn, b)
					}
					runtime.GC()
					_ = churn
				}
				old := make([]string, 0, len(model))
				for k := range model {
					old = append(old, k)
				}
				sort.Strings(old)
				if len(old) > 200 {
					old = old[:200]
				}
				prevKeys = old
				model = make(map[string]int, len(keys))
				for i, k := range keys {
					model[k] = vals[i]
				}
				if li > 0 {
					sawReload = true
				}
				if len(keys) == 0 {
					sawEmptyState = true
				}
				totalKeys += len(keys)
				probeAll(fmt.Sprintf("after load %d", li), mkProbes(keys))
				if v != nil {
					return
				}
			}
		}
	}
	for _, ld := range c.Loads {
		for _, f := range ld.Fams {
			if f.Kind == "prefix" || f.Kind == "ext" {
				sawPrefix = true
			}
		}
	}
	if p, st := evid.Safe(body); p != nil {
		return &evid.Violation{Msg: fmt.Sprintf("panic: %v (vtype %d, %d loads)", p, c.VType, len(c.Loads)), Stack: st}
	}
	if v != nil {
		return v
	}
	cv.nontrivial = sawReload || sawPrefix || sawEmptyState
	cv.labelIf(sawReload, "reload")
	cv.labelIf(sawPrefix, "prefix_related_keys")
	cv.labelIf(sawEmptyState, "empty_or_never_loaded")
	cv.labelIf(sawFailedLoad, "failed_load")
	cv.labelIf(sawCross, "self_reload_values_as_keys")
	cv.labelIf(sawHugeKey, "failed_load_key_over_4GiB")
	cv.labelIf(totalKeys > 1000, "bulk>1000")
	cv.labelIf(totalKeys/reps <= 8 && totalKeys > 0, "tiny_table")
	cv.label(fmt.Sprintf("vtype_%d", c.VType))
	cv.labelIf(sawSelf, "reload_from_own_entries")
	return nil
}

func checkStrStore(c StrMapCase, cv *cov) (v *evid.Violation) {
	body := func() {
		st := strstore.New()
		if got := st.Get(0); got != "" {
			v = evid.Failf("empty StrStore.Get(0) = %q", got)
			return
		}
		for li, ld := range c.Loads {
			ss := ld.keys()
			if li%2 == 1 { // also duplicates and empties are fine for a store
				ss = append(ss, "", "", "dup", "dup")
				// neighbours that share their start address and differ only in length, and true repeats
				ss = append(ss, sharedBacking[:10], sharedBacking[:5], sharedBacking[:0], sharedBacking[:5], sharedBacking[:5], sharedBacking[:300], sharedBacking[1:300], sharedBacking[:299])
			}
			ids, err := st.Load(ss)
			if err != nil || len(ids) != len(ss) {
				v = evid.Failf("StrStore.Load of %d strings: %d ids, err=%v", len(ss), len(ids), err)
				return
			}
			total := 0
			for i, s := range ss {
				if got := st.Get(ids[i]); got != s {
					v = evid.Failf("StrStore load %d: Get(ids[%d]) = %q, want %q", li, i, got, s)
					return
				}
				total += 4 + len(s)
			}
			if st.Len() != total {
				v = evid.Failf("StrStore load %d: Len()=%d, want %d", li, st.Len(), total)
				return
			}
			if got := st.Get(-1); got != "" {
				v = evid.Failf("StrStore.Get(-1) = %q", got)
				return
			}
			if got := st.Get(total); got != "" {
				v = evid.Failf("StrStore.Get(Len()) = %q", got)
				return
			}
		}
	}
	if p, st := evid.Safe(body); p != nil {
		return &evid.Violation{Msg: fmt.Sprintf("panic in StrStore: %v", p), Stack: st}
	}
	if v != nil {
		return v
	}
	cv.nontrivial = len(c.Loads) >= 2
	cv.label("vtype_3_strstore")
	return nil
}

func init() { register("c07_strmap", checkStrMap) }

func genKeyFam(t *rapid.T, bulkMax int) KeyFam {
	kind := rapid.SampledFrom([]string{"empty", "prefix", "prefix", "ext", "lastbyte", "firstbyte", "nul", "len", "len", "counter", "counter", "counter", "raw"}).Draw(t, "fam")
	f := KeyFam{Kind: kind}
	stems := []string{"", "a", "ab", "key", "\x00", "logid-0000000", "k\xff"}
	switch kind {
	case "prefix":
		f.N = rapid.IntRange(1, 40).Draw(t, "n")
		f.Stem = rapid.SampledFrom([]string{"a", "b", "\x00"}).Draw(t, "c")
	case "ext":
		f.N = rapid.SampledFrom([]int{1, 2, 16, 256}).Draw(t, "n")
		f.Stem = rapid.SampledFrom(stems).Draw(t, "stem")
	case "lastbyte", "firstbyte":
		f.N = rapid.IntRange(1, 36).Draw(t, "n")
		f.Stem = rapid.SampledFrom(stems).Draw(t, "stem")
	case "len":
		f.L = rapid.OneOf(rapid.IntRange(0, 300), rapid.SampledFrom([]int{5000, 1, 2, 255, 256})).Draw(t, "l")
		f.N = rapid.IntRange(0, 255).Draw(t, "seed")
	case "counter":
		f.N = rapid.OneOf(rapid.IntRange(0, 40), rapid.IntRange(0, 40), rapid.IntRange(0, bulkMax)).Draw(t, "n")
		f.Stem = rapid.SampledFrom([]string{"", "x", "a"}).Draw(t, "stem")
	case "raw":
		n := rapid.IntRange(1, 4).Draw(t, "n")
		for i := 0; i < n; i++ {
			f.Raw = append(f.Raw, rapid.SliceOfN(rapid.Byte(), 0, 6).Draw(t, "raw"))
		}
	}
	return f
}

func genStrMapCase(t *rapid.T) StrMapCase {
	bulk := evid.Pick(2000, 2000)
	c := StrMapCase{VType: rapid.SampledFrom([]int{0, 0, 1, 2, 2, 3, 7, 8, 9, 10, 11}).Draw(t, "vtype")}
	nl := rapid.SampledFrom([]int{0, 1, 1, 2, 3, 4, 6}).Draw(t, "nloads")
	for i := 0; i < nl; i++ {
		ld := SMLoad{FromMap: rapid.Bool().Draw(t, "fromMap"), ValSalt: rapid.IntRange(0, 1000).Draw(t, "salt")}
		if i > 0 && rapid.IntRange(0, 5).Draw(t, "mismatch") == 0 {
			ld.Mismatch = true
		}
		if i > 0 && !ld.Mismatch && rapid.IntRange(0, 3).Draw(t, "fromSelf") == 0 {
			ld.FromSelf = rapid.SampledFrom([]int{2, 3, 5, 1000000}).Draw(t, "selfDrop")
			ld.SelfCross = rapid.Bool().Draw(t, "selfCross")
		}
		if i > 0 && !ld.Mismatch && ld.FromSelf == 0 && rapid.IntRange(0, 7).Draw(t, "hugeKey") == 0 {
			ld.HugeKeyAt = rapid.SampledFrom([]int{1, 1, 2, 3, 1000000}).Draw(t, "hugeAt")
			ld.HugeKeyLen = rapid.SampledFrom([]int64{1 << 32, 1<<32 + 1, 1<<32 + 65535}).Draw(t, "hugeLen")
		}
		nf := rapid.SampledFrom([]int{0, 1, 1, 2, 3}).Draw(t, "nfam")
		for j := 0; j < nf; j++ {
			ld.Fams = append(ld.Fams, genKeyFam(t, bulk))
		}
		c.Loads = append(c.Loads, ld)
	}
	np := rapid.IntRange(0, 3).Draw(t, "nprobes")
	for i := 0; i < np; i++ {
		c.Probes = append(c.Probes, rapid.SliceOfN(rapid.Byte(), 0, 8).Draw(t, "probe"))
	}
	return c
}

func TestC07_Random(t *testing.T) {
	rec := evid.New("C07", "c07_random", "rapid: load histories of 0..6 loads (from map / from slices, growing and shrinking, zero keys, failing loads with mismatched slice lengths or with one key of 4 GiB .. 4 GiB + 65535 bytes (longer than MaxUint32; its bytes are a never-touched mapping) at the first, second, third or last position, reloads from the instance's own entries - keys returned by Item, values returned by Get, or for Str2Str the strings returned by Get used as the new keys - leaving some out) on StrMap[V] for V in {int, a 16-byte struct, bool, int32, struct{}, a 9-byte struct, [3]byte} (value types without pointers, as the package documentation requires), Str2Str and strstore; key sets are unions of families (empty key, prefix chains, one stem with all 1-byte extensions, keys differing in first/last byte, embedded NUL/0xff, lengths 0..300 and 5000, counter keys up to 2000, raw bytes); probes = every loaded key, keys of the previous load, each key truncated/extended/flipped, concatenations, raw bytes; every case on 4 fresh instances (fresh hash seeds); oracle = Go map; non-trivial = >= 2 loads, prefix-related keys, or the never-loaded/empty state")
	defer rec.Flush()
	rec.Assume("hash/maphash seeds are chosen by the runtime per instance and are not injectable; each case runs on 4 fresh instances")
	runRapid(t, rec, "c07_strmap", evid.Pick(6000, 40000), genStrMapCase, checkStrMap)
}

func TestC07_Sizes(t *testing.T) {
	rec := evid.New("C07", "c07_sizes", "enumeration: every key count 0..100 and {127,128,191,192,193,255,256,383,384,385,1000,1535,1536,1537,5000} (so every small entry of the slot-prime table is used) x 6 map flavours (int, struct, Str2Str, bool, struct{}, 9-byte struct values) x {fresh, reload after a bigger load, reload after a smaller load}, 8 instances each; never-loaded instances of every flavour; (thorough) 100000-key loads; distinct by construction")
	defer rec.Flush()
	sizes := []int{}
	for n := 0; n <= 100; n++ {
		sizes = append(sizes, n)
	}
	sizes = append(sizes, 127, 128, 191, 192, 193, 255, 256, 383, 384, 385, 1000, 1535, 1536, 1537, 5000)
	if evid.Thorough() {
		sizes = append(sizes, 20000, 100000)
	}
	var failed bool
	lock := make(chan struct{}, 1)
	run := func(c StrMapCase, b *evid.Batch) {
		if failed {
			return
		}
		var cv cov
		v := checkStrMap(c, &cv)
		b.Evals++
		b.Distinct++
		b.Nontrivial++
		for _, l := range cv.labels {
			b.Labels[l]++
		}
		if v != nil {
			lock <- struct{}{}
			if !failed {
				failed = true
				failEnum(t, rec, "c07_strmap", c, v)
			}
			<-lock
		}
	}
	parallelFor(len(sizes), func(i int, b *evid.Batch) {
		n := sizes[i]
		reps := 8
		if n > 5000 {
			reps = 2
		}
		for _, vt := range []int{0, 1, 2, 7, 9, 10} {
			run(StrMapCase{VType: vt, Reps: reps, Loads: []SMLoad{{Fams: []KeyFam{{Kind: "counter", N: n}}}}}, b)
			run(StrMapCase{VType: vt, Reps: reps, Loads: []SMLoad{{Fams: []KeyFam{{Kind: "counter", N: 2*n + 9, Stem: "x"}}}, {Fams: []KeyFam{{Kind: "counter", N: n}}, FromMap: true}}}, b)
			run(StrMapCase{VType: vt, Reps: reps, Loads: []SMLoad{{Fams: []KeyFam{{Kind: "counter", N: n / 3}}}, {Mismatch: true, Fams: []KeyFam{{Kind: "counter", N: 5}}}, {Fams: []KeyFam{{Kind: "counter", N: n, Stem: "a"}, {Kind: "empty"}}}}}, b)
		}
	}, rec)
	bt := evid.NewBatch()
	for vt := 0; vt < 3; vt++ {
		run(StrMapCase{VType: vt, Reps: 8}, bt)
	}
	rec.Merge(bt)
	rec.Sample(StrMapCase{VType: 2, Reps: 8, Loads: []SMLoad{{Fams: []KeyFam{{Kind: "counter", N: 7}}}}})
	rec.Sample(StrMapCase{VType: 0, Reps: 8})
	rec.SetExhaustive()
}

// TestC07_KeyBytes: n keys of equal length L for small n and L, so that the total number of key bytes takes
// every small value (table building and lookup paths that depend on sizes rather than on content).
func TestC07_KeyBytes(t *testing.T) {
	rec := evid.New("C07", "c07_keybytes", "enumeration: n = 1..16 distinct keys of equal length L = 0..80 (n = 1 only for L = 0), i.e. every total key size n*L up to 1280 bytes incl. every power of two, x 3 map flavours, first load and reload, 3 instances each; distinct by construction")
	defer rec.Flush()
	type nl struct{ n, l int }
	var cases []nl
	for n := 1; n <= 16; n++ {
		for l := 0; l <= 80; l++ {
			if l == 0 && n > 1 {
				continue
			}
			if l == 1 && n > 16 {
				continue
			}
			cases = append(cases, nl{n, l})
		}
	}
	var failed bool
	lock := make(chan struct{}, 1)
	parallelFor(len(cases), func(i int, b *evid.Batch) {
		if failed {
			return
		}
		n, l := cases[i].n, cases[i].l
		var raw []evid.Hex
		for k := 0; k < n; k++ {
			key := patternBytes(byte(k*3+1), l)
			if l > 0 {
				key[0] = byte('A' + k) // distinct first byte
			}
			raw = append(raw, key)
		}
		for vt := 0; vt < 3; vt++ {
			for _, c := range []StrMapCase{
				{VType: vt, Reps: 3, Loads: []SMLoad{{Fams: []KeyFam{{Kind: "raw", Raw: raw}}}}},
				{VType: vt, Reps: 3, Loads: []SMLoad{{Fams: []KeyFam{{Kind: "counter", N: 40}}}, {Fams: []KeyFam{{Kind: "raw", Raw: raw}}, FromMap: true}}},
			} {
				var cv cov
				v := checkStrMap(c, &cv)
				b.Evals++
				b.Distinct++
				b.Nontrivial++
				if v != nil {
					lock <- struct{}{}
					if !failed {
						failed = true
						failEnum(t, rec, "c07_strmap", c, v)
					}
					<-lock
					return
				}
			}
		}
	}, rec)
	rec.Sample(StrMapCase{VType: 0, Reps: 3, Loads: []SMLoad{{Fams: []KeyFam{{Kind: "raw", Raw: []evid.Hex{[]byte("Aaaaaaaa"), []byte("Bbbbbbbb")}}}}}})
	rec.SetExhaustive()
}

// TestC07_LongHistory: one instance reloaded many times. Between two large loads with different keys lie
// g small reloads, for every g in a range that covers 8-bit (and, in the thorough tier, 16-bit) counters
// of loads; after every large load the whole map is compared with the Go map, after every small one its
// own keys and some keys of the previous large load.
func TestC07_LongHistory(t *testing.T) {
	rec := evid.New("C07", "c07_long_history", "enumeration: for every gap g in 0..600 and 1018..1030, 2042..2054, 4090..4102 (thorough: also 65530..65540): on one instance per map flavour, a load of 150..260 keys, then g reloads with 1..6 keys, then a load that fails (slices of different length; nothing may change), then a load of as many (or up to 2 fewer) other keys; every loaded key is read back and keys of earlier loads must be absent, Len and Item enumeration compared; every (flavour, g) is one evaluation; distinct by construction; non-trivial = g >= 1")
	defer rec.Flush()
	gaps := []int{}
	for g := 0; g <= 600; g++ {
		gaps = append(gaps, g)
	}
	for _, c := range []int{1024, 2048, 4096} {
		for g := c - 6; g <= c+6; g++ {
			gaps = append(gaps, g)
		}
	}
	if evid.Thorough() {
		for g := 65530; g <= 65540; g++ {
			gaps = append(gaps, g)
		}
	}
	var mu sync.Mutex
	failed := false
	parallelFor(len(gaps)*3, func(idx int, b *evid.Batch) {
		g, vt := gaps[idx/3], idx%3
		mu.Lock()
		f := failed
		mu.Unlock()
		if f {
			return
		}
		var viol *evid.Violation
		p, st := evid.Safe(func() { viol = longHistory(vt, g) })
		if p != nil {
			viol = &evid.Violation{Msg: fmt.Sprintf("panic after a history with %d small reloads between two large loads: %v", g, p), Stack: st}
		}
		b.Evals++
		b.Distinct++
		if g >= 1 {
			b.Nontrivial++
		}
		b.Labels[fmt.Sprintf("vtype_%d", vt)]++
		if viol != nil {
			mu.Lock()
			if !failed {
				failed = true
				failEnum(t, rec, "c07_long_history", LongHistCase{VType: vt, Gap: g}, viol)
			}
			mu.Unlock()
		}
	}, rec)
	rec.Sample(LongHistCase{VType: 2, Gap: 254})
	rec.SetExhaustive()
}

// LongHistCase is the replayable form of one long-history evaluation.
type LongHistCase struct {
	VType int `json:"vtype"`
	Gap   int `json:"gap"`
}

func init() {
	register("c07_long_history", func(c LongHistCase, cv *cov) *evid.Violation {
		if c.Gap < 0 || c.Gap > 1<<20 || c.VType < 0 || c.VType > 2 {
			return nil
		}
		var viol *evid.Violation
		if p, st := evid.Safe(func() { viol = longHistory(c.VType, c.Gap) }); p != nil {
			return &evid.Violation{Msg: fmt.Sprintf("panic: %v", p), Stack: st}
		}
		return viol
	})
}

func longHistory(vt, g int) *evid.Violation {
	inst := newInstance(vt)
	bigKeys := func(round int) ([]string, []int) {
		n := 150 + (g*7)%111 - round*(g%3) // the second large load is never larger than the first: tables can be reused
		kk := make([]string, n)
		vv := make([]int, n)
		for i := range kk {
			kk[i] = fmt.Sprintf("r%d-%d-key-with-a-suffix-that-makes-the-key-storage-exceed-4KiB", round, i*3)
			vv[i] = i + round*1000 + 1
		}
		return kk, vv
	}
	verify := func(when string, kk []string, vv []int, absent []string) *evid.Violation {
		for i, k := range kk {
			got, ok := inst.get(k)
			if !ok || got != modelVal(vt, vv[i]) {
				return evid.Failf("%s: Get(%q) = (%d,%v), want (%d,true); %d keys loaded", when, k, got, ok, modelVal(vt, vv[i]), len(kk))
			}
		}
		for _, k := range absent {
			if got, ok := inst.get(k); ok || got != 0 {
				return evid.Failf("%s: Get(%q) = (%d,%v) for a key of an earlier load that is not in the current one", when, k, got, ok)
			}
		}
		if inst.length() != len(kk) {
			return evid.Failf("%s: Len()=%d, loaded %d", when, inst.length(), len(kk))
		}
		if inst.items != nil {
			items, n, err := inst.items()
			if err != nil || n != len(kk) || len(items) != len(kk) {
				return evid.Failf("%s: Item enumeration: %d indices, %d distinct keys, err=%v; loaded %d", when, n, len(items), err, len(kk))
			}
		}
		return nil
	}
	k0, v0 := bigKeys(0)
	if err := inst.load(k0, v0, false, false); err != nil {
		return evid.Failf("first large load failed: %v", err)
	}
	if v := verify("after the first large load", k0, v0, nil); v != nil {
		return v
	}
	for i := 0; i < g; i++ {
		n := 1 + i%6
		kk := make([]string, n)
		vv := make([]int, n)
		for j := range kk {
			kk[j] = fmt.Sprintf("s%d-%d", i, j)
			vv[j] = i + j + 1
		}
		if err := inst.load(kk, vv, i%5 == 4, false); err != nil {
			return evid.Failf("small reload %d failed: %v", i, err)
		}
		if i < 3 || i >= g-3 || i%64 == 0 {
			if v := verify(fmt.Sprintf("after small reload %d of %d", i+1, g), kk, vv, k0[:8]); v != nil {
				return v
			}
		}
	}
	// a failing load (slices of different length) after the run of small reloads must change nothing
	if g > 0 {
		lastN := 1 + (g-1)%6
		kk := make([]string, lastN)
		vv := make([]int, lastN)
		for j := range kk {
			kk[j] = fmt.Sprintf("s%d-%d", g-1, j)
			vv[j] = g - 1 + j + 1
		}
		if err := inst.load([]string{"x", "y"}, []int{1, 2}, false, true); err == nil {
			return evid.Failf("a load with slices of different length succeeded")
		}
		if v := verify(fmt.Sprintf("after %d small reloads and a failed load", g), kk, vv, []string{"x", "y"}); v != nil {
			return v
		}
	}
	k1, v1 := bigKeys(1)
	if err := inst.load(k1, v1, false, false); err != nil {
		return evid.Failf("second large load failed: %v", err)
	}
	return verify(fmt.Sprintf("after a large load, %d small reloads and a second large load with other keys", g), k1, v1, k0)
}

// TestC07_HugeKeys (thorough tier, and only when enough memory is available): one load whose key bytes
// exceed 4 GiB (two keys of 2 GiB + 3 and 2 GiB + 7 bytes, each below the 4 GiB limit per key, followed by short keys), so that offsets into the key
// storage no longer fit 32 bits.
func TestC07_HugeKeys(t *testing.T) {
	rec := evid.New("C07", "c07_huge_keys", "one load per map flavour {StrMap[int], Str2Str} whose first two keys have 2 GiB + 3 and 2 GiB + 7 bytes (zero bytes, never touched in the source) followed by 6 short keys incl. the empty key; every key is read back, absent probes are absent, Len and Item enumeration checked; then one Str2Str load whose VALUES total more than 4 GiB (two values of about 2 GiB and two short ones), every value read back; thorough tier only, skipped (and recorded as skipped) when less than 24 GiB of memory is available; every flavour is one evaluation")
	defer rec.Flush()
	if !evid.Thorough() {
		rec.Assume("not run in the quick tier (needs about 9 GiB of memory and 10..30 s)")
		return
	}
	avail := int64(0)
	if b, err := os.ReadFile("/proc/meminfo"); err == nil {
		for _, line := range strings.Split(string(b), "\n") {
			if strings.HasPrefix(line, "MemAvailable:") {
				fmt.Sscanf(strings.TrimSpace(strings.TrimPrefix(line, "MemAvailable:")), "%d", &avail)
			}
		}
	}
	if avail < 24<<20 { // kB
		rec.Assume(fmt.Sprintf("skipped: only %d MiB of memory available", avail>>10))
		rec.Label("skipped_not_enough_memory", 1)
		return
	}
	shard, _ := evid.Shard()
	if shard != 0 {
		return
	}
	const hugeLen = 2<<30 + 7
	hb := make([]byte, hugeLen) // zero pages, not resident until written
	huge := unsafe.String(&hb[0], len(hb))
	// two keys of 2 GiB + 3 and 2 GiB + 7 bytes (each below the documented 4 GiB limit per key), then short keys
	keys := []string{huge[:hugeLen-4], huge, "a", "", "bb", "key-after-4GiB", "z\x00", "a\x00"}
	vals := []int{11, 12, 22, 33, 44, 55, 66, 77}
	b := evid.NewBatch()
	for _, vt := range []int{0, 2} {
		inst := newInstance(vt)
		var viol *evid.Violation
		p, st := evid.Safe(func() {
			if err := inst.load(keys, vals, false, false); err != nil {
				viol = evid.Failf("load with a %d-byte key failed: %v", hugeLen, err)
				return
			}
			for i, k := range keys {
				got, ok := inst.get(k)
				if !ok || got != modelVal(vt, vals[i]) {
					name := fmt.Sprintf("%q", k)
					if i < 2 {
						name = fmt.Sprintf("the %d-byte key", len(k))
					}
					viol = evid.Failf("after a load whose key bytes exceed 4 GiB: Get(%s) = (%d,%v), want (%d,true)", name, got, ok, modelVal(vt, vals[i]))
					return
				}
			}
			for _, k := range []string{"b", "aa", "key-after-4GiB ", huge[:100], huge[:hugeLen-1]} {
				if got, ok := inst.get(k); ok || got != 0 {
					viol = evid.Failf("after a load whose key bytes exceed 4 GiB: Get of an absent key (%d bytes) = (%d,%v)", len(k), got, ok)
					return
				}
			}
			if inst.length() != len(keys) {
				viol = evid.Failf("Len()=%d, loaded %d", inst.length(), len(keys))
				return
			}
			if inst.items != nil {
				items, n, err := inst.items()
				if err != nil || n != len(keys) || len(items) != len(keys) {
					viol = evid.Failf("Item enumeration after a load whose key bytes exceed 4 GiB: %d indices, %d distinct keys, err=%v", n, len(items), err)
					return
				}
				for i, k := range keys[2:] {
					if iv, ok := items[k]; !ok || iv != modelVal(vt, vals[i+2]) {
						viol = evid.Failf("Item enumeration after a load whose key bytes exceed 4 GiB does not yield key %q with its value", k)
						return
					}
				}
			}
		})
		if p != nil {
			viol = &evid.Violation{Msg: fmt.Sprintf("panic with key bytes beyond 4 GiB: %v", p), Stack: st}
		}
		b.Evals++
		b.Distinct++
		b.Nontrivial++
		if viol != nil {
			failEnum(t, rec, "c07_long_history", LongHistCase{VType: vt, Gap: -1}, viol)
			break
		}
		inst = nil
		debug.FreeOSMemory()
	}
	// the same for VALUES: a Str2Str whose values total more than 4 GiB (offsets into the value store beyond 2^32)
	{
		var viol *evid.Violation
		p, st := evid.Safe(func() {
			m := strmap.NewStr2Str()
			kk := []string{"first", "second", "third", ""}
			vv := []string{huge[:hugeLen-4], huge, "a value behind 4 GiB", "x"}
			if err := m.LoadFromSlice(kk, vv); err != nil {
				viol = evid.Failf("Str2Str load with two values of about 2 GiB failed: %v", err)
				return
			}
			for i, k := range kk {
				got, ok := m.Get(k)
				if !ok || len(got) != len(vv[i]) || (len(got) < 100 && got != vv[i]) {
					viol = evid.Failf("Str2Str whose values total more than 4 GiB: Get(%q) = (%d bytes, %v), want the %d-byte value", k, len(got), ok, len(vv[i]))
					return
				}
			}
			if _, ok := m.Get("fourth"); ok || m.Len() != 4 {
				viol = evid.Failf("Str2Str whose values total more than 4 GiB: absent key present, or Len()=%d", m.Len())
			}
		})
		if p != nil {
			viol = &evid.Violation{Msg: fmt.Sprintf("panic with value bytes beyond 4 GiB: %v", p), Stack: st}
		}
		b.Evals++
		b.Distinct++
		b.Nontrivial++
		if viol != nil {
			failEnum(t, rec, "c07_long_history", LongHistCase{VType: 2, Gap: -2}, viol)
		}
		debug.FreeOSMemory()
	}
	rec.Merge(b)
	rec.Sample(map[string]interface{}{"key_bytes": []int{hugeLen - 4, hugeLen}, "other_keys": 6})
}
