package props

import (
	"bytes"
	"fmt"
	"io"
	"runtime"
	"runtime/debug"
	"testing"
	"time"
	"unsafe"

	"github.com/bytedance/gopkg/lang/mcache"
	"github.com/cloudwego/gopkg/bufiox"
	"github.com/cloudwego/gopkg/protocol/thrift"
	"github.com/cloudwego/gopkg/verifharness/evid"
	"github.com/cloudwego/gopkg/verifharness/faultio"
	"github.com/cloudwego/gopkg/verifharness/ref"
	"pgregory.net/rapid"
)

// ---- C09: zero-copy slices stay valid; caller memory is never touched ---------------------------

// The co-tenant of the shared mcache pool. Between any two operations of the code under test it takes
// buffers from every size class the history can touch, checks that none overlaps memory the harness
// still has a right to, poisons them and returns them (pass mode) or keeps them across the next
// operation and verifies the poison afterwards (hold mode).

type memRange struct{ lo, hi uintptr }

func rangeOfCap(b []byte) memRange {
	if cap(b) == 0 {
		return memRange{}
	}
	p := uintptr(unsafe.Pointer(unsafe.SliceData(b)))
	return memRange{p, p + uintptr(cap(b))}
}

func rangeOfLen(b []byte) memRange {
	if len(b) == 0 {
		return memRange{}
	}
	p := uintptr(unsafe.Pointer(&b[0]))
	return memRange{p, p + uintptr(len(b))}
}

const (
	tenantMinClass = 0
	tenantMaxClass = 19 // 512 KiB; histories request at most ~140 KiB, growth doubles
	tenantK        = 4
	poisonByte     = 0xA5
)

type tenant struct {
	held   [][]byte
	sweeps int
	taken  int
	// maxClass is the largest size class (log2) the co-tenant takes buffers from; 0 = tenantMaxClass.
	// Classes above tenantMaxClass are swept with 2 buffers instead of tenantK.
	maxClass int
	// light: only classes 2^12..2^18, 2 buffers each (for histories of thousands of steps)
	light bool
}

// tenantFor returns a co-tenant that covers the size classes a history moving maxBytes can touch.
func tenantFor(maxBytes int) *tenant {
	tn := &tenant{}
	if maxBytes > 1<<(tenantMaxClass-2) {
		c := tenantMaxClass
		for c < 26 && 1<<(c-2) < maxBytes {
			c++
		}
		tn.maxClass = c
	}
	return tn
}

func poison(b []byte) {
	b = b[:cap(b)]
	if len(b) <= 1<<16 {
		for i := range b {
			b[i] = poisonByte
		}
		return
	}
	// stripes: first and last 4 KiB and 64 bytes every 1 KiB
	for i := 0; i < 4096; i++ {
		b[i] = poisonByte
		b[len(b)-1-i] = poisonByte
	}
	for off := 4096; off+64 < len(b); off += 1024 {
		for i := 0; i < 64; i++ {
			b[off+i] = poisonByte
		}
	}
}

func poisonIntact(b []byte) int {
	b = b[:cap(b)]
	if len(b) <= 1<<16 {
		for i := range b {
			if b[i] != poisonByte {
				return i
			}
		}
		return -1
	}
	for i := 0; i < 4096; i++ {
		if b[i] != poisonByte {
			return i
		}
		if b[len(b)-1-i] != poisonByte {
			return len(b) - 1 - i
		}
	}
	for off := 4096; off+64 < len(b); off += 1024 {
		for i := 0; i < 64; i++ {
			if b[off+i] != poisonByte {
				return off + i
			}
		}
	}
	return -1
}

// sweep takes K buffers of every class, checks overlap with protected ranges, poisons them. In pass
// mode they are returned at once in reverse order; in hold mode they are kept until release().
func (tn *tenant) sweep(protected []memRange, hold bool) *evid.Violation {
	tn.sweeps++
	var got [][]byte
	var viol *evid.Violation
	maxClass := tenantMaxClass
	if tn.maxClass > maxClass {
		maxClass = tn.maxClass
	}
	minClass := tenantMinClass
	if tn.light {
		minClass, maxClass = 12, 18
	}
	for c := minClass; c <= maxClass; c++ {
		for k := 0; k < tenantK; k++ {
			if (c > tenantMaxClass || tn.light) && k >= 2 {
				break
			}
			b := mcache.Malloc(1 << c)
			got = append(got, b)
			tn.taken++
			r := rangeOfCap(b)
			for _, p := range protected {
				if p.lo < r.hi && r.lo < p.hi && p.hi > p.lo && viol == nil {
					viol = evid.Failf("the shared buffer pool handed the co-tenant a %d-byte buffer that overlaps memory still owned by a live slice, a live region or the caller (range %#x..%#x vs %#x..%#x): it was recycled while in use", cap(b), r.lo, r.hi, p.lo, p.hi)
				}
			}
		}
	}
	if viol != nil {
		// do not poison: keep the evidence readable; return buffers
		for i := len(got) - 1; i >= 0; i-- {
			mcache.Free(got[i])
		}
		return viol
	}
	for _, b := range got {
		poison(b)
	}
	if hold {
		tn.held = append(tn.held, got...)
		return nil
	}
	for i := len(got) - 1; i >= 0; i-- {
		mcache.Free(got[i])
	}
	return nil
}

// release verifies that held buffers still carry their poison (nobody but the current owner may write a
// pooled buffer) and returns them.
func (tn *tenant) release() *evid.Violation {
	var viol *evid.Violation
	for _, b := range tn.held {
		if i := poisonIntact(b); i >= 0 && viol == nil {
			viol = evid.Failf("a %d-byte buffer the co-tenant obtained from the shared pool and was holding was written to at offset %d by someone else: the reader/writer wrote to memory it had already recycled", cap(b), i)
		}
	}
	for i := len(tn.held) - 1; i >= 0; i-- {
		mcache.Free(tn.held[i])
	}
	tn.held = nil
	return viol
}

// poolSource is an io.Reader whose Read itself uses the shared pool (as a network stack would): before
// handing out data it takes a few buffers of every small class, poisons them and returns them. A decoder
// that still looks at a block it has already recycled sees the poison.
type poolSource struct {
	inner io.Reader
}

func (p *poolSource) Read(b []byte) (int, error) {
	var got [][]byte
	for c := 0; c <= 17; c++ {
		for k := 0; k < 2; k++ {
			x := mcache.Malloc(1 << c)
			got = append(got, x)
		}
	}
	for _, x := range got {
		x = x[:cap(x)]
		for i := 0; i < len(x); i += 61 {
			x[i] = poisonByte
		}
		if len(x) <= 8192 {
			for i := range x {
				x[i] = poisonByte
			}
		}
	}
	for i := len(got) - 1; i >= 0; i-- {
		mcache.Free(got[i])
	}
	return p.inner.Read(b)
}

func (tn *tenant) step(mode, i int, protected []memRange) *evid.Violation {
	if v := tn.release(); v != nil {
		return v
	}
	hold := mode == 2 || (mode == 3 && i%2 == 1)
	return tn.sweep(protected, hold)
}

func checkReaderTenant(c ReaderCase, cv *cov) *evid.Violation {
	old := runtime.GOMAXPROCS(1)
	defer runtime.GOMAXPROCS(old)
	if c.Tenant == 0 {
		c.Tenant = 1
	}
	tn := tenantFor(c.Total)
	tn.light = len(c.Ops) > 400
	hooks := &readerHooks{}
	hooks.afterOp = func(step int, op ROp, live [][]byte) *evid.Violation {
		var prot []memRange
		if hooks.caller != nil {
			prot = append(prot, rangeOfCap(hooks.caller))
		}
		for _, l := range live {
			prot = append(prot, rangeOfLen(l))
		}
		if v := tn.step(c.Tenant, step, prot); v != nil {
			v.Msg = fmt.Sprintf("after step %d %s(%d): %s", step, op.K, op.N, v.Msg)
			return v
		}
		return nil
	}
	v := runReaderHistory(&c, cv, true, hooks)
	if v == nil {
		v = tn.release()
	} else {
		tn.release()
	}
	if v != nil {
		return v
	}
	hasLive := false
	for _, l := range cv.labels {
		if l == "live_slice_across_big_request" {
			hasLive = true
		}
	}
	cv.nontrivial = hasLive || (c.Bytes && c.Cap > 0 && c.Cap&(c.Cap-1) == 0)
	cv.labelIf(c.Bytes && c.Cap > 0 && c.Cap&(c.Cap-1) == 0, "caller_buffer_pow2_cap")
	cv.label(fmt.Sprintf("tenant_mode_%d", c.Tenant))
	return nil
}

func checkWriterTenant(c WriterCase, cv *cov) *evid.Violation {
	old := runtime.GOMAXPROCS(1)
	defer runtime.GOMAXPROCS(old)
	if c.Tenant == 0 {
		c.Tenant = 1
	}
	wtotal := 0
	for _, op := range c.Ops {
		if op.N > 0 {
			wtotal += op.N
		}
	}
	tn := tenantFor(wtotal)
	if len(c.Ops) > 400 {
		tn = &tenant{light: true}
	}
	hooks := &writerHooks{}
	hooks.afterOp = func(step int, op WOp, live [][]byte, owned [][]byte) *evid.Violation {
		var prot []memRange
		for _, l := range live {
			prot = append(prot, rangeOfLen(l))
		}
		for _, o := range owned {
			prot = append(prot, rangeOfCap(o))
		}
		if hooks.target != nil {
			prot = append(prot, rangeOfCap(hooks.target)) // the caller's slice given to NewBytesWriter
		}
		if v := tn.step(c.Tenant, step, prot); v != nil {
			v.Msg = fmt.Sprintf("after step %d %s(%d): %s", step, op.K, op.N, v.Msg)
			return v
		}
		return nil
	}
	v := runWriterHistory(&c, cv, hooks)
	if v == nil {
		v = tn.release()
	} else {
		tn.release()
	}
	if v != nil {
		return v
	}
	grow := false
	for _, l := range cv.labels {
		if l == "lazy_region_across_growth" || l == "unflushed_gt_4096" {
			grow = true
		}
	}
	cv.nontrivial = grow
	cv.labelIf(c.Pow2, "payloads_in_pow2_buffers")
	cv.label(fmt.Sprintf("tenant_mode_%d", c.Tenant))
	return nil
}

// SkipTenantCase: values decoded through the stream skip decoders, results retained for their documented lifetime.
type SkipTenantCase struct {
	Lens       []int        `json:"lens"`              // string lengths of the values (each value is a struct holding one string and an i32)
	Reader     bool         `json:"reader"`            // true: ReaderSkipDecoder over a plain io.Reader; false: SkipDecoder over a bufiox reader
	Release    []bool       `json:"release,omitempty"` // SkipDecoder: Release the bufiox reader after value i
	Plan       faultio.Plan `json:"plan"`
	Tenant     int          `json:"tenant"`
	Cycle      bool         `json:"cycle,omitempty"`       // release the decoder to its pool and fetch a new one between values
	PoolSource bool         `json:"pool_source,omitempty"` // the io.Reader itself allocates from the shared pool inside Read
	Fresh      bool         `json:"fresh,omitempty"`       // ReaderSkipDecoder: a zero-value decoder instead of a pooled one
	// Fail[i] > 0: before value i, a pooled decoder of the same kind is given a value of that string length
	// whose last bytes are missing (its Next fails after the buffer has grown), and is released again.
	Fail []int `json:"fail,omitempty"`
	// FailMode 0: every such failure is a truncation (an I/O failure). 1: at every second failing position the
	// value is instead rejected by the grammar, behind the long string (a later field declares a negative size).
	// 2: a truncation followed by such a rejection, at every failing position.
	FailMode int `json:"fail_mode,omitempty"`
}

func checkSkipTenant(c SkipTenantCase, cv *cov) (v *evid.Violation) {
	old := runtime.GOMAXPROCS(1)
	defer runtime.GOMAXPROCS(old)
	if len(c.Lens) == 0 || len(c.Lens) > 5000 {
		return nil
	}
	if c.Tenant == 0 {
		c.Tenant = 1
	}
	var encs [][]byte
	var stream []byte
	for i, l := range c.Lens {
		if l < 0 || l > 1<<25 {
			return nil
		}
		val := ref.Value{T: ref.STRUCT, Fields: []ref.Field{{ID: 1, V: ref.Value{T: ref.STRING, Str: patternBytes(byte(i+1), l)}}, {ID: 2, V: ref.Value{T: ref.I32, Bits: uint64(i)}}}}
		e, _ := ref.Encode(&val)
		encs = append(encs, e)
		stream = append(stream, e...)
	}
	maxLen := 0
	for _, l := range append(append([]int{}, c.Lens...), c.Fail...) {
		if l > maxLen {
			maxLen = l
		}
	}
	if maxLen > 1<<25 {
		return nil
	}
	tn := tenantFor(maxLen)
	tn.light = len(c.Lens) > 200
	grew := false
	sawFail := false
	// failedDecode lets a pooled decoder fail on a truncated value of string length l (an I/O failure) and/or
	// reject a value for a reason that lies in the bytes, behind a long string that has already been buffered
	// (FailMode).
	failedDecode := func(i int) *evid.Violation {
		if i >= len(c.Fail) || c.Fail[i] <= 0 {
			return nil
		}
		l := c.Fail[i]
		val := ref.Value{T: ref.STRUCT, Fields: []ref.Field{{ID: 1, V: ref.Value{T: ref.STRING, Str: patternBytes(0x77, l)}}}}
		full, _ := ref.Encode(&val)
		cut := full[:len(full)-3]                                                                        // the source ends early
		neg := append(append([]byte(nil), full[:len(full)-1]...), 0x0b, 0, 2, 0xff, 0xff, 0xff, 0xff, 0) // a second string field declares a negative size
		variants, names := [][]byte{cut}, []string{"a value whose last 3 bytes are missing"}
		switch c.FailMode {
		case 1:
			if (i/2)%2 == 1 {
				variants, names = [][]byte{neg}, []string{"a value whose second field declares a negative size"}
			}
		case 2:
			variants, names = append(variants, neg), append(names, "a value whose second field declares a negative size")
		}
		sawFail = true
		for vi, e := range variants {
			fsr := faultio.NewScriptReader(e, faultio.Plan{Chunks: []int{0}, ErrAt: -1, WithData: i%2 == 0})
			what := names[vi]
			if c.Reader {
				x := thrift.NewReaderSkipDecoder(fsr)
				_, err := x.Next(ref.STRUCT)
				x.Release()
				if err == nil {
					return evid.Failf("ReaderSkipDecoder.Next accepted %s", what)
				}
			} else {
				fbr := bufiox.NewDefaultReader(fsr)
				x := thrift.NewSkipDecoder(fbr)
				_, err := x.Next(ref.STRUCT)
				x.Release()
				fbr.Release(err)
				if err == nil {
					return evid.Failf("SkipDecoder.Next accepted %s", what)
				}
			}
			if v := tn.step(c.Tenant, i, nil); v != nil {
				return v
			}
		}
		return nil
	}
	body := func() {
		plan := c.Plan
		plan.ErrAt = len(stream)
		sr := faultio.NewScriptReader(stream, plan)
		if c.Reader {
			var src io.Reader = sr
			if c.PoolSource {
				src = &poolSource{inner: sr}
			}
			rd := thrift.NewReaderSkipDecoder(src)
			if c.Fresh {
				// a decoder that has never been used (no retained buffer): every step has to grow
				rd.Release()
				rd = &thrift.ReaderSkipDecoder{}
				rd.Reset(src)
			}
			for i := range encs {
				if i < len(c.Fail) && c.Fail[i] > 0 {
					rd.Release()
					if v = failedDecode(i); v != nil {
						v.Msg = fmt.Sprintf("after a failed decode on a pooled ReaderSkipDecoder before value %d: %s", i, v.Msg)
						return
					}
					rd = thrift.NewReaderSkipDecoder(src)
				}
				out, err := rd.Next(ref.STRUCT)
				if err != nil || !bytes.Equal(out, encs[i]) {
					v = evid.Failf("ReaderSkipDecoder.Next value %d: err=%v, %d bytes returned, want %d", i, err, len(out), len(encs[i]))
					return
				}
				// result is valid until the next Next / Release: co-tenant runs now
				if v = tn.step(c.Tenant, i, []memRange{rangeOfLen(out)}); v != nil {
					v.Msg = fmt.Sprintf("after ReaderSkipDecoder.Next value %d: %s", i, v.Msg)
					return
				}
				if !bytes.Equal(out, encs[i]) {
					v = evid.Failf("ReaderSkipDecoder result %d (%d bytes) changed before the next Next call while a co-tenant used the shared pool", i, len(out))
					return
				}
				if len(encs[i]) > 4096 {
					grew = true
				}
				if c.Cycle {
					rd.Release()
					if v = tn.step(c.Tenant, i+1, nil); v != nil {
						v.Msg = fmt.Sprintf("after ReaderSkipDecoder.Release (value %d): %s", i, v.Msg)
						return
					}
					rd = thrift.NewReaderSkipDecoder(src)
				}
			}
			rd.Release()
			v = tn.step(c.Tenant, 1, nil)
			return
		}
		br := bufiox.NewDefaultReader(sr)
		sd := thrift.NewSkipDecoder(br)
		type live struct {
			b    []byte
			want []byte
		}
		var lives []live
		verify := func(when string) *evid.Violation {
			for j, l := range lives {
				if !bytes.Equal(l.b, l.want) {
					return evid.Failf("%s: SkipDecoder result %d (%d bytes) no longer holds its bytes before Release of the reader", when, j, len(l.want))
				}
			}
			return nil
		}
		for i := range encs {
			if v = failedDecode(i); v != nil {
				v.Msg = fmt.Sprintf("after a failed decode on another pooled SkipDecoder before value %d: %s", i, v.Msg)
				return
			}
			if v = verify(fmt.Sprintf("after a failed decode on another decoder before value %d", i)); v != nil {
				return
			}
			out, err := sd.Next(ref.STRUCT)
			if err != nil || !bytes.Equal(out, encs[i]) {
				v = evid.Failf("SkipDecoder.Next value %d: err=%v, %d bytes returned, want %d", i, err, len(out), len(encs[i]))
				return
			}
			if len(lives) > 0 && len(encs[i]) > 4096 {
				grew = true
			}
			lives = append(lives, live{out, encs[i]})
			var prot []memRange
			for _, l := range lives {
				prot = append(prot, rangeOfLen(l.b))
			}
			if v = tn.step(c.Tenant, i, prot); v != nil {
				v.Msg = fmt.Sprintf("after SkipDecoder.Next value %d: %s", i, v.Msg)
				return
			}
			if v = verify(fmt.Sprintf("after value %d and the co-tenant", i)); v != nil {
				return
			}
			if c.Cycle {
				if i%2 == 1 {
					// the last call before the decoder goes back to its pool is rejected by the grammar (an unknown
					// type tag; nothing is consumed). Giving the DECODER back must not touch the READER: its ReadLen
					// and every result handed out so far stay as they are until the reader itself is released
					rl := br.ReadLen()
					if _, e := sd.Next(thrift.TType(0x40)); e == nil {
						v = evid.Failf("SkipDecoder.Next accepted type tag 0x40")
						return
					}
					sd.Release()
					if br.ReadLen() != rl {
						v = evid.Failf("after value %d: SkipDecoder.Release (following a Next that was rejected for an unknown type) changed the reader's ReadLen from %d to %d", i, rl, br.ReadLen())
						return
					}
					if v = verify(fmt.Sprintf("after value %d and SkipDecoder.Release following a rejected Next", i)); v != nil {
						return
					}
				} else {
					sd.Release()
				}
				sd = thrift.NewSkipDecoder(br)
			}
			if i < len(c.Release) && c.Release[i] {
				lives = nil
				br.Release(nil)
			}
		}
		sd.Release()
		br.Release(nil)
		v = tn.step(c.Tenant, 1, nil)
	}
	if p, st := evid.Safe(body); p != nil {
		tn.release()
		return &evid.Violation{Msg: fmt.Sprintf("panic: %v", p), Stack: st}
	}
	if v2 := tn.release(); v == nil {
		v = v2
	}
	if v != nil {
		return v
	}
	cv.nontrivial = grew
	cv.labelIf(c.Reader, "ReaderSkipDecoder")
	cv.labelIf(!c.Reader, "SkipDecoder")
	cv.labelIf(grew, "result_retained_across_growth")
	cv.labelIf(sawFail, "failed_decode_on_pooled_decoder_in_between")
	return nil
}

func init() {
	register("c09_reader_tenant", checkReaderTenant)
	register("c09_writer_tenant", checkWriterTenant)
	register("c09_skip_tenant", checkSkipTenant)
}

func genReaderTenantCase(t *rapid.T) ReaderCase {
	c := ReaderCase{}
	c.Total = rapid.OneOf(rapid.IntRange(0, 20000), rapid.IntRange(0, 250000)).Draw(t, "total")
	c.Bytes = rapid.IntRange(0, 2).Draw(t, "bytesReader") == 0
	if c.Bytes {
		c.Total = rapid.SampledFrom([]int{0, 0, 1, 64, 1000, 4096, 5000, 8192, 65536}).Draw(t, "btotal")
		switch rapid.IntRange(0, 2).Draw(t, "capKind") {
		case 0:
			c.Cap = nextPow2(c.Total)
		case 1: // short or empty slice of a power-of-two buffer
			c.Cap = nextPow2(c.Total + rapid.SampledFrom([]int{1, 16, 4096}).Draw(t, "extraCap"))
		default:
			c.Cap = c.Total + rapid.IntRange(0, 100).Draw(t, "spare")
		}
	} else {
		c.Plan = faultio.Plan{Chunks: []int{rapid.SampledFrom([]int{0, 0, 1000, 4096, 100}).Draw(t, "chunk")}, ErrAt: -1, WithData: rapid.Bool().Draw(t, "wd")}
	}
	// ascending runs of sizes while earlier slices stay live
	sizes := rapid.SampledFrom([]int{1, 100, 4096, 8193, 20000, 70000})
	c.Ops = rapid.SliceOfN(rapid.Custom(func(t *rapid.T) ROp {
		return ROp{K: rapid.SampledFrom([]string{"next", "next", "next", "peek", "skip", "readbin", "release"}).Draw(t, "k"), N: sizes.Draw(t, "n")}
	}), 1, 25).Draw(t, "ops")
	c.Tenant = rapid.IntRange(1, 3).Draw(t, "tenant")
	return c
}

func genWriterTenantCase(t *rapid.T) WriterCase {
	c := genWriterCase(t)
	if len(c.Ops) > 25 {
		c.Ops = c.Ops[:25]
	}
	c.Pow2 = rapid.Bool().Draw(t, "pow2")
	c.Tenant = rapid.IntRange(1, 3).Draw(t, "tenant")
	return c
}

func genSkipTenantCase(t *rapid.T) SkipTenantCase {
	c := SkipTenantCase{Reader: rapid.Bool().Draw(t, "reader"), Tenant: rapid.IntRange(1, 3).Draw(t, "tenant"), Cycle: rapid.Bool().Draw(t, "cycle"), PoolSource: rapid.Bool().Draw(t, "poolSource"), Fresh: rapid.Bool().Draw(t, "fresh")}
	n := rapid.IntRange(1, 10).Draw(t, "n")
	for i := 0; i < n; i++ {
		c.Lens = append(c.Lens, rapid.SampledFrom([]int{0, 10, 1000, 2040, 3000, 4090, 5000, 9000, 20000, 70000}).Draw(t, "len"))
		c.Release = append(c.Release, rapid.IntRange(0, 3).Draw(t, "rel") == 0)
		c.Fail = append(c.Fail, rapid.SampledFrom([]int{0, 0, 0, 0, 10, 5000, 70000, 200000}).Draw(t, "fail"))
	}
	c.FailMode = rapid.IntRange(0, 2).Draw(t, "failMode")
	c.Plan = faultio.Plan{Chunks: []int{rapid.SampledFrom([]int{0, 1000, 4096}).Draw(t, "chunk")}, ErrAt: -1, WithData: rapid.Bool().Draw(t, "wd")}
	return c
}

func TestC09_Reader(t *testing.T) {
	rec := evid.New("C09", "c09_reader", "rapid: reader histories (Next/Peek/Skip/ReadBinary/Release with sizes 1,100,4096,8193,20000,70000 so that earlier slices stay live across 0..5 buffer growths; io.Reader-backed and bytes-backed with power-of-two and other capacities) with an adversarial co-tenant of the shared mcache pool run after every operation (takes 4 buffers of each of 20 size classes, checks address overlap with live slices and caller memory, poisons them, returns them at once or holds them across the next operation and verifies the poison); every live slice is re-verified after each co-tenant run, before each Release and at the end; caller buffers compared with a pristine copy over their full capacity; non-trivial = a slice retained across a request > 4096, or a caller buffer with power-of-two capacity")
	defer rec.Flush()
	rec.Assume("GOMAXPROCS(1) and no race detector, so that sync.Pool hands a freed buffer to the next Malloc of the same class; a GC emptying the pools only reduces sensitivity")
	runRapid(t, rec, "c09_reader_tenant", evid.Pick(2500, 20000), genReaderTenantCase, checkReaderTenant)
}

func TestC09_Writer(t *testing.T) {
	rec := evid.New("C09", "c09_writer", "rapid: the C05 writer histories (<= 25 ops) with the co-tenant after every operation; live regions must stay writable, disjoint and intact, WriteBinary payload buffers (power-of-two capacities in half of the cases) must stay byte-identical over their full capacity and never reach the pool; held pool buffers must keep their poison; non-trivial = unflushed size crossed 4096 (growth) in the history")
	defer rec.Flush()
	runRapid(t, rec, "c09_writer_tenant", evid.Pick(2500, 20000), genWriterTenantCase, checkWriterTenant)
}

func TestC09_SkipDecoders(t *testing.T) {
	rec := evid.New("C09", "c09_skipdecoders", "rapid: 1..10 struct values with strings of 0..70000 bytes decoded by SkipDecoder over a buffered reader (results retained until Release of the reader, across growths) and by ReaderSkipDecoder (result retained until the next Next), with pool cycling of the decoders and the co-tenant in between; non-trivial = a result retained while a later value > 4096 bytes forced a growth")
	defer rec.Flush()
	runRapid(t, rec, "c09_skip_tenant", evid.Pick(1500, 12000), genSkipTenantCase, checkSkipTenant)
}

// TestC09_Big: the same three co-tenant checks with requests, payloads and values of 64 KiB .. 16 MiB, so
// that buffers of the large size classes are handed out, retained, outgrown and recycled.
func TestC09_Big(t *testing.T) {
	rec := evid.New("C09", "c09_big", "enumeration: for n in {2^k+1 : k = 16..24}: reader histories {Next 100; Next n; Peek 9; Release; Next 100}, {Next n; Next n/2; Release; Next 7} and {Peek n; Peek 2n+3; Peek 4n; Next 10; Release; Peek 50; Peek n/2; Peek 3n+1; Next 3n; Release} (io.Reader-backed) and a bytes reader over an n-byte slice of power-of-two capacity with a failing over-read; writer histories {Malloc 100; WriteBinary n-1 (payload of exactly 2^k bytes in a power-of-two capacity buffer); Malloc n/2; Flush; Malloc 100; Flush} and {WriteBinary 2^k first; Malloc 100; Malloc 5000; Flush; WriteBinary 2^k; WriteBinary 10; Flush}; skip-decoder cases {values n, 10, n/2; with and without pool cycling; with a failed decode of a truncated n-byte value on a pooled decoder in between, in three failure modes: truncation only / a grammar rejection behind the long string at every second failing position / both at every position} for both stream skip decoders; co-tenant covers size classes up to 4n; distinct by construction")
	defer rec.Flush()
	bt := evid.NewBatch()
	shard, nshards := evid.Shard()
	idx := 0
	fail := func(name string, c interface{}, v *evid.Violation) {
		failEnum(t, rec, name, c, v)
		rec.Merge(bt)
	}
	for k := 16; k <= 24; k++ {
		n := 1<<k + 1
		idx++
		if idx%nshards != shard {
			continue
		}
		plan := faultio.Plan{Chunks: []int{1 << 18}, ErrAt: -1, WithData: k%2 == 0}
		readers := []ReaderCase{
			{Total: n + 300, Plan: plan, Tenant: 1 + k%3, Ops: []ROp{{"next", 100}, {"next", n}, {"peek", 9}, {"release", 0}, {"next", 100}}},
			{Total: n + n/2 + 50, Plan: plan, Tenant: 1 + (k+1)%3, Ops: []ROp{{"next", n}, {"next", n / 2}, {"release", 0}, {"next", 7}}},
			{Bytes: true, Total: n - 1, Cap: n - 1, Tenant: 2, Ops: []ROp{{"next", 10}, {"next", n}, {"peek", n + 5}, {"release", 0}, {"next", 10}, {"release", 0}}},
			// only Peek since the start / since the last Release: the peeked slices are held while the buffer grows twice
			{Total: 4*n + 100, Plan: plan, Tenant: 1 + k%3, Ops: []ROp{{"peek", n}, {"peek", 2*n + 3}, {"peek", 4 * n}, {"next", 10}, {"release", 0}, {"peek", 50}, {"peek", n / 2}, {"peek", 3*n + 1}, {"next", 3 * n}, {"release", 0}}},
		}
		for _, c := range readers {
			var cv cov
			if v := checkReaderTenant(c, &cv); v != nil {
				fail("c09_reader_tenant", c, v)
				return
			}
			bt.Evals++
			bt.Distinct++
			bt.Nontrivial++
		}
		for _, ops := range [][]WOp{
			{{"malloc", 100}, {"writebin", n - 1}, {"lazy", n / 2}, {"flush", 0}, {"malloc", 100}, {"flush", 0}},
			// a large payload as the very first write of a fresh (and of a just-flushed) writer, then more writes
			{{"writebin", n - 1}, {"malloc", 100}, {"lazy", 5000}, {"flush", 0}, {"writebin", n - 1}, {"writebin", 10}, {"flush", 0}},
		} {
			wc := WriterCase{Pow2: true, Tenant: 1 + k%3, Ops: ops}
			for _, bw := range []bool{false, true} {
				wc.Bytes, wc.InitLen, wc.InitCap = bw, 16, 64
				var cv cov
				if v := checkWriterTenant(wc, &cv); v != nil {
					fail("c09_writer_tenant", wc, v)
					return
				}
				bt.Evals++
				bt.Distinct++
				bt.Nontrivial++
			}
		}
		for variant := 0; variant < 16; variant++ {
			// variants 0..3 without failures; 4..7 with truncations in between (FailMode 0); 8..11 and 12..15 repeat
			// 4..7 with FailMode 1 and 2
			base := variant & 3
			sc := SkipTenantCase{Lens: []int{n, 10, n / 2, 100}, Reader: base&1 == 1, Cycle: base&2 != 0, Tenant: 1 + (base|4*boolInt(variant >= 4))%3, Release: []bool{false, true, false, false},
				Plan: faultio.Plan{Chunks: []int{1 << 18}, ErrAt: -1, WithData: base&1 == 0}}
			if variant >= 4 {
				sc.Fail = []int{0, n, 0, n / 3}
				sc.FailMode = variant/4 - 1
			}
			var cv cov
			if v := checkSkipTenant(sc, &cv); v != nil {
				fail("c09_skip_tenant", sc, v)
				return
			}
			bt.Evals++
			bt.Distinct++
			bt.Nontrivial++
		}
		debug.FreeOSMemory()
	}
	rec.Merge(bt)
	rec.Sample(SkipTenantCase{Lens: []int{1<<22 + 1, 10, 1 << 21, 100}, Reader: true, Cycle: true, Tenant: 2, Fail: []int{0, 1<<22 + 1, 0, 1398101}})
	rec.SetExhaustive()
}

// AbandonCase: slices obtained from a reader that is then dropped without Release. They must keep their
// contents for as long as the caller holds them: nothing may recycle their memory behind the caller's
// back (for instance from a finalizer).
type AbandonCase struct {
	Sizes []int `json:"sizes"` // Next sizes; the slices are retained
	Peek  int   `json:"peek,omitempty"`
	Total int   `json:"total"`
	GCs   int   `json:"gcs"`
}

func waitFinalizers() {
	// a sentinel queued in the same cycle; finalizers run one after the other on one goroutine
	done := make(chan struct{})
	s := new([64]byte)
	runtime.SetFinalizer(s, func(*[64]byte) { close(done) })
	s = nil
	runtime.GC()
	select {
	case <-done:
	case <-time.After(200 * time.Millisecond): // only sensitivity depends on this, never the verdict
	}
}

func checkAbandon(c AbandonCase, cv *cov) (v *evid.Violation) {
	if c.Total < 0 || c.Total > 1<<22 || len(c.Sizes) == 0 || len(c.Sizes) > 8 {
		return nil
	}
	old := runtime.GOMAXPROCS(1)
	defer runtime.GOMAXPROCS(old)
	src := makeStream(c.Total)
	type kept struct {
		b   []byte
		off int
	}
	var keep []kept
	func() {
		r := bufiox.NewDefaultReader(faultio.NewScriptReader(src, faultio.Plan{Chunks: []int{0}, ErrAt: -1}))
		pos := 0
		for _, n := range c.Sizes {
			if n < 0 || pos+n > c.Total {
				break
			}
			b, err := r.Next(n)
			if err != nil {
				break
			}
			keep = append(keep, kept{b, pos})
			pos += n
		}
		if c.Peek > 0 && pos+c.Peek <= c.Total {
			if b, err := r.Peek(c.Peek); err == nil {
				keep = append(keep, kept{b, pos})
			}
		}
		// the reader is dropped here, without Release
	}()
	gcs := c.GCs
	if gcs < 1 {
		gcs = 1
	}
	if gcs > 3 {
		gcs = 3
	}
	for i := 0; i < gcs; i++ {
		runtime.GC()
		waitFinalizers()
	}
	tn := tenantFor(c.Total)
	var prot []memRange
	for _, k := range keep {
		prot = append(prot, rangeOfLen(k.b))
	}
	if v = tn.sweep(prot, false); v != nil {
		v.Msg = "after the reader was dropped without Release and the garbage collector ran: " + v.Msg
		return v
	}
	for i, k := range keep {
		if !bytes.Equal(k.b, src[k.off:k.off+len(k.b)]) {
			return evid.Failf("slice %d (%d bytes at stream offset %d) obtained from a reader that was then dropped without Release no longer holds its bytes after %d garbage collections and other users of the shared pool", i, len(k.b), k.off, gcs)
		}
	}
	cv.nontrivial = len(keep) > 0
	cv.labelIf(len(keep) > 1, "several_slices_retained")
	return nil
}

func init() { register("c09_abandon", checkAbandon) }

func TestC09_Abandoned(t *testing.T) {
	rec := evid.New("C09", "c09_abandoned", "rapid: 1..4 Next calls (sizes 1..70000, boundary sizes) and an optional Peek on an io.Reader-backed reader whose results are retained while the reader itself is dropped without Release; then 1..3 garbage collections (waiting for the finalizer goroutine), then the co-tenant takes and poisons buffers of every size class; the retained slices must still hold the stream bytes and must not overlap anything the pool hands out; non-trivial = at least one slice retained")
	defer rec.Flush()
	runRapid(t, rec, "c09_abandon", evid.Pick(150, 1500), func(t *rapid.T) AbandonCase {
		c := AbandonCase{Total: rapid.SampledFrom([]int{100, 4096, 5000, 20000, 100000}).Draw(t, "total"), GCs: rapid.IntRange(1, 3).Draw(t, "gcs")}
		c.Sizes = rapid.SliceOfN(rapid.SampledFrom([]int{1, 10, 100, 1000, 4095, 4096, 4097, 9000, 70000}), 1, 4).Draw(t, "sizes")
		if rapid.Bool().Draw(t, "peek") {
			c.Peek = rapid.SampledFrom([]int{1, 100, 5000}).Draw(t, "peekN")
		}
		return c
	}, checkAbandon)
}

// ---- two live objects on one goroutine's pool cache ------------------------------------------------------

// PairSide is one of two bufiox objects that are alive at the same time.
type PairSide struct {
	Reader *ReaderCase `json:"reader,omitempty"`
	Writer *WriterCase `json:"writer,omitempty"`
}

// PairCase interleaves the histories of two objects: Quanta[i] operations of one side, then the other side.
type PairCase struct {
	A      PairSide `json:"a"`
	B      PairSide `json:"b"`
	Quanta []int    `json:"quanta"`
	Tenant int      `json:"tenant"`
}

func checkPair(c PairCase, cv *cov) *evid.Violation {
	if (c.A.Reader == nil) == (c.A.Writer == nil) || (c.B.Reader == nil) == (c.B.Writer == nil) || len(c.Quanta) == 0 {
		return nil
	}
	old := runtime.GOMAXPROCS(1)
	defer runtime.GOMAXPROCS(old)
	tn := tenantFor(1 << 18)
	mode := c.Tenant
	if mode == 0 {
		mode = 1
	}
	type side struct {
		resume chan struct{}
		event  chan bool // true = finished
		viol   *evid.Violation
		ops    int
		cv     cov
	}
	sides := [2]*side{{resume: make(chan struct{}), event: make(chan bool)}, {resume: make(chan struct{}), event: make(chan bool)}}
	qi := 0
	quantum := func() int {
		q := c.Quanta[qi%len(c.Quanta)]
		qi++
		if q < 1 {
			q = 1
		}
		return q
	}
	run := func(k int, ps PairSide) {
		s := sides[k]
		<-s.resume
		left := quantum()
		yield := func(prot []memRange, step int) *evid.Violation {
			if v := tn.step(mode, step, prot); v != nil {
				return v
			}
			left--
			if left <= 0 {
				s.event <- false
				<-s.resume
				left = quantum()
			}
			return nil
		}
		if ps.Reader != nil {
			rc := *ps.Reader
			hooks := &readerHooks{}
			hooks.afterOp = func(step int, op ROp, live [][]byte) *evid.Violation {
				var prot []memRange
				if hooks.caller != nil {
					prot = append(prot, rangeOfCap(hooks.caller))
				}
				for _, l := range live {
					prot = append(prot, rangeOfLen(l))
				}
				s.ops++
				return yield(prot, step)
			}
			s.viol = runReaderHistory(&rc, &s.cv, true, hooks)
		} else {
			wc := *ps.Writer
			hooks := &writerHooks{}
			hooks.afterOp = func(step int, op WOp, live [][]byte, owned [][]byte) *evid.Violation {
				var prot []memRange
				for _, l := range live {
					prot = append(prot, rangeOfLen(l))
				}
				for _, o := range owned {
					prot = append(prot, rangeOfCap(o))
				}
				if hooks.target != nil {
					prot = append(prot, rangeOfCap(hooks.target))
				}
				s.ops++
				return yield(prot, step)
			}
			s.viol = runWriterHistory(&wc, &s.cv, hooks)
		}
		s.event <- true
	}
	go run(0, c.A)
	go run(1, c.B)
	done := [2]bool{}
	cur := 0
	switches := 0
	for !done[0] || !done[1] {
		if done[cur] {
			cur = 1 - cur
		}
		sides[cur].resume <- struct{}{}
		if <-sides[cur].event {
			done[cur] = true
		}
		cur = 1 - cur
		switches++
	}
	v := tn.release()
	for k, s := range sides {
		if s.viol != nil {
			s.viol.Msg = fmt.Sprintf("object %s (its history interleaved with a second live bufiox object on the same goroutine): %s", []string{"A", "B"}[k], s.viol.Msg)
			return s.viol
		}
	}
	if v != nil {
		return v
	}
	cv.nontrivial = sides[0].ops >= 2 && sides[1].ops >= 2 && switches >= 4
	cv.labelIf(c.A.Reader != nil && c.B.Reader != nil, "reader+reader")
	cv.labelIf(c.A.Writer != nil && c.B.Writer != nil, "writer+writer")
	cv.labelIf((c.A.Reader != nil) != (c.B.Reader != nil), "reader+writer")
	return nil
}

func init() { register("c09_pair", checkPair) }

func genPairCase(t *rapid.T) PairCase {
	side := func(l string) PairSide {
		if rapid.Bool().Draw(t, l+"isReader") {
			c := genReaderTenantCase(t)
			if len(c.Ops) > 14 {
				c.Ops = c.Ops[:14]
			}
			return PairSide{Reader: &c}
		}
		c := genWriterTenantCase(t)
		if len(c.Ops) > 14 {
			c.Ops = c.Ops[:14]
		}
		return PairSide{Writer: &c}
	}
	return PairCase{A: side("a"), B: side("b"), Quanta: rapid.SliceOfN(rapid.IntRange(1, 3), 1, 6).Draw(t, "quanta"), Tenant: rapid.IntRange(1, 3).Draw(t, "tenant")}
}

func TestC09_Pairs(t *testing.T) {
	rec := evid.New("C09", "c09_pairs", "rapid: two bufiox objects (reader+reader, reader+writer, writer+writer; the C09 reader and writer histories of <= 14 operations) alive at the same time and driven alternately on one processor (1..3 operations of one, then of the other, lock-stepped goroutines under GOMAXPROCS(1) so that both use the same pool caches), with the co-tenant after every operation; each object's own oracle (delivered bytes, live slices, regions, caller memory, sink contents) must hold; non-trivial = both objects did >= 2 operations and control changed sides >= 4 times")
	defer rec.Flush()
	runRapid(t, rec, "c09_pair", evid.Pick(1500, 12000), genPairCase, checkPair)
}

// TestC09_LongLived: one skip decoder object (and its pooled successors) used for thousands of values
// after one large value has grown its buffer, with the co-tenant after every value.
func TestC09_LongLived(t *testing.T) {
	rec := evid.New("C09", "c09_long_lived", "enumeration: value lengths {70000, then 2300 x 10 bytes} and {20000, then 2300 x 3000 bytes} decoded by one SkipDecoder / ReaderSkipDecoder (kept for the whole run, or released to its pool and fetched again after every value), a light co-tenant (2 buffers of every class 4 KiB..256 KiB) after every value; likewise one reader for 2300 rounds of {Next; Release} and one writer (stream- and bytes-backed) for 2300 rounds of {Malloc; WriteBinary; Flush}; every result must hold its bytes until the next Next (ReaderSkipDecoder) / the Release of the reader (SkipDecoder); distinct by construction")
	defer rec.Flush()
	bt := evid.NewBatch()
	shard, nshards := evid.Shard()
	idx := 0
	for _, shape := range [][3]int{{70000, 10, 2300}, {20000, 3000, 2300}} {
		for variant := 0; variant < 4; variant++ {
			idx++
			if idx%nshards != shard {
				continue
			}
			c := SkipTenantCase{Reader: variant&1 == 1, Cycle: variant&2 != 0, Tenant: 1, Plan: faultio.Plan{Chunks: []int{4096}, ErrAt: -1}}
			c.Lens = append(c.Lens, shape[0])
			c.Release = append(c.Release, true)
			for i := 0; i < shape[2]; i++ {
				c.Lens = append(c.Lens, shape[1])
				c.Release = append(c.Release, i%7 == 6)
			}
			var cv cov
			v := checkSkipTenant(c, &cv)
			bt.Evals++
			bt.Distinct++
			bt.Nontrivial++
			if v != nil {
				failEnum(t, rec, "c09_long_lived", LongSkipCase{First: shape[0], Small: shape[1], N: shape[2], Reader: c.Reader, Cycle: c.Cycle}, v)
				rec.Merge(bt)
				return
			}
		}
	}
	// long-lived readers and writers with the same light co-tenant after every operation
	for ri, small := range []int{100, 3000} {
		idx++
		if idx%nshards != shard {
			continue
		}
		ops := []ROp{{"next", 20000}, {"release", 0}}
		for r := 0; r < 2300; r++ {
			ops = append(ops, ROp{"next", small}, ROp{"release", 0})
		}
		rc := ReaderCase{Total: 20000 + 2300*small + 9000, Plan: faultio.Plan{Chunks: []int{4096}, ErrAt: -1, WithData: ri == 1}, Ops: ops, Tenant: 1}
		var cv cov
		if v := checkReaderTenant(rc, &cv); v != nil {
			failEnum(t, rec, "c09_reader_tenant", ReaderCase{Total: rc.Total, Plan: rc.Plan, Tenant: 1, Ops: ops[:6]}, evid.Failf("reader used for 2300 rounds of {Next %d; Release} after a first request of 20000 bytes: %s", small, v.Msg))
			rec.Merge(bt)
			return
		}
		bt.Evals++
		bt.Distinct++
		bt.Nontrivial++
		for _, bw := range []bool{false, true} {
			wops := []WOp{}
			for r := 0; r < 2300; r++ {
				wops = append(wops, WOp{"malloc", small}, WOp{"writebin", 40}, WOp{"flush", 0})
			}
			wc := WriterCase{Bytes: bw, InitLen: 0, InitCap: 4096, Ops: wops, Tenant: 1, Pow2: true}
			var cv2 cov
			if v := checkWriterTenant(wc, &cv2); v != nil {
				failEnum(t, rec, "c09_writer_tenant", WriterCase{Bytes: bw, InitCap: 4096, Tenant: 1, Pow2: true, Ops: wops[:6]}, evid.Failf("writer (bytes-backed: %v) used for 2300 rounds of {Malloc %d; WriteBinary 40; Flush}: %s", bw, small, v.Msg))
				rec.Merge(bt)
				return
			}
			bt.Evals++
			bt.Distinct++
			bt.Nontrivial++
		}
	}
	rec.Merge(bt)
	rec.Sample(LongSkipCase{First: 70000, Small: 10, N: 2300, Reader: true, Cycle: true})
	rec.SetExhaustive()
}

// LongSkipCase is the compact replayable form of a c09_long_lived case.
type LongSkipCase struct {
	First  int  `json:"first"`
	Small  int  `json:"small"`
	N      int  `json:"n"`
	Reader bool `json:"reader"`
	Cycle  bool `json:"cycle"`
}

func init() {
	register("c09_long_lived", func(c LongSkipCase, cv *cov) *evid.Violation {
		if c.N < 0 || c.N > 4500 || c.First < 0 || c.Small < 0 {
			return nil
		}
		sc := SkipTenantCase{Reader: c.Reader, Cycle: c.Cycle, Tenant: 1, Plan: faultio.Plan{Chunks: []int{4096}, ErrAt: -1}}
		sc.Lens = append(sc.Lens, c.First)
		sc.Release = append(sc.Release, true)
		for i := 0; i < c.N; i++ {
			sc.Lens = append(sc.Lens, c.Small)
			sc.Release = append(sc.Release, i%7 == 6)
		}
		return checkSkipTenant(sc, cv)
	})
}

func boolInt(b bool) int {
	if b {
		return 1
	}
	return 0
}
