// Package faultio provides scripted io.Reader / io.Writer doubles that honour the io contracts
// while fragmenting data, returning empty reads, delivering errors with or after the last data.
package faultio

import (
	"errors"
	"fmt"
	"io"
	"os"
)

// ErrInjected is the harness sentinel error.
var ErrInjected = errors.New("verif: injected source error")

// ErrSink is the harness sentinel for failing sinks.
var ErrSink = errors.New("verif: injected sink error")

// Plan describes how a ScriptReader fragments its data. It is plain data (JSON-serialisable).
type Plan struct {
	Chunks   []int `json:"chunks"`   // cyclic; 0 means "fill p"
	Zeros    []int `json:"zeros"`    // cyclic: number of (0,nil) reads before each chunk (each ≤ 3)
	ErrAt    int   `json:"err_at"`   // stream position at which the terminal error occurs (≤ len(Data)); -1 = len(Data)
	WithData bool  `json:"withdata"` // deliver the terminal error together with the last chunk
	ErrKind  int   `json:"errkind"`  // 0 io.EOF, 1 io.ErrUnexpectedEOF, 2 ErrInjected, 3 wrapped ErrInjected, 4 CustomErr
	// LongZeros lifts the bound on consecutive empty reads from 3 to 99 (one below the point at which
	// bufio-style readers, and bufiox by its own constant, declare the source broken).
	LongZeros bool `json:"long_zeros,omitempty"`
	// Recover: the error at ErrAt is transient. It is returned exactly once; afterwards the source
	// serves Data[ErrAt:] and finally io.EOF (a connection that timed out once and then went on).
	Recover bool `json:"recover,omitempty"`
}

// CustomErr is the error value of ErrKind 4; the test package may set it (e.g. to an error whose chain
// contains an exception type of the code under test).
var CustomErr error = fmt.Errorf("verif custom: %w", ErrInjected)

// ExtraErrs are the error values of ErrKind 5, 6, ...; the test package may set them.
var ExtraErrs []error

// Err returns the terminal error value of the plan.
func (p *Plan) Err() error {
	if p.ErrKind >= 5 && p.ErrKind-5 < len(ExtraErrs) {
		return ExtraErrs[p.ErrKind-5]
	}
	switch p.ErrKind {
	case 0:
		return io.EOF
	case 1:
		return io.ErrUnexpectedEOF
	case 2:
		return ErrInjected
	case 4:
		return CustomErr
	default:
		return wrapped
	}
}

var wrapped = fmt.Errorf("verif wrapped: %w", ErrInjected)

// Normalize makes a plan well formed for a stream of n bytes.
func (p *Plan) Normalize(n int) {
	if len(p.Chunks) == 0 {
		p.Chunks = []int{0}
	}
	if len(p.Zeros) == 0 {
		p.Zeros = []int{0}
	}
	for i, c := range p.Chunks {
		if c < 0 {
			p.Chunks[i] = 0
		}
	}
	for i, z := range p.Zeros {
		if z < 0 {
			p.Zeros[i] = 0
		}
		lim := 3
		if p.LongZeros {
			lim = 99
		}
		if z > lim {
			p.Zeros[i] = lim
		}
	}
	if p.ErrAt < 0 || p.ErrAt > n {
		p.ErrAt = n
	}
	if p.ErrKind < 0 || p.ErrKind > 4+len(ExtraErrs) {
		p.ErrKind = 0
	}
}

// ScriptReader serves Data[:Plan.ErrAt] according to Plan, then the terminal error forever.
type ScriptReader struct {
	Data []byte
	Plan Plan

	Pos      int // bytes served so far (position of the underlying source)
	Calls    int // Read calls with len(p) > 0
	MaxChunk int
	i        int
	zleft    int
	zinit    bool
	done     bool
	// Recovered is set once a transient error (Plan.Recover) has been returned.
	Recovered bool
	// TermCalls counts Read calls (with room in p) that arrived after every byte before ErrAt had
	// been delivered and that therefore returned (0, terminal error): demand beyond the data.
	TermCalls int
}

// NewScriptReader builds a reader; the plan is normalised against data.
func NewScriptReader(data []byte, plan Plan) *ScriptReader {
	plan.Chunks = append([]int(nil), plan.Chunks...)
	plan.Zeros = append([]int(nil), plan.Zeros...)
	plan.Normalize(len(data))
	return &ScriptReader{Data: data, Plan: plan}
}

func (s *ScriptReader) Read(p []byte) (int, error) {
	if s.Recovered {
		// after the transient error: plain delivery of the rest, then io.EOF
		if len(p) == 0 {
			return 0, nil
		}
		s.Calls++
		if s.Pos >= len(s.Data) {
			return 0, io.EOF
		}
		n := copy(p, s.Data[s.Pos:])
		s.Pos += n
		return n, nil
	}
	if s.done {
		if s.Plan.Recover {
			s.Recovered = true
		}
		if len(p) > 0 {
			s.TermCalls++
		}
		return 0, s.Plan.Err()
	}
	if len(p) == 0 {
		return 0, nil
	}
	s.Calls++
	if !s.zinit {
		s.zleft = s.Plan.Zeros[s.i%len(s.Plan.Zeros)]
		s.zinit = true
	}
	if s.zleft > 0 {
		s.zleft--
		return 0, nil
	}
	remain := s.Plan.ErrAt - s.Pos
	if remain == 0 {
		s.done = true
		if s.Plan.Recover {
			s.Recovered = true
		}
		s.TermCalls++
		return 0, s.Plan.Err()
	}
	n := s.Plan.Chunks[s.i%len(s.Plan.Chunks)]
	s.i++
	s.zinit = false
	if n == 0 || n > len(p) {
		n = len(p)
	}
	if n > remain {
		n = remain
	}
	copy(p, s.Data[s.Pos:s.Pos+n])
	s.Pos += n
	if n > s.MaxChunk {
		s.MaxChunk = n
	}
	if s.Pos == s.Plan.ErrAt && s.Plan.WithData {
		s.done = true
		if s.Plan.Recover {
			s.Recovered = true
		}
		return n, s.Plan.Err()
	}
	return n, nil
}

// ScriptWriter records every Write (copying p), and fails the FailAt-th call (1-based; 0 = never)
// with ErrSink and a short count.
type ScriptWriter struct {
	FailAt int
	Short  int // bytes accepted by the failing call (clamped to len(p)-1... or 0 for empty p)
	// ErrKind selects the error value of the failing call (and of every later call): 0 ErrSink,
	// 1 a net.Error-like value with Timeout() and Temporary() true, 2 os.ErrDeadlineExceeded,
	// 3 a value with only Temporary() true, 4 io.ErrShortWrite, 5 io.EOF.
	ErrKind int

	Writes [][]byte
	Calls  int
	Failed bool
	After  int // calls received after the failure
}

// SinkErr returns the error value for a sink error kind.
func SinkErr(kind int) error {
	switch kind {
	case 1:
		return errTimeout
	case 2:
		return os.ErrDeadlineExceeded
	case 3:
		return errTemporary
	case 4:
		return io.ErrShortWrite
	case 5:
		return io.EOF
	}
	return ErrSink
}

type netLikeErr struct {
	msg                string
	timeout, temporary bool
}

func (e *netLikeErr) Error() string   { return e.msg }
func (e *netLikeErr) Timeout() bool   { return e.timeout }
func (e *netLikeErr) Temporary() bool { return e.temporary }

var (
	errTimeout   error = &netLikeErr{"verif: sink i/o timeout", true, true}
	errTemporary error = &netLikeErr{"verif: sink temporarily unavailable", false, true}
)

// Err is the error value this sink fails with.
func (w *ScriptWriter) Err() error { return SinkErr(w.ErrKind) }

func (w *ScriptWriter) Write(p []byte) (int, error) {
	if w.Failed {
		w.After++
		return 0, w.Err()
	}
	w.Calls++
	if w.FailAt > 0 && w.Calls == w.FailAt {
		w.Failed = true
		if w.Short == -1 {
			return len(p), w.Err() // everything was taken, and the sink still reports an error
		}
		n := w.Short
		if n >= len(p) {
			n = len(p) - 1
		}
		if n < 0 {
			n = 0
		}
		return n, w.Err()
	}
	w.Writes = append(w.Writes, append([]byte(nil), p...))
	return len(p), nil
}

// DecoySink is a ScriptWriter that also has the method set of zero-copy connection writers and of
// buffered writers. Only Write is the io.Writer contract: bytes handed to any of the other methods are
// accepted and dropped (and counted), so they are missing from what the sink received through Write.
type DecoySink struct {
	*ScriptWriter
	Extra int
}

func (d *DecoySink) WriteBinary(b []byte) (int, error) { d.Extra++; return len(b), nil }
func (d *DecoySink) WriteString(s string) (int, error) { d.Extra++; return len(s), nil }
func (d *DecoySink) WriteDirect(b []byte, _ int) error { d.Extra++; return nil }
func (d *DecoySink) Malloc(n int) ([]byte, error)      { d.Extra++; return make([]byte, n), nil }
func (d *DecoySink) WriteByte(byte) error              { d.Extra++; return nil }
func (d *DecoySink) Flush() error                      { d.Extra++; return nil }
func (d *DecoySink) MallocLen() int                    { return 0 }
func (d *DecoySink) Available() int                    { return 1 << 20 }
func (d *DecoySink) ReadFrom(io.Reader) (int64, error) { d.Extra++; return 0, nil }
func (d *DecoySink) WriteTo(io.Writer) (int64, error)  { d.Extra++; return 0, nil }
func (d *DecoySink) Writev(bs ...[]byte) (int, error) {
	d.Extra++
	n := 0
	for _, b := range bs {
		n += len(b)
	}
	return n, nil
}

// Bytes returns everything successfully written.
func (w *ScriptWriter) Bytes() []byte {
	var out []byte
	for _, b := range w.Writes {
		out = append(out, b...)
	}
	return out
}

// StrictReader is a minimal, non-allocating implementation of the bufiox.Reader method set over a byte
// slice: Next/Peek return sub-slices, Skip only moves a cursor, nothing is ever allocated for a declared
// size. It lets stream skippers that take a bufiox.Reader be fed hostile positive sizes. At the end of
// the data every method returns Err (io.EOF by default).
type StrictReader struct {
	Data []byte
	Pos  int
	Rel  int
	Err  error
	// Lenient: a negative count is not an error for Skip (it skips nothing), as in readers whose Skip only
	// compares the count with what is buffered. The bufiox.Reader interface does not say what a negative count does.
	Lenient bool
}

func (r *StrictReader) fail() error {
	if r.Err != nil {
		return r.Err
	}
	return io.EOF
}

// Next ...
func (r *StrictReader) Next(n int) ([]byte, error) {
	if n < 0 {
		return nil, errors.New("negative count")
	}
	if n > len(r.Data)-r.Pos {
		return nil, r.fail()
	}
	b := r.Data[r.Pos : r.Pos+n : r.Pos+n]
	r.Pos += n
	return b, nil
}

// Peek ...
func (r *StrictReader) Peek(n int) ([]byte, error) {
	if n < 0 {
		return nil, errors.New("negative count")
	}
	if n > len(r.Data)-r.Pos {
		return nil, r.fail()
	}
	return r.Data[r.Pos : r.Pos+n : r.Pos+n], nil
}

// Skip ...
func (r *StrictReader) Skip(n int) error {
	if n < 0 {
		if r.Lenient {
			return nil
		}
		return errors.New("negative count")
	}
	if n > len(r.Data)-r.Pos {
		return r.fail()
	}
	r.Pos += n
	return nil
}

// ReadBinary ...
func (r *StrictReader) ReadBinary(bs []byte) (int, error) {
	n := copy(bs, r.Data[r.Pos:])
	r.Pos += n
	if n < len(bs) {
		return n, r.fail()
	}
	return n, nil
}

// ReadLen ...
func (r *StrictReader) ReadLen() int { return r.Pos - r.Rel }

// Release ...
func (r *StrictReader) Release(e error) error { r.Rel = r.Pos; return nil }

// VirtualReader implements the bufiox.Reader method set over a stream of Size bytes of which only the
// first len(Head) are stored; the rest reads as zeros. Skip only moves the cursor, so values whose
// encoded size is many GiB can be presented to stream skippers without memory. Requests that would
// have to materialise more than 64 KiB of virtual bytes fail the test by panicking.
type VirtualReader struct {
	Head []byte
	Size int64
	Pos  int64
	Rel  int64
}

var virtualZeros = make([]byte, 64<<10)

func (r *VirtualReader) get(n int, advance bool) ([]byte, error) {
	if n < 0 {
		return nil, errors.New("verif: negative count")
	}
	if r.Pos+int64(n) > r.Size {
		return nil, io.EOF
	}
	var out []byte
	switch {
	case r.Pos+int64(n) <= int64(len(r.Head)):
		out = r.Head[r.Pos : r.Pos+int64(n)]
	case n > len(virtualZeros):
		panic(fmt.Sprintf("VirtualReader: request for %d virtual bytes (only Skip may cross them)", n))
	case r.Pos >= int64(len(r.Head)):
		out = virtualZeros[:n]
	default:
		out = append(append([]byte(nil), r.Head[r.Pos:]...), virtualZeros[:n-(len(r.Head)-int(r.Pos))]...)
	}
	if advance {
		r.Pos += int64(n)
	}
	return out, nil
}

func (r *VirtualReader) Next(n int) ([]byte, error) { return r.get(n, true) }
func (r *VirtualReader) Peek(n int) ([]byte, error) { return r.get(n, false) }
func (r *VirtualReader) Skip(n int) error {
	if n < 0 {
		return errors.New("verif: negative count")
	}
	if r.Pos+int64(n) > r.Size {
		return io.EOF
	}
	r.Pos += int64(n)
	return nil
}
func (r *VirtualReader) ReadBinary(bs []byte) (int, error) {
	b, err := r.get(len(bs), true)
	if err != nil {
		return 0, err
	}
	return copy(bs, b), nil
}
func (r *VirtualReader) ReadLen() int          { return int(r.Pos - r.Rel) }
func (r *VirtualReader) Release(e error) error { r.Rel = r.Pos; return nil }

// RetainWriter is a bufiox.Writer that copies nothing before Flush: Malloc hands out regions of their own, and
// WriteBinary keeps the caller's slice itself (the interface allows that: "before flush successfully, the buffer
// should be valid"). What the caller's slices hold at Flush time is what is written.
type RetainWriter struct {
	parts [][]byte
	n     int
	Out   []byte
}

// Malloc ...
func (w *RetainWriter) Malloc(n int) ([]byte, error) {
	if n < 0 {
		return nil, errors.New("verif: negative count")
	}
	b := make([]byte, n)
	w.parts = append(w.parts, b)
	w.n += n
	return b, nil
}

// WriteBinary keeps bs by reference.
func (w *RetainWriter) WriteBinary(bs []byte) (int, error) {
	w.parts = append(w.parts, bs)
	w.n += len(bs)
	return len(bs), nil
}

// WrittenLen ...
func (w *RetainWriter) WrittenLen() int { return w.n }

// Flush appends everything to Out.
func (w *RetainWriter) Flush() error {
	for _, p := range w.parts {
		w.Out = append(w.Out, p...)
	}
	w.parts, w.n = nil, 0
	return nil
}
