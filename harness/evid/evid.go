// Package evid records what a check run actually covered (evaluations, label distribution, distinct
// non-trivial cases, samples) and writes replay files for violations.
package evid

import (
	"encoding/binary"
	"encoding/hex"
	"encoding/json"
	"fmt"
	"hash/fnv"
	"os"
	"path/filepath"
	"runtime/debug"
	"sort"
	"strconv"
	"sync"
)

// Hex is a byte slice that serialises as a hex string.
type Hex []byte

func (h Hex) MarshalJSON() ([]byte, error) { return json.Marshal(hex.EncodeToString(h)) }
func (h *Hex) UnmarshalJSON(b []byte) error {
	var s string
	if err := json.Unmarshal(b, &s); err != nil {
		return err
	}
	d, err := hex.DecodeString(s)
	if err != nil {
		return err
	}
	*h = d
	return nil
}

// Violation describes a failed oracle.
type Violation struct {
	Msg   string `json:"msg"`
	Stack string `json:"stack,omitempty"`
}

func (v *Violation) Error() string { return v.Msg }

// Failf builds a violation.
func Failf(format string, a ...interface{}) *Violation {
	return &Violation{Msg: fmt.Sprintf(format, a...)}
}

// Safe runs f and converts a panic into a (value, stack) pair.
func Safe(f func()) (p interface{}, stack string) {
	defer func() {
		if r := recover(); r != nil {
			p = r
			stack = string(debug.Stack())
			if len(stack) > 6000 {
				stack = stack[:6000]
			}
		}
	}()
	f()
	return nil, ""
}

// Env helpers ------------------------------------------------------------------------------------

func envInt(name string, def int) int {
	if s := os.Getenv(name); s != "" {
		if v, err := strconv.Atoi(s); err == nil {
			return v
		}
	}
	return def
}

// Tier returns "quick" or "thorough".
func Tier() string {
	if os.Getenv("VERIF_TIER") == "thorough" {
		return "thorough"
	}
	return "quick"
}

// Thorough reports whether the thorough tier is running.
func Thorough() bool { return Tier() == "thorough" }

// Shard returns the shard index of this process and the number of shards.
func Shard() (int, int) { return envInt("VERIF_SHARD", 0), envInt("VERIF_NSHARDS", 1) }

// Pick returns q in the quick tier and th in the thorough tier.
func Pick(q, th int) int {
	if Thorough() {
		return th
	}
	return q
}

// Recorder ------------------------------------------------------------------------------------------

const maxHashes = 1 << 20

// Recorder accumulates coverage for one check (one test function) in one process.
type Recorder struct {
	Prop  string
	Check string
	Rule  string

	mu          sync.Mutex
	evals       int64
	nontrivial  int64
	hashes      map[uint64]struct{}
	byConstr    int64
	labels      map[string]int64
	samples     []json.RawMessage
	exhaustive  bool
	violations  []string
	assumptions []string
	excluded    map[string]int64
	journal     *os.File
	nfail       int
}

// New creates a recorder. rule states how cases are generated and what makes one non-trivial.
func New(prop, check, rule string) *Recorder {
	return &Recorder{Prop: prop, Check: check, Rule: rule, hashes: map[uint64]struct{}{}, labels: map[string]int64{}, excluded: map[string]int64{}}
}

// Hash64 hashes byte strings (FNV-1a) for distinct counting.
func Hash64(parts ...[]byte) uint64 {
	h := fnv.New64a()
	var l [8]byte
	for _, p := range parts {
		binary.LittleEndian.PutUint64(l[:], uint64(len(p)))
		h.Write(l[:])
		h.Write(p)
	}
	return h.Sum64()
}

// HashJSON hashes the JSON form of v.
func HashJSON(v interface{}) uint64 {
	b, _ := json.Marshal(v)
	return Hash64(b)
}

func (r *Recorder) salt(h uint64) uint64 {
	return h ^ Hash64([]byte(r.Check))
}

// Count records one evaluation. hash identifies the case for distinct counting; it is only used if nontrivial.
// sample, if non-nil, is called rarely to obtain a printable form of the case.
func (r *Recorder) Count(hash uint64, nontrivial bool, sample func() interface{}, labels ...string) {
	r.mu.Lock()
	r.evals++
	for _, l := range labels {
		r.labels[l]++
	}
	want := false
	if nontrivial {
		r.nontrivial++
		if len(r.hashes) < maxHashes {
			r.hashes[r.salt(hash)] = struct{}{}
		}
		if sample != nil && len(r.samples) < 4 {
			// take samples spread out: 1st, 10th, 100th, 1000th non-trivial case
			n := r.nontrivial
			want = n == 1 || n == 10 || n == 100 || n == 1000
		}
	}
	r.mu.Unlock()
	if want {
		b, err := json.Marshal(sample())
		if err == nil && len(b) < 6000 {
			r.mu.Lock()
			r.samples = append(r.samples, b)
			r.mu.Unlock()
		}
	}
}

// Batch is a lock-free local accumulator for enumeration goroutines.
type Batch struct {
	Evals      int64
	Distinct   int64 // distinct non-trivial by construction (enumerated without repetition)
	Labels     map[string]int64
	Nontrivial int64
}

// NewBatch makes an empty batch.
func NewBatch() *Batch { return &Batch{Labels: map[string]int64{}} }

// Merge adds a batch from an enumeration.
func (r *Recorder) Merge(b *Batch) {
	r.mu.Lock()
	r.evals += b.Evals
	r.byConstr += b.Distinct
	r.nontrivial += b.Nontrivial
	for k, v := range b.Labels {
		r.labels[k] += v
	}
	r.mu.Unlock()
}

// Sample adds a sample explicitly (used by enumerations).
func (r *Recorder) Sample(v interface{}) {
	b, err := json.Marshal(v)
	if err != nil || len(b) > 6000 {
		return
	}
	r.mu.Lock()
	if len(r.samples) < 6 {
		r.samples = append(r.samples, b)
	}
	r.mu.Unlock()
}

// Label bumps a label counter without counting an evaluation.
func (r *Recorder) Label(l string, n int64) {
	r.mu.Lock()
	r.labels[l] += n
	r.mu.Unlock()
}

// Exclude counts a generated case that was excluded from checking, by reason.
func (r *Recorder) Exclude(reason string) {
	r.mu.Lock()
	r.excluded[reason]++
	r.mu.Unlock()
}

// SetExhaustive marks that a finite space was enumerated completely.
func (r *Recorder) SetExhaustive() { r.mu.Lock(); r.exhaustive = true; r.mu.Unlock() }

// Assume records an assumption for the evidence file.
func (r *Recorder) Assume(s string) {
	r.mu.Lock()
	r.assumptions = append(r.assumptions, s)
	r.mu.Unlock()
}

// ReplayFile is the on-disk form of a failing (or regression) case.
type ReplayFile struct {
	Property string          `json:"property"`
	Check    string          `json:"check"`
	Case     json.RawMessage `json:"case"`
	Msg      string          `json:"msg,omitempty"`
	Stack    string          `json:"stack,omitempty"`
	Note     string          `json:"note,omitempty"`
}

// Fail writes a replay file for a failing case and returns its path. Later failures of the same
// check overwrite earlier ones (rapid's last failure is the shrunk one), except that failures
// from different checker names are kept apart.
func (r *Recorder) Fail(checker string, c interface{}, v *Violation) string {
	dir := os.Getenv("VERIF_REPLAYS")
	if dir == "" {
		dir = os.TempDir()
	}
	os.MkdirAll(dir, 0o755)
	shard, _ := Shard()
	path := filepath.Join(dir, fmt.Sprintf("%s-%s-s%d.json", r.Prop, r.Check, shard))
	cb, _ := json.Marshal(c)
	rf := ReplayFile{Property: r.Prop, Check: checker, Case: cb, Msg: v.Msg, Stack: v.Stack}
	b, _ := json.MarshalIndent(rf, "", " ")
	os.WriteFile(path, b, 0o644)
	r.mu.Lock()
	r.nfail++
	found := false
	for _, p := range r.violations {
		if p == path {
			found = true
		}
	}
	if !found {
		r.violations = append(r.violations, path)
	}
	r.mu.Unlock()
	return path
}

// Journal writes the case about to be executed, so that a fatal abort can be attributed to it.
func (r *Recorder) Journal(checker string, c interface{}) {
	dir := os.Getenv("VERIF_OUT")
	if dir == "" {
		return
	}
	if r.journal == nil {
		shard, _ := Shard()
		f, err := os.Create(filepath.Join(dir, fmt.Sprintf("journal-%s-s%d.json", r.Check, shard)))
		if err != nil {
			return
		}
		r.journal = f
	}
	cb, _ := json.Marshal(c)
	rf := ReplayFile{Property: r.Prop, Check: checker, Case: cb, Msg: "journaled before execution; the process died while running this case"}
	b, _ := json.Marshal(rf)
	r.journal.WriteAt(b, 0)
	r.journal.Truncate(int64(len(b)))
}

// JournalDone removes the journal (the process survived all cases).
func (r *Recorder) journalDone() {
	if r.journal != nil {
		name := r.journal.Name()
		r.journal.Close()
		os.Remove(name)
		r.journal = nil
	}
}

// Partial is the per-process evidence fragment merged by the driver.
type Partial struct {
	Prop        string            `json:"prop"`
	Check       string            `json:"check"`
	Rule        string            `json:"rule"`
	Evals       int64             `json:"evals"`
	Nontrivial  int64             `json:"nontrivial"`
	ByConstr    int64             `json:"distinct_by_construction"`
	Hashed      int               `json:"hashed"`
	HashFile    string            `json:"hash_file"`
	Labels      map[string]int64  `json:"labels"`
	Excluded    map[string]int64  `json:"excluded"`
	Samples     []json.RawMessage `json:"samples"`
	Exhaustive  bool              `json:"exhaustive"`
	Violations  []string          `json:"violations"`
	Assumptions []string          `json:"assumptions"`
	Shard       int               `json:"shard"`
	Complete    bool              `json:"complete"`
}

// Flush writes the fragment to $VERIF_OUT. Call it (deferred) at the end of the test function.
func (r *Recorder) Flush() {
	r.journalDone()
	dir := os.Getenv("VERIF_OUT")
	if dir == "" {
		return
	}
	os.MkdirAll(dir, 0o755)
	shard, _ := Shard()
	r.mu.Lock()
	defer r.mu.Unlock()
	base := filepath.Join(dir, fmt.Sprintf("part-%s-s%d", r.Check, shard))
	hs := make([]uint64, 0, len(r.hashes))
	for h := range r.hashes {
		hs = append(hs, h)
	}
	sort.Slice(hs, func(i, j int) bool { return hs[i] < hs[j] })
	hb := make([]byte, 8*len(hs))
	for i, h := range hs {
		binary.LittleEndian.PutUint64(hb[8*i:], h)
	}
	os.WriteFile(base+".hashes", hb, 0o644)
	p := Partial{Prop: r.Prop, Check: r.Check, Rule: r.Rule, Evals: r.evals, Nontrivial: r.nontrivial, ByConstr: r.byConstr,
		Hashed: len(hs), HashFile: base + ".hashes", Labels: r.labels, Excluded: r.excluded, Samples: r.samples,
		Exhaustive: r.exhaustive, Violations: r.violations, Assumptions: r.assumptions, Shard: shard, Complete: true}
	b, _ := json.MarshalIndent(p, "", " ")
	os.WriteFile(base+".json", b, 0o644)
}

// Failures returns how many failures were recorded.
func (r *Recorder) Failures() int { r.mu.Lock(); defer r.mu.Unlock(); return r.nfail }
