// Package guard provides byte slices placed flush against PROT_NONE pages, so that any access
// outside the slice on the guarded side faults. With debug.SetPanicOnFault(true) the fault is a
// recoverable panic.
package guard

import (
	"fmt"
	"sync"
	"syscall"
)

const page = 4096

// Arena is a reusable mapping: [guard page][data pages...][guard page].
type Arena struct {
	mem  []byte
	data []byte // the accessible middle part
}

// NewArena maps an arena able to hold up to max bytes.
func NewArena(max int) (*Arena, error) {
	n := (max + page - 1) / page * page
	if n == 0 {
		n = page
	}
	mem, err := syscall.Mmap(-1, 0, n+2*page, syscall.PROT_READ|syscall.PROT_WRITE, syscall.MAP_ANON|syscall.MAP_PRIVATE)
	if err != nil {
		return nil, err
	}
	if err := syscall.Mprotect(mem[:page], syscall.PROT_NONE); err != nil {
		return nil, err
	}
	if err := syscall.Mprotect(mem[page+n:], syscall.PROT_NONE); err != nil {
		return nil, err
	}
	return &Arena{mem: mem, data: mem[page : page+n : page+n]}, nil
}

// Cap is the number of usable bytes.
func (a *Arena) Cap() int { return len(a.data) }

// Right returns a copy of b whose last byte is the last byte before the trailing guard page
// (cap == len). An empty b yields an empty slice pointing at the guard page boundary.
func (a *Arena) Right(b []byte) []byte {
	if len(b) > len(a.data) {
		panic(fmt.Sprintf("guard: %d bytes do not fit arena of %d", len(b), len(a.data)))
	}
	off := len(a.data) - len(b)
	// poison the rest so stale data from earlier cases cannot look meaningful
	s := a.data[off:len(a.data):len(a.data)]
	copy(s, b)
	return s
}

// Left returns a copy of b whose first byte is the first byte after the leading guard page.
// cap == len, but memory after the slice is accessible, so only under-reads fault.
func (a *Arena) Left(b []byte) []byte {
	if len(b) > len(a.data) {
		panic(fmt.Sprintf("guard: %d bytes do not fit arena of %d", len(b), len(a.data)))
	}
	s := a.data[0:len(b):len(b)]
	copy(s, b)
	return s
}

// Free unmaps the arena.
func (a *Arena) Free() { syscall.Munmap(a.mem) }

var (
	mu   sync.Mutex
	free []*Arena
)

// Get returns an arena with at least n usable bytes from a free list.
func Get(n int) *Arena {
	mu.Lock()
	for i := len(free) - 1; i >= 0; i-- {
		if free[i].Cap() >= n {
			a := free[i]
			free = append(free[:i], free[i+1:]...)
			mu.Unlock()
			return a
		}
	}
	mu.Unlock()
	sz := 1 << 16
	for sz < n {
		sz *= 2
	}
	a, err := NewArena(sz)
	if err != nil {
		panic(err)
	}
	return a
}

// Put returns an arena to the free list.
func Put(a *Arena) {
	mu.Lock()
	if len(free) < 64 {
		free = append(free, a)
		a = nil
	}
	mu.Unlock()
	if a != nil {
		a.Free()
	}
}
