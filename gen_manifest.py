#!/usr/bin/env python3
"""Regenerates MANIFEST.json from checks.py (single source of truth for what is claimed)."""
import json, os, sys
ROOT = os.path.dirname(os.path.abspath(__file__))
sys.path.insert(0, ROOT)
from checks import CHECKS
props = [json.loads(l) for l in open(os.path.join(ROOT, "properties.jsonl"))]
checks = []
na = []
for p in props:
    pid = p["id"]
    c = CHECKS.get(pid)
    if not c or c.get("unclaimed"):
        na.append({"property_id": pid, "reason": (c or {}).get("unclaimed", "check not built yet (work in progress; the design in DESIGN.md section 4 applies)")})
        continue
    e = {
        "property_id": pid,
        "quick_cmd": "python3 verif.py run %s quick" % pid,
        "thorough_cmd": "python3 verif.py run %s thorough" % pid,
        "evidence_file": "/verif/evidence/%s.json" % pid,
        "replay_cmd_template": "python3 verif.py replay %s {path}" % pid,
        "engine": "gopkg-pbt",
        "level_claimed": {"category": c["level"], "text": c["level_text"], "design_ref": "DESIGN.md section 4, " + pid},
        "level_note": c["level_note"],
        "technique": c["technique"],
    }
    checks.append(e)
m = {
    "version": 1,
    "setup_cmd": "python3 verif.py setup",
    "hooks": {
        "guard": "verif",
        "enable": "no hooks: every observation point is reachable through exported API, io doubles passed in by the harness and the shared mcache pool; checks build /repo's working tree through a replace directive in /verif/harness/go.mod",
        "baseline_off_cmd": "cd /repo && GOFLAGS=-mod=mod go test -vet=off -count=1 -timeout 25m ./...",
        "source_commits": [],
        "add_only": True,
    },
    "engines": [{
        "name": "gopkg-pbt",
        "path": "/verif/harness",
        "serves_properties": [c["property_id"] for c in checks],
        "kind_free_text": "property-based testing (pgregory.net/rapid v1.3.0), bounded-exhaustive enumeration, fault-injecting io doubles, guard pages, pool co-tenant, race-detector stress and native go fuzzing against independent reference models; python3 driver verif.py",
    }],
    "checks": checks,
    "notes": "All checks are generated-input search against an explicit oracle (reference model, round trip, differential, invariant). known_findings.jsonl lists repaired defects (fixed:) and recorded ones (open:). Replays: python3 verif.py replay <ID> <file>.",
    "not_applicable": na,
}
json.dump(m, open(os.path.join(ROOT, "MANIFEST.json"), "w"), indent=1)
print("claimed", len(checks), "not claimed", len(na))
