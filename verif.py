#!/usr/bin/env python3
"""Driver for the property-based / fuzzing checks of cloudwego/gopkg (see DESIGN.md section 2).

usage:
  verif.py setup                      build both test binaries (warms the Go build cache)
  verif.py run <ID> quick|thorough    run the check of one property; writes evidence/<ID>.json
  verif.py replay <ID> <file>         re-run one saved case, bypassing rapid and the fuzzer
  verif.py all quick|thorough         run every claimed property (development aid)

exit codes: 0 property held on everything explored, 1 violation (a line
"VIOLATION property=<id> replay=<path>" is printed), 2 inconclusive (build failure, time-out,
worker death that does not reproduce).
"""
import glob
import json
import os
import re
import shutil
import struct
import subprocess
import sys
import time

ROOT = os.path.dirname(os.path.abspath(__file__))
HARNESS = os.path.join(ROOT, "harness")
WORK = os.path.join(ROOT, ".work")
REGRESS = os.path.join(ROOT, "regress")
REPLAYS = os.path.join(ROOT, "replays")
# development tools (mutant / seeded-change runs) redirect evidence so that the committed files only ever
# come from runs on the unchanged tree
EVIDENCE = os.environ.get("VERIF_EVIDENCE_DIR") or os.path.join(ROOT, "evidence")
KNOWN = os.path.join(ROOT, "known_findings.jsonl")
NCPU = os.cpu_count() or 4

sys.path.insert(0, ROOT)
from checks import CHECKS  # noqa: E402  (per-property configuration)


def goenv():
    env = dict(os.environ)
    env.update({
        "GOFLAGS": "-mod=mod", "GOPROXY": "off", "GOSUMDB": "off", "GOTOOLCHAIN": "local",
        "CGO_ENABLED": env.get("CGO_ENABLED", "1"),
    })
    env.setdefault("GOCACHE", os.path.join(os.path.expanduser("~"), ".cache", "go-build"))
    return env


def log(*a):
    print(*a, flush=True)


def build(race=False):
    """(Re)build the test binary from /repo's current working tree. Returns path or None."""
    os.makedirs(WORK, exist_ok=True)
    out = os.path.join(WORK, "props-race.test" if race else "props.test")
    cmd = ["go", "test", "-c", "-vet=off", "-o", out]
    if race:
        cmd.append("-race")
    cmd.append("./props")
    t0 = time.time()
    env = goenv()
    # the race detector needs cgo; the plain binary is built without it so that it runs under a
    # small address-space limit (ulimit -v) without pthread_create failures
    env["CGO_ENABLED"] = "1" if race else "0"
    p = subprocess.run(cmd, cwd=HARNESS, env=env, stdout=subprocess.PIPE, stderr=subprocess.STDOUT, text=True, errors="replace")
    if p.returncode != 0:
        log("BUILD FAILED (%s)" % " ".join(cmd))
        log(p.stdout[-6000:])
        return None
    log("built %s in %.1fs" % (os.path.basename(out), time.time() - t0))
    return out


def read_known():
    fixed, opened = [], []
    if os.path.exists(KNOWN):
        for line in open(KNOWN):
            line = line.strip()
            if not line or line.startswith("#"):
                continue
            m = re.match(r"(fixed|open): property=(\S+)\s+(.*)", line)
            if not m:
                continue
            kind, pid, rest = m.groups()
            if kind == "fixed":
                fixed.append((pid, rest))
            else:
                mm = re.match(r"replay=(\S+)\s+(.*)", rest)
                if mm:
                    opened.append((pid, os.path.join(ROOT, mm.group(1)), mm.group(2)))
    return fixed, opened


def with_ulimit(cmd, cfg, binary):
    pre = cfg.get("ulimit_v_kb")
    if pre and "race" not in os.path.basename(binary):
        return ["bash", "-c", "ulimit -v %d; exec \"$@\"" % pre, "x"] + cmd
    return cmd


def run_replays(binary, pid, files=None, dir_=None, timeout=600):
    """Returns list of (file, status, msg); status in PASS/FAIL/ERROR/DIED."""
    env = goenv()
    cfg = CHECKS.get(pid, {})
    if cfg.get("ulimit_v_kb"):
        env.setdefault("GOMEMLIMIT", "400MiB")
        env.setdefault("GOGC", "50")
    env["VERIF_PROP"] = pid
    env["VERIF_OUT"] = ""
    if dir_:
        env["VERIF_REPLAY_DIR"] = dir_
    res = []
    targets = files if files else [None]
    for f in targets:
        if f:
            env["VERIF_REPLAY"] = f
        try:
            p = subprocess.run(with_ulimit([binary, "-test.run", "^TestReplay$", "-test.timeout", "%ds" % timeout], cfg, binary), cwd=os.path.join(HARNESS, "props"),
                               env=env, stdout=subprocess.PIPE, stderr=subprocess.STDOUT, text=True, errors="replace", timeout=timeout + 30)
            out = p.stdout
        except subprocess.TimeoutExpired as e:
            out = (e.stdout or b"").decode("utf8", "replace") if isinstance(e.stdout, bytes) else (e.stdout or "")
            res.append((f or dir_, "ERROR", "replay timed out"))
            continue
        got = False
        for line in out.splitlines():
            m = re.match(r"REPLAY (\S+) (PASS|FAIL|ERROR)\s?(.*)", line)
            if m:
                got = True
                res.append((m.group(1), m.group(2), m.group(3)))
        if p.returncode != 0 and not got:
            res.append((f or dir_, "DIED", out[-3000:]))
        elif p.returncode != 0 and f and not any(r[0] == f for r in res):
            res.append((f, "DIED", out[-3000:]))
    return res


def union_hashes(parts):
    seen = set()
    for p in parts:
        hf = p.get("hash_file")
        if hf and os.path.exists(hf):
            data = open(hf, "rb").read()
            n = len(data) // 8
            seen.update(struct.unpack("<%dQ" % n, data[: n * 8]))
    return len(seen)


def write_evidence(pid, tier, seed, cfg, parts, wall, violations, notes, fuzz_stats):
    os.makedirs(EVIDENCE, exist_ok=True)
    evals = sum(p["evals"] for p in parts) + sum(f.get("execs", 0) for f in fuzz_stats)
    distinct = union_hashes(parts) + sum(p.get("distinct_by_construction", 0) for p in parts)
    by_check = {}
    for p in parts:
        c = by_check.setdefault(p["check"], {"evaluations": 0, "nontrivial_evaluations": 0, "labels": {}, "excluded": {}, "rule": p["rule"], "exhaustive": False, "shards": 0})
        c["evaluations"] += p["evals"]
        c["nontrivial_evaluations"] += p["nontrivial"]
        c["shards"] += 1
        c["exhaustive"] = c["exhaustive"] or p.get("exhaustive", False)
        for k, v in (p.get("labels") or {}).items():
            c["labels"][k] = c["labels"].get(k, 0) + v
        for k, v in (p.get("excluded") or {}).items():
            c["excluded"][k] = c["excluded"].get(k, 0) + v
    samples = []
    for p in parts:
        for s in p.get("samples") or []:
            if len(samples) < 8:
                samples.append({"check": p["check"], "case": s})
    assumptions = list(cfg.get("assumptions", []))
    for p in parts:
        for a in p.get("assumptions") or []:
            if a not in assumptions:
                assumptions.append(a)
    rule = " || ".join("%s: %s" % (k, v["rule"]) for k, v in sorted(by_check.items()))
    rule += " || distinct_nontrivial = size of the union over all shards of 64-bit hashes of non-trivial cases (capped at 2^20 per check and process) plus enumerated cases, which are distinct by construction"
    ev = {
        "property_id": pid,
        "tier": tier,
        "seed": seed,
        "level": cfg["level"],
        "coverage": {
            "evaluations": int(evals),
            "distinct_nontrivial": int(distinct),
            "rule": rule,
            "samples": samples,
            "exhaustive": any(v["exhaustive"] for v in by_check.values()),
            "per_check": by_check,
            "fuzz": fuzz_stats,
            "notes": notes,
        },
        "assumptions": assumptions,
        "wall_s": round(wall, 2),
        "violations": len(violations),
    }
    with open(os.path.join(EVIDENCE, pid + ".json"), "w") as f:
        json.dump(ev, f, indent=1, sort_keys=True)
        f.write("\n")


def run_shard(binary, pid, cfg, tier, seed, shard, nshards, outdir, replays, timeout):
    env = goenv()
    env.update({
        "VERIF_TIER": tier, "VERIF_SEED": str(seed), "VERIF_SHARD": str(shard), "VERIF_NSHARDS": str(nshards),
        "VERIF_OUT": outdir, "VERIF_REPLAYS": replays, "VERIF_PROP": pid,
    })
    env.update(cfg.get("env", {}))
    if cfg.get("ulimit_v_kb"):
        # keep the Go heap small so that the address-space limit is never reached by garbage that the
        # collector has not got round to yet (observed once on a loaded machine: fatal out of memory, exit 2)
        env.setdefault("GOMEMLIMIT", "400MiB")
    logf = open(os.path.join(outdir, "log-s%d.txt" % shard), "w")
    cmd = [binary, "-test.run", cfg["run"], "-test.timeout", "%ds" % timeout, "-test.v"]
    cmd = with_ulimit(cmd, cfg, binary)
    return subprocess.Popen(cmd, cwd=os.path.join(HARNESS, "props"), env=env, stdout=logf, stderr=subprocess.STDOUT), logf


def run_fuzz(pid, cfg, tier, outdir, notes):
    """Time-boxed native fuzz campaigns (thorough tier only). Returns (stats, violations)."""
    stats, violations = [], []
    for tgt in cfg.get("fuzz", []):
        secs = tgt.get("seconds", 60)
        cache = os.path.join(WORK, pid, "fuzzcache-" + tgt["name"])
        shutil.rmtree(cache, ignore_errors=True)
        os.makedirs(cache, exist_ok=True)
        crash_dir = os.path.join(HARNESS, "props", "testdata", "fuzz", tgt["name"])
        before = set(os.listdir(crash_dir)) if os.path.isdir(crash_dir) else set()
        env = goenv()
        env.update({"VERIF_TIER": tier, "VERIF_OUT": "", "VERIF_PROP": pid})
        cmd = ["go", "test", "./props", "-vet=off", "-run", "^$", "-fuzz", "^" + tgt["name"] + "$", "-fuzztime", "%ds" % secs,
               "-parallel", str(NCPU), "-test.fuzzcachedir", cache]
        t0 = time.time()
        try:
            p = subprocess.run(cmd, cwd=HARNESS, env=env, stdout=subprocess.PIPE, stderr=subprocess.STDOUT, text=True, errors="replace", timeout=secs + 600)
            out = p.stdout
            rc = p.returncode
        except subprocess.TimeoutExpired:
            notes.append("fuzz %s: timed out (inconclusive)" % tgt["name"])
            continue
        open(os.path.join(outdir, "fuzz-%s.txt" % tgt["name"]), "w").write(out)
        execs = 0
        for m in re.finditer(r"execs: (\d+)", out):
            execs = max(execs, int(m.group(1)))
        interesting = 0
        for m in re.finditer(r"new interesting: (\d+)", out):
            interesting = max(interesting, int(m.group(1)))
        st = {"target": tgt["name"], "seconds": round(time.time() - t0, 1), "execs": execs, "new_interesting": interesting, "workers": NCPU}
        after = set(os.listdir(crash_dir)) if os.path.isdir(crash_dir) else set()
        new = sorted(after - before)
        if rc != 0 and new:
            os.makedirs(os.path.join(REPLAYS, pid), exist_ok=True)
            for n in new:
                dst = os.path.join(REPLAYS, pid, "fuzz-%s-%s" % (tgt["name"], n))
                shutil.move(os.path.join(crash_dir, n), dst)
                violations.append(dst)
            st["crashers"] = len(new)
            log(out[-3000:])
        elif rc != 0:
            notes.append("fuzz %s: go test exited %d without a new crasher (inconclusive): %s" % (tgt["name"], rc, out[-500:]))
        stats.append(st)
        shutil.rmtree(cache, ignore_errors=True)
    return stats, violations


def run_check(pid, tier):
    if pid not in CHECKS:
        log("unknown property", pid)
        return 2
    cfg = CHECKS[pid]
    seed = int(os.environ.get("VERIF_SEED", "1") or "1")
    if seed == 0:
        seed = 1
    t0 = time.time()
    outdir = os.path.join(WORK, pid, "out")
    shutil.rmtree(os.path.join(WORK, pid), ignore_errors=True)
    os.makedirs(outdir, exist_ok=True)
    replays = os.path.join(REPLAYS, pid)
    shutil.rmtree(replays, ignore_errors=True)
    shutil.rmtree(os.path.join(HARNESS, "props", "testdata", "rapid"), ignore_errors=True)
    ev_path = os.path.join(EVIDENCE, pid + ".json")
    if os.path.exists(ev_path):
        os.remove(ev_path)

    race = cfg.get("race", False)
    binary = build(race=race)
    if binary is None:
        return 2
    violations = []   # replay paths
    notes = []
    fixed, opened = read_known()

    # 1. regression replays (one per confirmed root cause) and known open findings
    known_files = {f for (p, f, _) in opened if p == pid}
    reg = run_replays(binary, pid, dir_=REGRESS)
    for f, status, msg in reg:
        if f in known_files:
            continue
        if status in ("FAIL", "DIED"):
            log("regression replay failed: %s: %s" % (f, msg[:500]))
            violations.append(f)
        elif status == "ERROR":
            notes.append("replay error %s: %s" % (f, msg))
    for p_, f, what in opened:
        if p_ != pid:
            continue
        r = [x for x in reg if x[0] == f] or run_replays(binary, pid, files=[f])
        if r and r[0][1] in ("FAIL", "DIED"):
            log("KNOWN-FINDING: property=%s %s" % (pid, what))
            notes.append("known finding still present: " + what)
        else:
            notes.append("known finding no longer reproduces: " + what)
    notes.append("regression replays run: %d" % len([x for x in reg if x[1] == "PASS"]))

    # 2. generated search: shards of the test binary
    nshards = cfg.get("shards", {}).get(tier, 1 if tier == "quick" else NCPU)
    timeout = cfg.get("timeout", {}).get(tier, 900 if tier == "quick" else 7200)
    procs = [run_shard(binary, pid, cfg, tier, seed, s, nshards, outdir, replays, timeout) for s in range(nshards)]
    inconclusive = False
    retry = []
    for s, (p, lf) in enumerate(procs):
        try:
            rc = p.wait(timeout=timeout + 120)
        except subprocess.TimeoutExpired:
            p.kill()
            rc = -9
        lf.close()
        txt = open(lf.name, errors="replace").read()
        if os.environ.get("VERIF_DEBUG_FAKE_DEATH") == str(s) and rc == 0:
            rc, txt = 2, "simulated worker death (driver self-test)"
        if rc != 0:
            vio = re.findall(r"VIOLATION-CASE (\S+) replay=(\S+?):", txt)
            for _, path in vio:
                if path not in violations and os.path.exists(path):
                    violations.append(path)
            if "WARNING: DATA RACE" in txt or "race detected during execution" in txt:
                os.makedirs(replays, exist_ok=True)
                rp = os.path.join(replays, "race-report-s%d.txt" % s)
                shutil.copy(lf.name, rp)
                if rp not in violations:
                    violations.append(rp)
            if not vio and "DATA RACE" not in txt:
                # worker death without an oracle failure: try to attribute it to a journaled case
                journals = glob.glob(os.path.join(outdir, "journal-*-s%d.json" % s))
                attributed = False
                for j in journals:
                    r = run_replays(binary, pid, files=[j], timeout=300)
                    if r and r[0][1] in ("FAIL", "DIED"):
                        os.makedirs(replays, exist_ok=True)
                        dst = os.path.join(replays, os.path.basename(j))
                        shutil.copy(j, dst)
                        violations.append(dst)
                        attributed = True
                        log("worker death reproduced from journaled case %s: %s" % (dst, r[0][2][-800:]))
                if not attributed:
                    # nothing in the case reproduces the death: resource exhaustion of a loaded machine is the
                    # usual reason (the shards of a check run concurrently). Run this shard once more, alone,
                    # after the others have finished; only if it dies again is the run inconclusive.
                    retry.append((s, rc, txt[-3000:]))
    for s, rc0, tail in retry:
        for f in glob.glob(os.path.join(outdir, "part-*-s%d.*" % s)) + glob.glob(os.path.join(outdir, "journal-*-s%d.json" % s)):
            os.remove(f)
        log("shard %d exited %s without a reproducible failure; running it again on its own" % (s, rc0))
        p, lf = run_shard(binary, pid, cfg, tier, seed, s, nshards, outdir, replays, timeout)
        try:
            rc = p.wait(timeout=timeout + 120)
        except subprocess.TimeoutExpired:
            p.kill()
            rc = -9
        lf.close()
        txt = open(lf.name, errors="replace").read()
        if rc == 0:
            notes.append("shard %d died once without a reproducible failure (exit %s) and passed when run again on its own" % (s, rc0))
            continue
        vio = re.findall(r"VIOLATION-CASE (\S+) replay=(\S+?):", txt)
        for _, path in vio:
            if path not in violations and os.path.exists(path):
                violations.append(path)
        if "WARNING: DATA RACE" in txt or "race detected during execution" in txt:
            os.makedirs(replays, exist_ok=True)
            rp = os.path.join(replays, "race-report-s%d.txt" % s)
            shutil.copy(lf.name, rp)
            if rp not in violations:
                violations.append(rp)
        if not vio and "DATA RACE" not in txt:
            attributed = False
            for j in glob.glob(os.path.join(outdir, "journal-*-s%d.json" % s)):
                r = run_replays(binary, pid, files=[j], timeout=300)
                if r and r[0][1] in ("FAIL", "DIED"):
                    os.makedirs(replays, exist_ok=True)
                    dst = os.path.join(replays, os.path.basename(j))
                    shutil.copy(j, dst)
                    violations.append(dst)
                    attributed = True
                    log("worker death reproduced from journaled case %s: %s" % (dst, r[0][2][-800:]))
            if not attributed:
                inconclusive = True
                log("shard %d exited %s again without a reproducible failure (inconclusive); tail of the first log:" % (s, rc))
                log(tail)
                log("tail of the second log:")
                log(txt[-3000:])
    parts = []
    for f in sorted(glob.glob(os.path.join(outdir, "part-*.json"))):
        try:
            parts.append(json.load(open(f)))
        except Exception as e:  # noqa
            notes.append("unreadable fragment %s: %s" % (f, e))
    for p in parts:
        for v in p.get("violations") or []:
            if v not in violations and os.path.exists(v):
                violations.append(v)
        for k, v in (p.get("labels") or {}).items():
            if k.startswith("rapid_cases_requested:"):
                name = k.split(":", 1)[1]
                ran = p["labels"].get("rapid_cases_run:" + name, 0)
                if ran < v and not p.get("violations"):
                    notes.append("rapid ran %d of %d requested cases for %s in shard %s" % (ran, v, name, p.get("shard")))

    # 3. native fuzzing (thorough only)
    fuzz_stats = []
    if tier == "thorough" and cfg.get("fuzz") and not violations:
        fuzz_stats, fv = run_fuzz(pid, cfg, tier, outdir, notes)
        violations.extend(fv)

    wall = time.time() - t0
    if not parts and not violations:
        log("no evidence fragments produced (inconclusive)")
        return 2
    if parts:
        write_evidence(pid, tier, seed, cfg, parts, wall, violations, notes, fuzz_stats)
    for v in violations:
        log("VIOLATION property=%s replay=%s" % (pid, v))
    if violations:
        return 1
    if inconclusive:
        return 2
    evs = json.load(open(ev_path))
    log("OK property=%s tier=%s seed=%d evaluations=%d distinct_nontrivial=%d wall=%.1fs" % (
        pid, tier, seed, evs["coverage"]["evaluations"], evs["coverage"]["distinct_nontrivial"], wall))
    return 0


def main():
    if len(sys.argv) < 2:
        print(__doc__)
        return 2
    cmd = sys.argv[1]
    if cmd == "setup":
        b1 = build(False)
        ok = b1 is not None and build(True) is not None
        if ok:
            # self-checks of the harness (reference models, io doubles); they do not touch the code under test
            p = subprocess.run([b1, "-test.run", "^TestSelf_", "-test.timeout", "300s"], cwd=os.path.join(HARNESS, "props"), env=goenv(),
                               stdout=subprocess.PIPE, stderr=subprocess.STDOUT, text=True, errors="replace")
            if p.returncode != 0:
                log("harness self-checks failed:\n" + p.stdout[-3000:])
                ok = False
            else:
                log("harness self-checks passed")
        return 0 if ok else 2
    if cmd == "run":
        pid = sys.argv[2]
        tier = sys.argv[3] if len(sys.argv) > 3 else os.environ.get("VERIF_TIER", "quick")
        return run_check(pid, tier)
    if cmd == "replay":
        pid, f = sys.argv[2], os.path.abspath(sys.argv[3])
        binary = build(race=CHECKS.get(pid, {}).get("race", False))
        if binary is None:
            return 2
        res = run_replays(binary, pid, files=[f])
        rc = 0
        for ff, status, msg in res:
            log("%s %s %s" % (status, ff, msg))
            if status in ("FAIL", "DIED"):
                log("VIOLATION property=%s replay=%s" % (pid, ff))
                rc = 1
            elif status == "ERROR":
                rc = max(rc, 2)
        if not res:
            log("nothing replayed (property filter mismatch?)")
            return 2
        return rc
    if cmd == "all":
        tier = sys.argv[2] if len(sys.argv) > 2 else "quick"
        worst = 0
        for pid in sorted(CHECKS):
            log("=== %s %s" % (pid, tier))
            rc = run_check(pid, tier)
            worst = max(worst, rc)
        return worst
    print(__doc__)
    return 2


if __name__ == "__main__":
    try:
        rc = main()
    except Exception:  # an internal error of the driver is inconclusive, never a violation
        import traceback
        traceback.print_exc()
        rc = 2
    sys.exit(rc)
